(* Proofs/Dual.v — forward-mode differentiation as a data type of the model.  A value is a real function of the
   differentiation variable t together with a candidate derivative at t0 and the condition under which the candidate is
   claimed (every operator application inside its open domain).  The operators act by the differentiation rules.
   Soundness: when the condition holds, the candidate IS the derivative (Coquelicot's is_derive).  Because the type is
   a carrier of the model, the denotation of a deep expression in it follows the same precedence evaluation as its
   real denotation, whose projections it has. *)
From Coq Require Import Reals Lra List NArith ZArith Lia Bool.
From Coquelicot Require Import Coquelicot.
Import ListNotations.
From Exmex.Model Require Import Base EvalBinary Lexer Flat Deep Convert Calc Partial.
From Exmex.Gen Require Import Tables.
From Exmex.Spec Require Import RefSem.
From Exmex.Proofs Require Import Vars Pev PevFold PevRel DeepSem DeepSubs C11Main RuleAnalysis RealCarrier CalcSem.
Open Scope R_scope.

(* ---- the derivative of every unary operator, written as the rule builds it ---- *)
Definition rder (c : ucode) (x : R) : R :=
  match c with
  | CNeg => - 1 | CPos => 1
  | CSin => cos x | CCos => - sin x | CTan => 1 / powR (cos x) 2
  | CAsin => 1 / sqrt (1 - powR x 2) | CAcos => - (1 / sqrt (1 - powR x 2)) | CAtan => 1 / (1 + powR x 2)
  | CSinh => cosh x | CCosh => sinh x | CTanh => 1 - powR (tanh x) 2
  | CAsinh => 1 / sqrt (1 + powR x 2) | CAcosh => 1 / (sqrt (x - 1) * sqrt (x + 1)) | CAtanh => 1 / (1 - powR x 2)
  | CExp => exp x | CLn => 1 / x | CLog2 => 1 / (x * ln 2) | CLog10 => 1 / (x * ln 10) | CSqrt => 1 / (2 * sqrt x)
  | COtherU => 0
  end.
(* the interior of the domain *)
Definition ucond (c : ucode) (x : R) : Prop :=
  match c with
  | CTan => cos x <> 0
  | CAsin | CAcos | CAtanh => -1 < x < 1
  | CAcosh => 1 < x
  | CLn | CLog2 | CLog10 | CSqrt => 0 < x
  | COtherU => False
  | _ => True
  end.

Theorem rder_sound c x : ucond c x -> is_derive (rfun c) x (rder c x).
Proof.
  destruct c; cbn [ucond rder]; unfold rfun; intros Hx; rewrite ?powR_2.
  - auto_derive; [trivial|lra].
  - auto_derive; [trivial|lra].
  - auto_derive; [trivial|ring].
  - auto_derive; [trivial|ring].
  - unfold tan. auto_derive; [exact Hx|].
    pose proof (sin2_cos2 x) as H1. unfold Rsqr in H1.
    replace (1 * cos x * / cos x + sin x * (- (1 * - sin x) * / (cos x * cos x))) with ((cos x * cos x + sin x * sin x) / (cos x * cos x)) by (field; exact Hx).
    replace (cos x * cos x + sin x * sin x) with 1 by lra. field. exact Hx.
  - apply is_derive_Reals.
    pose proof (derive_pt_asin x Hx) as Hd. unfold derive_pt in Hd.
    destruct (derivable_pt_asin x Hx) as [l Hl]. cbn in Hd. subst l.
    replace (1 / sqrt (1 - x * x)) with (1 / sqrt (1 - x²)) by (unfold Rsqr; reflexivity). exact Hl.
  - apply is_derive_Reals.
    pose proof (derive_pt_acos x Hx) as Hd. unfold derive_pt in Hd.
    destruct (derivable_pt_acos x Hx) as [l Hl]. cbn in Hd. subst l.
    replace (- (1 / sqrt (1 - x * x))) with (- 1 / sqrt (1 - x²)) by (unfold Rsqr; field; apply Rgt_not_eq, sqrt_lt_R0; nra).
    exact Hl.
  - apply is_derive_Reals. replace (1 / (1 + x * x)) with (/ (1 + x ^ 2)) by (field; nra).
    apply derivable_pt_lim_atan.
  - apply is_derive_Reals. apply derivable_pt_lim_sinh.
  - apply is_derive_Reals. apply derivable_pt_lim_cosh.
  - unfold tanh, sinh, cosh. pose proof (exp_sum_pos x) as Hp.
    auto_derive; [lra|]. field. exact Hp.
  - apply is_derive_Reals.
    replace (1 / sqrt (1 + x * x)) with (/ sqrt (x ^ 2 + 1)) by (replace (1 + x * x) with (x ^ 2 + 1) by ring; field; apply Rgt_not_eq, sqrt_lt_R0; nra).
    apply derivable_pt_lim_arcsinh.
  - unfold acosh.
    assert (H1 : 0 < x * x + - (1)) by nra. assert (Hs : 0 < sqrt (x * x + - (1))) by (apply sqrt_lt_R0; exact H1).
    auto_derive; [split; [exact H1|split; [lra|exact I]]|].
    assert (Hm : sqrt (x - 1) * sqrt (x + 1) = sqrt (x * x + - (1))).
    { rewrite <- sqrt_mult by lra. f_equal. ring. }
    rewrite Hm. field. split; lra.
  - unfold atanh.
    auto_derive; [split; [lra|split; [apply Rmult_lt_0_compat; [lra|apply Rinv_0_lt_compat; lra]|exact I]]|]. field. repeat split; nra.
  - auto_derive; [trivial|ring].
  - auto_derive; [exact Hx|field; lra].
  - pose proof (ln_pos_of_gt1 2 ltac:(lra)). auto_derive; [exact Hx|]. field. split; [assumption|lra].
  - pose proof (ln_pos_of_gt1 10 ltac:(lra)). auto_derive; [exact Hx|]. field. split; [assumption|lra].
  - auto_derive; [exact Hx|]. field. apply Rgt_not_eq. apply sqrt_lt_R0. exact Hx.
  - destruct Hx.
Qed.

(* ---- differentiation rules for arbitrary operands differentiable at t ---- *)
Section Rules.
Variables (f g : R -> R) (t f' g' : R).
Hypothesis Hf : is_derive f t f'.
Hypothesis Hg : is_derive g t g'.
Let Ef : Derive (fun x => f x) t = f' := is_derive_unique f t f' Hf.
Let Eg : Derive (fun x => g x) t = g' := is_derive_unique g t g' Hg.
Let exf : ex_derive (fun x => f x) t := ex_intro _ f' Hf.
Let exg : ex_derive (fun x => g x) t := ex_intro _ g' Hg.

Lemma der_add : is_derive (fun x => f x + g x) t (f' + g').
Proof. auto_derive; [repeat split; assumption|]. rewrite Ef, Eg. ring. Qed.
Lemma der_sub : is_derive (fun x => f x - g x) t (f' - g').
Proof. auto_derive; [repeat split; assumption|]. rewrite Ef, Eg. ring. Qed.
Lemma der_mul : is_derive (fun x => f x * g x) t (g t * f' + g' * f t).
Proof. auto_derive; [repeat split; assumption|]. rewrite Ef, Eg. ring. Qed.
Lemma der_div : g t <> 0 -> is_derive (fun x => f x / g x) t ((f' * g t - g' * f t) / (g t * g t)).
Proof. intros Hn. auto_derive; [repeat split; assumption|]. rewrite Ef, Eg. field. exact Hn. Qed.
Lemma der_rpower : 0 < f t -> is_derive (fun x => Rpower (f x) (g x)) t (Rpower (f t) (g t - 1) * g t * f' + Rpower (f t) (g t) * ln (f t) * g').
Proof.
  intros Hp. unfold Rpower. auto_derive; [repeat split; assumption|]. rewrite Ef, Eg.
  replace (exp ((g t - 1) * ln (f t))) with (exp (g t * ln (f t)) * / f t).
  2:{ replace ((g t - 1) * ln (f t)) with (g t * ln (f t) + - ln (f t)) by ring. rewrite exp_plus, exp_Ropp, exp_ln by exact Hp. reflexivity. }
  field. lra.
Qed.
(* near t the base stays positive, where powR is Rpower *)
Lemma pos_near : 0 < f t -> locally t (fun x => Rpower (f x) (g x) = powR (f x) (g x)).
Proof.
  intros Hp.
  assert (Hc : continuity_pt f t).
  { apply derivable_continuous_pt. exists f'. apply is_derive_Reals. exact Hf. }
  destruct (Hc (f t / 2) ltac:(lra)) as (alp & Ha & Hd).
  exists (mkposreal alp Ha). intros y Hy. symmetry. apply powR_pos.
  destruct (Req_dec t y) as [<-|Hne]; [exact Hp|].
  assert (Hdist : R_dist (f y) (f t) < f t / 2).
  { apply Hd. split; [split; [exact I|exact Hne]|]. exact Hy. }
  unfold R_dist in Hdist. apply Rabs_def2 in Hdist. lra.
Qed.
Lemma der_pow_pos : 0 < f t -> is_derive (fun x => powR (f x) (g x)) t (powR (f t) (g t - 1) * g t * f' + powR (f t) (g t) * ln (f t) * g').
Proof.
  intros Hp. rewrite !(powR_pos (f t)) by exact Hp.
  apply (is_derive_ext_loc (fun x => Rpower (f x) (g x))); [exact (pos_near Hp)|exact (der_rpower Hp)].
Qed.
Lemma der_pow_nat (n : nat) : (forall x, g x = INR n) -> is_derive (fun x => powR (f x) (g x)) t (powR (f t) (g t - 1) * g t * f' + powR (f t) (g t) * ln (f t) * g').
Proof.
  intros Hn.
  assert (Eg0 : g' = 0).
  { rewrite <- Eg. rewrite (Derive_ext (fun x => g x) (fun _ => INR n)) by exact Hn. apply Derive_const. }
  apply (is_derive_ext (fun x => f x ^ n)); [intros x; rewrite Hn, powR_INR; reflexivity|].
  rewrite Eg0, !Hn, powR_INR.
  replace (powR (f t) (INR n - 1) * INR n * f' + f t ^ n * ln (f t) * 0) with (INR n * f' * f t ^ pred n).
  - apply (is_derive_pow f n t f' Hf).
  - destruct n as [|m]; [simpl; ring|]. replace (INR (S m) - 1) with (INR m) by (rewrite (S_INR m); ring). rewrite powR_INR. cbn [pred]. ring.
Qed.
End Rules.

Section Dual.
Variable t0 : R.
Record dual := { dv : R -> R; dd : R; dk : Prop }.
Definition sound (s : dual) : Prop := dk s -> is_derive (dv s) t0 (dd s).
Definition deq (s s' : dual) : Prop := (forall t, dv s t = dv s' t) /\ dd s = dd s' /\ (dk s <-> dk s').
Lemma deq_refl s : deq s s. Proof. repeat split; auto. Qed.
Lemma deq_sym s s' : deq s s' -> deq s' s.
Proof. intros (H1 & H2 & H3). repeat split; [intros t; symmetry; apply H1|symmetry; exact H2|apply H3|apply H3]. Qed.
Lemma deq_trans s s' s'' : deq s s' -> deq s' s'' -> deq s s''.
Proof. intros (H1 & H2 & H3) (G1 & G2 & G3). repeat split; [intros t; rewrite H1; apply G1|congruence|intros H; apply G3, H3, H|intros H; apply H3, G3, H]. Qed.
Lemma sound_deq s s' : deq s s' -> sound s -> sound s'.
Proof. intros (H1 & H2 & H3) Hs Hk. rewrite <- H2. apply (is_derive_ext (dv s)); [exact H1|]. apply Hs. apply H3. exact Hk. Qed.

Definition cdual (d : R) : dual := {| dv := fun _ => d; dd := 0; dk := True |}.
Definition udual (c : ucode) (f : dual) : dual :=
  {| dv := fun t => rfun c (dv f t); dd := dd f * rder c (dv f t0); dk := dk f /\ ucond c (dv f t0) |}.
Definition bdual (c : bcode) (f g : dual) : dual :=
  let f0 := dv f t0 in let g0 := dv g t0 in
  match c with
  | BcAdd => {| dv := fun t => dv f t + dv g t; dd := dd f + dd g; dk := dk f /\ dk g |}
  | BcSub => {| dv := fun t => dv f t - dv g t; dd := dd f - dd g; dk := dk f /\ dk g |}
  | BcMul => {| dv := fun t => dv f t * dv g t; dd := g0 * dd f + dd g * f0; dk := dk f /\ dk g |}
  | BcDiv => {| dv := fun t => dv f t / dv g t; dd := (dd f * g0 - dd g * f0) / (g0 * g0); dk := dk f /\ dk g /\ g0 <> 0 |}
  | BcPow => {| dv := fun t => powR (dv f t) (dv g t);
                dd := powR f0 (g0 - 1) * g0 * dd f + powR f0 g0 * ln f0 * dd g;
                dk := dk f /\ dk g /\ (0 < f0 \/ exists n : nat, (forall t, dv g t = INR n) /\ (f0 <> 0 \/ (1 <= n)%nat)) |}
  | BcOther => {| dv := fun _ => 0; dd := 0; dk := False |}
  end.
Lemma dv_udual c f t : dv (udual c f) t = rfun c (dv f t). Proof. reflexivity. Qed.
Lemma dv_bdual c f g t : dv (bdual c f g) t = bfun c (dv f t) (dv g t). Proof. destruct c; reflexivity. Qed.

Lemma cdual_sound d : sound (cdual d).
Proof. intros _. cbn [cdual dv dd]. exact (@is_derive_const R_AbsRing R_NormedModule d t0). Qed.
Theorem udual_sound c f : sound f -> sound (udual c f).
Proof.
  intros Hf [Kf Kc]. cbn [dv dd udual].
  apply (is_derive_comp (rfun c) (dv f) t0 (rder c (dv f t0)) (dd f)); [apply rder_sound; exact Kc|exact (Hf Kf)].
Qed.
Theorem bdual_sound c f g : sound f -> sound g -> sound (bdual c f g).
Proof.
  intros Hf Hg Hk. destruct c; cbn [bdual dk dv dd] in *.
  - destruct Hk as (Kf & Kg & [Hp|(n & Hn & _)]).
    + exact (der_pow_pos (dv f) (dv g) t0 (dd f) (dd g) (Hf Kf) (Hg Kg) Hp).
    + exact (der_pow_nat (dv f) (dv g) t0 (dd f) (dd g) (Hf Kf) (Hg Kg) n Hn).
  - destruct Hk as [Kf Kg]. exact (der_mul (dv f) (dv g) t0 (dd f) (dd g) (Hf Kf) (Hg Kg)).
  - destruct Hk as (Kf & Kg & Hn). exact (der_div (dv f) (dv g) t0 (dd f) (dd g) (Hf Kf) (Hg Kg) Hn).
  - destruct Hk as [Kf Kg]. exact (der_add (dv f) (dv g) t0 (dd f) (dd g) (Hf Kf) (Hg Kg)).
  - destruct Hk as [Kf Kg]. exact (der_sub (dv f) (dv g) t0 (dd f) (dd g) (Hf Kf) (Hg Kg)).
  - destruct Hk.
Qed.

(* congruence and associativity *)
Lemma udual_deq c f f' : deq f f' -> deq (udual c f) (udual c f').
Proof.
  intros (H1 & H2 & H3). unfold udual, deq. cbn [dv dd dk]. rewrite H2, (H1 t0).
  split; [intros t; rewrite H1; reflexivity|]. split; [reflexivity|]. rewrite H3. reflexivity.
Qed.
Lemma bdual_deq c f f' g g' : deq f f' -> deq g g' -> deq (bdual c f g) (bdual c f' g').
Proof.
  intros (H1 & H2 & H3) (G1 & G2 & G3). destruct c; unfold deq; cbn [bdual dv dd dk]; rewrite ?H2, ?G2, ?(H1 t0), ?(G1 t0);
    (split; [intros t; rewrite ?H1, ?G1; reflexivity|]); (split; [reflexivity|]); rewrite ?H3, ?G3; try reflexivity.
  split; intros (K1 & K2 & [Hp|(n & Hn & Hz)]); (split; [exact K1|split; [exact K2|]]); try (left; exact Hp);
    right; exists n; (split; [intros t; rewrite <- ?G1; rewrite ?G1; first [rewrite <- G1; apply Hn|rewrite G1; apply Hn|apply Hn]|exact Hz]).
Qed.
Lemma bdual_assoc_add a b c : deq (bdual BcAdd (bdual BcAdd a b) c) (bdual BcAdd a (bdual BcAdd b c)).
Proof. unfold deq. cbn [bdual dv dd dk]. split; [intros t; ring|]. split; [ring|tauto]. Qed.
Lemma bdual_assoc_mul a b c : deq (bdual BcMul (bdual BcMul a b) c) (bdual BcMul a (bdual BcMul b c)).
Proof. unfold deq. cbn [bdual dv dd dk]. split; [intros t; ring|]. split; [ring|tauto]. Qed.

Definition Dc : carrier dual :=
  {| dflt := cdual 0; lit := fun _ => None; cst := fun _ => cdual 0; binf := fun k => bdual (bcode_of k); unf := fun k => udual (ucode_of k);
     show := fun _ => [] |}.
Lemma Dc_bin : forall (k : nat) (a a' b b' : dual), deq a a' -> deq b b' -> deq (binf Dc k a b) (binf Dc k a' b').
Proof. intros. apply bdual_deq; assumption. Qed.
Lemma Dc_un : forall (k : nat) (a a' : dual), deq a a' -> deq (unf Dc k a) (unf Dc k a').
Proof. intros. apply udual_deq; assumption. Qed.
Lemma Dc_assoc k : comm_of float_table k = true -> forall a b c, deq (binf Dc k (binf Dc k a b) c) (binf Dc k a (binf Dc k b c)).
Proof.
  intros H a b c. destruct (comm_cases k H) as [->| ->]; cbn [binf Dc].
  - change (bcode_of 1) with BcMul. apply bdual_assoc_mul.
  - change (bcode_of 3) with BcAdd. apply bdual_assoc_add.
Qed.
Lemma Dc_op_sound o a b : sound a -> sound b -> sound (apply_op Dc o a b).
Proof.
  intros Ha Hb. unfold apply_op. induction (fun_ o) as [|u us IH]; cbn [apply_un fold_right]; [apply bdual_sound; assumption|apply udual_sound; exact IH].
Qed.
Lemma Dc_un_sound us a : sound a -> sound (apply_un Dc us a).
Proof. intros Ha. induction us as [|u us IH]; cbn [apply_un fold_right]; [exact Ha|apply udual_sound; exact IH]. Qed.
End Dual.

(* ---- the denotation of a deep expression along the line through rho0 in the direction of the variable xi ---- *)
Section Denote.
Variable rho0 : str -> R.
Variable xi : str.
Definition line (t : R) : str -> R := fun x => if str_eqb x xi then t else rho0 x.
Definition t0 : R := rho0 xi.
Definition vdual (x : str) : dual := {| dv := fun t => line t x; dd := if str_eqb x xi then 1 else 0; dk := True |}.
Local Notation DcT := (Dc t0).
Fixpoint ddual (e : deepex R) : dual :=
  match e with
  | DE nodes bops uop _ =>
      apply_un DcT uop
        (level_val DcT
           ((fix go (l : list (dnode R)) : list dual :=
               match l with
               | [] => []
               | n :: tl => (match n with DNum d => cdual d | DVar _ x => vdual x | DExpr e' => ddual e' end) :: go tl
               end) nodes) bops)
  end.
Definition ndual (n : dnode R) : dual := match n with DNum d => cdual d | DVar _ x => vdual x | DExpr e' => ddual e' end.
Lemma ddual_unfold nodes bops uop vars :
  ddual (DE nodes bops uop vars) = apply_un DcT uop (level_val DcT (map ndual nodes) bops).
Proof.
  cbn [ddual]. do 2 f_equal; try (induction nodes as [|n tl IH]; [reflexivity|]; cbn [map]; rewrite <- IH; destruct n; reflexivity).
Qed.

Lemma line_t0 x : line t0 x = rho0 x.
Proof. unfold line, t0. destruct (str_eqb x xi) eqn:E; [|reflexivity]. apply str_eqb_eq in E. subst. reflexivity. Qed.

Lemma vdual_sound x : sound t0 (vdual x).
Proof.
  intros _. unfold vdual, line. cbn [dv dd]. destruct (str_eqb x xi).
  - exact (@is_derive_id R_AbsRing t0).
  - exact (@is_derive_const R_AbsRing R_NormedModule (rho0 x) t0).
Qed.

Theorem ddual_sound : forall e, sound t0 (ddual e).
Proof.
  induction e as [nodes bops uop vars IH] using deep_ind. rewrite ddual_unfold. apply Dc_un_sound.
  assert (Hn : Forall (sound t0) (map ndual nodes)).
  { apply Forall_forall. intros s Hs. apply in_map_iff in Hs. destruct Hs as (n & <- & Hn).
    destruct n as [e'|d|i x]; cbn [ndual]; [apply IH; exact Hn|apply cdual_sound|apply vdual_sound]. }
  unfold level_val. destruct (map ndual nodes) as [|x rest]; [apply cdual_sound|].
  inversion Hn as [|? ? Hx Hr]; subst.
  apply (pv_inv DcT (sound t0) (Dc_op_sound t0)); [exact Hx|].
  clear -Hr. revert rest Hr. induction (map to_fop bops) as [|o ops IHo]; intros rest Hr; [constructor|].
  destruct rest as [|y rest]; [constructor|]. inversion Hr; subst. cbn [combine]. constructor; [assumption|apply IHo; assumption].
Qed.

Lemma dv_apply_un us s t : dv (apply_un DcT us s) t = apply_un Rc us (dv s t).
Proof.
  induction us as [|u us IH]; [reflexivity|].
  change (apply_un DcT (u :: us) s) with (unf DcT u (apply_un DcT us s)). change (apply_un Rc (u :: us) (dv s t)) with (unf Rc u (apply_un Rc us (dv s t))).
  cbn [unf Dc Rc]. rewrite dv_udual, IH. reflexivity.
Qed.
Lemma dv_apply_op o a b t : dv (apply_op DcT o a b) t = apply_op Rc o (dv a t) (dv b t).
Proof. unfold apply_op. rewrite dv_apply_un. cbn [binf Dc Rc]. rewrite dv_bdual. reflexivity. Qed.

(* the value component is the real denotation along the line *)
Theorem ddual_dv : forall e t, dv (ddual e) t = ddenR (line t) e.
Proof.
  induction e as [nodes bops uop vars IH] using deep_ind. intros t. rewrite ddual_unfold, dden_unfold, dv_apply_un. f_equal.
  assert (Hn : Forall2 (fun s r => dv s t = r) (map ndual nodes) (map (nden Rc (nlook (line t))) nodes)).
  { clear -IH. induction nodes as [|n tl IHn]; [constructor|]. cbn [map]. constructor.
    - destruct n as [e'|d|i x]; cbn [ndual nden]; [apply IH; left; reflexivity|reflexivity|reflexivity].
    - apply IHn. intros e' H. apply IH. right. exact H. }
  unfold level_val. destruct Hn as [|x r xs rs Hx Hr]; [reflexivity|].
  apply (pv_rel DcT Rc (fun s r => dv s t = r)).
  - intros o a' a b' b Ha Hb. rewrite dv_apply_op, Ha, Hb. reflexivity.
  - exact Hx.
  - clear -Hr. revert xs rs Hr. induction (map to_fop bops) as [|o ops IHo]; intros xs rs Hr; [constructor|].
    destruct Hr as [|y r ys rs' Hy Hr]; [constructor|]. cbn [combine]. constructor; [split; [reflexivity|exact Hy]|apply IHo; exact Hr].
Qed.
End Denote.
