(* C09 — differentiation bookkeeping.  Property theorems only (about Model/Partial.v). *)
From Coq Require Import List Arith.
Import ListNotations.
From Exmex.Model Require Import Base EvalBinary Lexer Flat Deep Convert Calc Partial.
Open Scope nat_scope.

(* `_partial`: an index not smaller than the number of variables ANYWHERE in an index sequence is an error, for
   every expression, data type, table and mode, and it is detected before any differentiation step is executed
   (the result does not depend on partial_deepex at all); order zero only recompiles the expression.
   Missing: that the variable list of a derivative is that of its antiderivative and the equalities n-th = n single
   steps, iterated = sequential, mixed partials -- covered by the correspondence and its numeric oracle. *)
Theorem C09_index_checked_first_partial :
  forall (D : Type) (C : carrier D) (DC : dcarrier D) (tb : optable) (e : deepex D) (idxs : list nat) (mode : missing_mode),
  (exists i, In i idxs /\ length (dvars e) <= i) -> partial_iter_deep C DC tb e idxs mode = Err E_INDEX.
Proof.
  intros D C DC tb e idxs mode (i & Hin & Hi). unfold partial_iter_deep.
  destruct (forallb (fun j => Nat.ltb j (length (dvars e))) idxs) eqn:E; [|reflexivity].
  exfalso. rewrite forallb_forall in E. specialize (E i Hin). apply Nat.ltb_lt in E.
  apply (Nat.lt_irrefl i). eapply Nat.lt_le_trans; eassumption.
Qed.
Theorem C09_order_zero_partial :
  forall (D : Type) (C : carrier D) (DC : dcarrier D) (tb : optable) (e : deepex D) (mode : missing_mode),
  partial_iter_deep C DC tb e [] mode = dcompile C e.
Proof. reflexivity. Qed.

Print Assumptions C09_index_checked_first_partial.
