(* Proofs/ToDeep.v — flat -> deep (flat.rs flatex_to_deepex): the flat application order is replayed on deep nodes, every
   application building a two-node sub-expression; then one wrapper, reset_vars, compile.  For every flat expression
   with the schedule of prioritized_indices_flat whose operators are entries of the table, the result is
   index-consistent with the same variable list and has, at every assignment, the same value modulo R. *)
From Coq Require Import List Arith Lia Bool ZArith.
Import ListNotations.
From Exmex.Model Require Import Base EvalBinary Lexer Flat Deep Convert.
From Exmex.Spec Require Import RefSem.
From Exmex.Proofs Require Import Runs SliceTracker SortDesc EvalBinaryCorrect Pev PevFold FlVals FlatPev CompileCorrect Vars
  DeepSem DeepCompile DeepVars DeepSubs C11Main DeepParse ConvertMain.
Open Scope nat_scope.

Lemma down_run_stop b : forall n, down_run b n < n -> b (n - 1 - down_run b n) = false.
Proof.
  induction n as [|n IH]; intros H; [lia|]. cbn [down_run] in *. destruct (b n) eqn:E.
  - replace (S n - 1 - S (down_run b n)) with (n - 1 - down_run b n) by lia. apply IH. lia.
  - replace (S n - 1 - 0) with n by lia. exact E.
Qed.
Lemma up_run_stop b : forall f pos, up_run b pos f < f -> b (pos + up_run b pos f) = false.
Proof.
  induction f as [|f IH]; intros pos H; [lia|]. cbn [up_run] in *. destruct (b pos) eqn:E.
  - replace (pos + S (up_run b (S pos) f)) with (S pos + up_run b (S pos) f) by lia. apply IH. lia.
  - rewrite Nat.add_0_r. exact E.
Qed.

(* ---- the loop with a fallible operator follows the loop on values ---- *)
Section MonadicRun.
Context {A B : Type}.
Variable dummy : A.
Variable dflt : B.
Variable opm : nat -> A -> A -> res A.
Variable opf : nat -> B -> B -> B.
Variable Rel : A -> B -> Prop.
Variable P : nat -> Prop.         (* the operator indices the schedule contains *)
Hypothesis op_rel : forall idx a b v w, P idx -> Rel a v -> Rel b w -> exists c, opm idx a b = Ok c /\ Rel c (opf idx v w).

Definition live_rel (ign : list bool) (xs : list A) (vs : list B) : Prop :=
  length xs = length vs /\ length ign = length vs /\ nth 0 ign false = false /\
  forall j a v, nth j ign false = false -> nth_error xs j = Some a -> nth_error vs j = Some v -> Rel a v.

Lemma astep_m_sim idx xs vs ign vs' ign' : P idx -> live_rel ign xs vs ->
  astep dflt opf idx (vs, ign) = Some (vs', ign') ->
  exists xs', astep_m dummy opm idx (xs, ign) = Ok (xs', ign') /\ live_rel ign' xs' vs'.
Proof.
  intros HP (Hlx & Hli & H0 & Hrel) Hstep. unfold astep in Hstep. unfold astep_m.
  set (sl := get_previous ign idx) in *. set (sr := get_next_from ign (S idx) (length ign)) in *.
  destruct (Nat.ltb_spec idx sl) as [|Hsl]; [discriminate|].
  destruct (nth_error vs (idx - sl)) as [v|] eqn:Ev; [|discriminate].
  destruct (nth_error vs (idx + sr)) as [w|] eqn:Ew; [|discriminate].
  inversion Hstep; subst vs' ign'. clear Hstep.
  assert (Hi1 : idx - sl < length vs) by (apply nth_error_Some; congruence).
  assert (Hi2 : idx + sr < length vs) by (apply nth_error_Some; congruence).
  destruct (nth_error xs (idx - sl)) as [a|] eqn:Ea; [|apply nth_error_None in Ea; lia].
  destruct (nth_error xs (idx + sr)) as [b|] eqn:Eb; [|apply nth_error_None in Eb; lia].
  (* both operands are live *)
  assert (Hlive1 : nth (idx - sl) ign false = false).
  { unfold sl. rewrite get_previous_run. set (bf := fun j => nth j ign false).
    destruct (Nat.eq_dec (down_run bf (S idx)) (S idx)) as [E|Hne].
    - unfold sl in Hsl. rewrite get_previous_run in Hsl. fold bf in Hsl. lia.
    - pose proof (down_run_le bf (S idx)). pose proof (down_run_stop bf (S idx) ltac:(lia)) as Hs.
      replace (S idx - 1 - down_run bf (S idx)) with (idx - down_run bf (S idx)) in Hs by lia. exact Hs. }
  assert (Hlive2 : nth (idx + sr) ign false = false).
  { unfold sr in *. rewrite get_next_from_run in *. set (bf := fun j => nth j ign false) in *.
    pose proof (up_run_le bf (S idx) (length ign)).
    destruct (Nat.eq_dec (up_run bf (S idx) (length ign)) (length ign)) as [E|Hne]; [lia|].
    pose proof (up_run_stop bf (length ign) (S idx) ltac:(lia)) as Hs.
    replace (idx + S (up_run bf (S idx) (length ign))) with (S idx + up_run bf (S idx) (length ign)) by lia. exact Hs. }
  destruct (op_rel idx a b v w HP (Hrel _ _ _ Hlive1 Ea Ev) (Hrel _ _ _ Hlive2 Eb Ew)) as (c & Ec & Rc).
  rewrite Ec. cbn [bind]. eexists. split; [reflexivity|].
  assert (Hsr1 : 1 <= sr) by (unfold sr; rewrite get_next_from_run; lia).
  split; [rewrite !length_set_nth; exact Hlx|]. split; [rewrite !length_set_nth; exact Hli|]. split.
  - rewrite nth_set_nth by lia. destruct (Nat.eqb_spec 0 (idx + sr)); [lia|exact H0].
  - intros j a' v' Hj Ha' Hv'. rewrite nth_set_nth in Hj by lia.
    destruct (Nat.eqb_spec j (idx + sr)) as [->|Hne2]; [discriminate|].
    assert (Hjl : j < length vs).
    { assert (H : j < length (set_nth (idx - sl) (opf idx v w) (set_nth (idx + sr) dflt vs))) by (apply nth_error_Some; congruence).
      rewrite !length_set_nth in H. exact H. }
    rewrite (nth_error_nth' _ dummy) in Ha' by (rewrite !length_set_nth; lia).
    rewrite (nth_error_nth' _ dflt) in Hv' by (rewrite !length_set_nth; lia).
    rewrite nth_set_nth in Ha' by (rewrite length_set_nth; lia). rewrite nth_set_nth in Hv' by (rewrite length_set_nth; lia).
    destruct (Nat.eqb_spec j (idx - sl)) as [->|Hne1].
    + inversion Ha'; inversion Hv'; subst. exact Rc.
    + rewrite nth_set_nth in Ha' by lia. rewrite nth_set_nth in Hv' by lia. destruct (Nat.eqb_spec j (idx + sr)); [contradiction|].
      inversion Ha'; inversion Hv'; subst. apply (Hrel j); [exact Hj|apply nth_error_nth'; lia|apply nth_error_nth'; lia].
Qed.

Lemma arun_m_sim : forall sigma xs vs ign vs' ign', (forall i, In i sigma -> P i) -> live_rel ign xs vs ->
  arun dflt opf sigma (vs, ign) = Some (vs', ign') ->
  exists xs', arun_m dummy opm sigma (xs, ign) = Ok (xs', ign') /\ live_rel ign' xs' vs'.
Proof.
  induction sigma as [|i sigma IH]; intros xs vs ign vs' ign' HP Hrel Hrun.
  - cbn in *. inversion Hrun; subst. exists xs. split; [reflexivity|exact Hrel].
  - cbn [arun arun_m] in *. destruct (astep dflt opf i (vs, ign)) as [[vs1 ign1]|] eqn:Es; [|discriminate].
    destruct (astep_m_sim i xs vs ign vs1 ign1 (HP i (or_introl eq_refl)) Hrel Es) as (xs1 & E1 & Hrel1). rewrite E1. cbn [bind].
    exact (IH xs1 vs1 ign1 vs' ign' (fun j Hj => HP j (or_intror Hj)) Hrel1 Hrun).
Qed.
End MonadicRun.

Lemma index_of_nth_NoDup : forall (l : list str) i x k, NoDup l -> nth_error l i = Some x -> index_of x l k = Some (k + i).
Proof.
  induction l as [|y l IH]; intros i x k ND Hn; [destruct i; discriminate|]. inversion ND as [|? ? Hnin ND']; subst.
  destruct i; cbn in Hn.
  - inversion Hn; subst. cbn. rewrite str_eqb_refl. f_equal. lia.
  - cbn [index_of]. destruct (str_eqb x y) eqn:E.
    + apply str_eqb_eq in E. subst y. exfalso. apply Hnin. eapply nth_error_In; exact Hn.
    + rewrite (IH i x (S k) ND' Hn). f_equal. lia.
Qed.

Section ToDeep.
Context {D : Type}.
Variable C : carrier D.
Variable tb : optable.
Hypothesis Hwf_tb : wf_table tb = true.
Variable R : D -> D -> Prop.
Hypothesis R_refl : forall a, R a a.
Hypothesis R_sym : forall a b, R a b -> R b a.
Hypothesis R_trans : forall a b c, R a b -> R b c -> R a c.
Hypothesis R_bin : forall k a a' b b', R a a' -> R b b' -> R (binf C k a b) (binf C k a' b').
Hypothesis R_un : forall k a a', R a a' -> R (unf C k a) (unf C k a').
Hypothesis table_assoc : forall k, comm_of tb k = true -> forall a b c, R (binf C k (binf C k a b) c) (binf C k a (binf C k b c)).

Variable vals : list D.
Local Notation ddenV := (dden C (vlook C vals)).
Local Notation ndenV := (nden C (vlook C vals)).

Local Notation ops_of_table := (ops_of_table tb).

Lemma table_entry k spec bs : nth_error tb k = Some spec -> obin spec = Some bs ->
  prio_of tb k = prio bs /\ comm_of tb k = comm bs.
Proof. intros Hn Hb. unfold prio_of, comm_of. rewrite (nth_error_nth _ _ _ Hn), Hb. split; reflexivity. Qed.

Theorem to_deepex_ok (fx : flatex D) :
  flat_wf fx -> NoDup (fvars fx) -> in_range (map (fun _ => dflt C) (fvars fx)) (fnodes fx) -> ops_of_table (fops fx) ->
  length vals = length (fvars fx) ->
  exists e v w, to_deepex C tb true fx = Ok e /\ dindexed (flagged tb) (fvars fx) e /\
    eval_flat C fx vals = Ok v /\ eval_deep C e vals = Ok w /\ R w v.
Proof.
  destruct fx as [nodes ops prios names text]. unfold flat_wf. cbn [fnodes fops fprios fvars].
  intros [Hlen Hprios] ND Hrange Htab Hvl. subst prios.
  assert (Hrange' : in_range vals nodes).
  { intros n i Hn Hk. specialize (Hrange n i Hn Hk). rewrite map_length in Hrange. lia. }
  set (sigma := prioritized_indices_flat true ops nodes).
  destruct (sort_desc_spec (key true nodes ops) (length ops)) as (_ & NDs & Hiff). fold sigma in NDs, Hiff.
  (* the flat evaluation succeeds: the loop on values *)
  set (nums := map (nval C vals) nodes).
  assert (Hnl : length nums = S (length ops)) by (unfold nums; rewrite map_length; exact Hlen).
  assert (Hcart : eval_binary (dflt C) (op_at C ops) nums (length nums - 1) sigma = Ok (eval_tree D (op_at C ops) (EvalBinaryCorrect.vals_of D (dflt C) nums) (cart (length sigma) sigma 0))).
  { apply eval_binary_is_cart; [destruct nums; [discriminate|discriminate]|exact NDs|]. intros i. rewrite Hnl. replace (S (length ops) - 1) with (length ops) by lia. apply Hiff. }
  set (v := eval_tree D (op_at C ops) (EvalBinaryCorrect.vals_of D (dflt C) nums) (cart (length sigma) sigma 0)) in *.
  assert (Hrun : exists vs' ign', arun (dflt C) (op_at C ops) sigma (nums, repeat false (length nums)) = Some (v :: vs', ign')).
  { unfold eval_binary in Hcart. destruct (negb (forallb _ sigma)); [discriminate|].
    destruct (arun (dflt C) (op_at C ops) sigma (nums, repeat false (length nums))) as [[[|x vs'] ign']|]; try discriminate.
    inversion Hcart; subst. eexists _, _. reflexivity. }
  destruct Hrun as (vs' & ign' & Hrun).
  (* the table priorities *)
  assert (Hprio : exists ps, mapM (fun o => match nth_error tb (fidx o) with
                                           | None => Err E_UNKNOWNOP
                                           | Some spec => match obin spec with Some bs => Ok (prio bs) | None => Err E_NOBIN end
                                           end) ops = Ok ps /\ length ps = length ops /\
                             forall i o, nth_error ops i = Some o -> nth_error ps i = Some (prio_of tb (fidx o))).
  { clear - Htab. induction ops as [|o ops IH]; [exists []; repeat split; intros i o H; destruct i; discriminate|].
    destruct (Htab o (or_introl eq_refl)) as (spec & bs & Hn & Hb & _).
    destruct (IH (fun o' Ho' => Htab o' (or_intror Ho'))) as (ps & E & Hl & Hp).
    exists (prio bs :: ps). cbn [mapM]. rewrite Hn, Hb. cbn [bind]. rewrite E. cbn [bind]. split; [reflexivity|]. split; [cbn; lia|].
    intros i o' Hi. destruct i; cbn in *; [inversion Hi; subst; rewrite (proj1 (table_entry _ _ _ Hn Hb)); reflexivity|apply Hp; exact Hi]. }
  destruct Hprio as (ps & Eps & Hpl & Hps).
  (* the nodes *)
  set (nodeok' := nodeok tb names vals).
  assert (Hconv : exists dns, mapM (convert_node C names) nodes = Ok dns /\ length dns = length nodes /\
            Forall2 (fun dn n => nodeok' dn /\ R (ndenV dn) (nval C vals n)) dns nodes).
  { clear - Hrange' ND Hvl R_refl R_sym R_trans R_bin R_un table_assoc. induction nodes as [|n nodes IH]; [exists []; repeat split; constructor|].
    destruct (IH (fun m i Hm Hk => Hrange' m i (or_intror Hm) Hk)) as (dns & E & Hl & Hall).
    assert (Hbase : exists base, match nkind n with
                                 | FNum d => Ok (DNum d)
                                 | FVar i => match nth_error names i with Some x => Ok (DVar i x) | None => Panic 184 end
                                 end = Ok base /\ nodeok' base /\
                                 ndenV base = match nkind n with FNum d => d | FVar i => nth i vals (dflt C) end).
    { destruct (nkind n) as [d|i] eqn:Ek.
      - exists (DNum d). split; [reflexivity|]. split; [split; [exact I|intros y []]|reflexivity].
      - pose proof (Hrange' n i (or_introl eq_refl) Ek) as Hi. rewrite Hvl in Hi.
        destruct (nth_error names i) as [x|] eqn:En; [|apply nth_error_None in En; lia].
        exists (DVar i x). split; [reflexivity|]. split; [|reflexivity]. split.
        + cbn. unfold okvar. rewrite (index_of_nth_NoDup names i x 0 ND En). reflexivity.
        + intros y [<-|[]]. eapply nth_error_In; exact En. }
    destruct Hbase as (base & Eb & Hok & Hval).
    assert (Hn : exists dn, convert_node C names n = Ok dn /\ nodeok' dn /\ R (ndenV dn) (nval C vals n)).
    { unfold convert_node. rewrite Eb. cbn [bind]. destruct (nun n) as [|u us] eqn:Eu.
      - exists base. split; [reflexivity|]. split; [exact Hok|]. unfold nval. rewrite Eu, Hval. apply R_refl.
      - destruct (new_deepex_ok C tb R R_refl R_sym R_trans R_bin R_un table_assoc names vals Hvl [base] [] (u :: us) eq_refl
                    ltac:(constructor; [exact Hok|constructor]) ltac:(intros ? [])) as (e & Ee & Hwe & Hr & _).
        rewrite Ee. cbn [bind]. exists (DExpr e). split; [reflexivity|]. split.
        + split; [exact Hwe|]. cbn [node_var_names]. destruct e as [ns bs us' vs]. rewrite dwf_unfold in Hwe. destruct Hwe as (_ & [_ Hincl] & _). exact Hincl.
        + cbn [nden]. eapply R_trans; [exact Hr|]. cbn [map level_val combine]. rewrite pv_nil. unfold nval. rewrite Eu, Hval. apply R_refl. }
    destruct Hn as (dn & En & Hokn & Hvn). exists (dn :: dns). cbn [mapM]. rewrite En. cbn [bind]. rewrite E. cbn [bind].
    split; [reflexivity|]. split; [cbn; lia|]. constructor; [split; assumption|exact Hall]. }
  destruct Hconv as (dns & Edns & Hdl & Hdall).
  (* the replay *)
  set (Rel := fun (dn : dnode D) (x : D) => nodeok' dn /\ R (ndenV dn) x).
  set (opm := fun (idx : nat) (a b : dnode D) =>
      match nth_error ops idx, nth_error ps idx with
      | Some o, Some p => do e <- new_deepex C [a; b] [{| bprio := p; bidx := fidx o; bcomm := fcomm o |}] (fun_ o); Ok (DExpr e)
      | _, _ => Panic 243
      end).
  assert (Hop : forall idx, In idx sigma -> forall a b x y, Rel a x -> Rel b y -> exists c, opm idx a b = Ok c /\ Rel c (op_at C ops idx x y)).
  { intros idx Hidx a b x y [Hoa Hra] [Hob Hrb]. apply Hiff in Hidx.
    destruct (nth_error ops idx) as [o|] eqn:Eo; [|apply nth_error_None in Eo; lia].
    unfold opm, op_at. rewrite Eo, (Hps idx o Eo).
    destruct (Htab o (nth_error_In _ _ Eo)) as (spec & bs & Hn & Hb & Hc).
    destruct (table_entry _ _ _ Hn Hb) as [Hp Hcm].
    set (bo := {| bprio := prio_of tb (fidx o); bidx := fidx o; bcomm := fcomm o |}).
    assert (Hbo : flagged tb bo).
    { exists spec, bs. cbn. repeat split; try assumption. }
    destruct (new_deepex_ok C tb R R_refl R_sym R_trans R_bin R_un table_assoc names vals Hvl [a; b] [bo] (fun_ o) eq_refl
                ltac:(constructor; [exact Hoa|constructor; [exact Hob|constructor]]) ltac:(intros ? [<-|[]]; exact Hbo)) as (e & Ee & Hwe & Hr & _).
    rewrite Ee. cbn [bind]. exists (DExpr e). split; [reflexivity|]. split.
    - split; [exact Hwe|]. cbn [node_var_names]. destruct e as [ns bs' us' vs]. rewrite dwf_unfold in Hwe. destruct Hwe as (_ & [_ Hincl] & _). exact Hincl.
    - cbn [nden]. eapply R_trans; [exact Hr|]. cbn [map level_val combine].
      change [(to_fop bo, ndenV b)] with ([] ++ (to_fop bo, ndenV b) :: []).
      rewrite (pv_at_root C (ndenV a) [] (to_fop bo) (ndenV b) []) by (intros ? ? []). rewrite !pv_nil.
      unfold apply_op. cbn [to_fop bo fun_ fidx apply_un fold_right]. apply (R_apply_un' C R R_un). apply R_bin; assumption. }
  assert (Hinit : live_rel Rel (repeat false (length nums)) dns nums).
  { split; [unfold nums; rewrite map_length; exact Hdl|]. split; [apply repeat_length|]. split; [apply repeat_false_nth|].
    intros j a x _ Ha Hx. unfold nums in Hx. rewrite nth_error_map in Hx. destruct (nth_error nodes j) as [n|] eqn:En; [|discriminate].
    cbn in Hx. inversion Hx; subst x. clear - Hdall Ha En. revert j Ha En. induction Hdall as [|dn m dns' ms Hh _ IH]; intros j Ha En; [destruct j; discriminate|].
    destruct j; cbn in *; [inversion Ha; inversion En; subst; exact Hh|exact (IH j Ha En)]. }
  destruct (arun_m_sim (dummy_node (D:=D)) (dflt C) opm (op_at C ops) Rel (fun i => In i sigma) (fun idx a b x y HP => Hop idx HP a b x y) sigma dns nums _ _ _ (fun i H => H) Hinit Hrun)
    as (xs' & Erun & (Hxl & _ & H0' & Hrel')).
  destruct xs' as [|final xt]; [cbn in Hxl; lia|].
  destruct (Hrel' 0 final v H0' eq_refl eq_refl) as [Hokf Hrf].
  (* the wrapper, reset_vars, compile *)
  destruct (new_deepex_ok C tb R R_refl R_sym R_trans R_bin R_un table_assoc names vals Hvl [final] [] [] eq_refl
              ltac:(constructor; [exact Hokf|constructor]) ltac:(intros ? [])) as (e1 & Ee1 & Hwe1 & Hr1 & _).
  assert (Hcl1 : dclosed (flagged tb) names e1).
  { revert Hwe1. apply dwf_weaken; [intros i x Hx; exact (index_of_In x names 0 i Hx)|intros; exact I]. }
  destruct (reset_vars_ok C (flagged tb) names e1 Hcl1) as (e2 & Ee2 & Hc2 & Hd2).
  destruct (dcompile_ok C R R_refl R_sym R_trans R_bin R_un (flagged tb) (flagged_op_assoc C tb R table_assoc) (vlook C vals) (indexed names) (is_list names) e2 Hc2)
    as (e & Ee & Hce & Hre).
  pose proof (dconsistent_indexed (flagged tb) names e Hce) as Hie.
  destruct (eval_consistent C R R_refl R_sym R_trans R_bin R_un (flagged tb) (flagged_op_assoc C tb R table_assoc) names vals e Hie Hvl) as (w & Ew & Rw).
  exists e, v, w. split; [|split; [exact Hie|split; [|split; [exact Ew|]]]].
  - unfold to_deepex. cbn [fops fnodes fvars fprios]. rewrite Eps. cbn [bind]. rewrite Edns. cbn [bind].
    fold sigma. unfold nums in Erun. rewrite map_length in Erun. rewrite Hdl.
    change (fun (idx : nat) (a b : dnode D) =>
              match nth_error ops idx, nth_error ps idx with
              | Some o, Some p => do e0 <- new_deepex C [a; b] [{| bprio := p; bidx := fidx o; bcomm := fcomm o |}] (fun_ o); Ok (DExpr e0)
              | _, _ => Panic 243
              end) with opm.
    rewrite Erun. cbn [bind]. rewrite Ee1. cbn [bind]. rewrite Ee2. cbn [bind]. exact Ee.
  - unfold eval_flat. cbn [fvars]. rewrite Hvl, Nat.eqb_refl. cbn [negb]. unfold eval_cloning. cbn [fnodes fops fprios].
    rewrite (mapM_node_val_range C vals _ Hrange'). cbn [bind]. fold nums. unfold eval_numbers. fold sigma.
    replace (length ops) with (length nums - 1) by lia. exact Hcart.
  - eapply R_trans; [exact Rw|]. rewrite (named_is_positional C (flagged tb) names vals (is_list names) e Hce).
    eapply R_trans; [exact Hre|].
    rewrite <- (named_is_positional C (flagged tb) names vals (is_list names) e2 Hc2), Hd2.
    rewrite (named_is_positional C (flagged tb) names vals (okvars names vals) e1 Hwe1).
    eapply R_trans; [exact Hr1|]. cbn [map level_val combine apply_un fold_right]. rewrite pv_nil. exact Hrf.
Qed.
End ToDeep.
