(* Proofs/Runs.v — runs of consecutive true values of a bit function, downwards and upwards; splitting a run at a
   block boundary; the abstract tracker operations of Model/EvalBinary.v as runs. *)
From Coq Require Import List Arith Lia Bool.
Import ListNotations.
From Exmex.Model Require Import Base EvalBinary.

(* consecutive true at n-1, n-2, ..., 0 *)
Fixpoint down_run (b : nat -> bool) (n : nat) : nat :=
  match n with O => O | S m => if b m then S (down_run b m) else O end.
(* consecutive true at pos, pos+1, ..., at most fuel many *)
Fixpoint up_run (b : nat -> bool) (pos fuel : nat) : nat :=
  match fuel with O => O | S f => if b pos then S (up_run b (S pos) f) else O end.

Lemma down_run_le b n : down_run b n <= n.
Proof. induction n as [|n IH]; cbn; [lia|]. destruct (b n); lia. Qed.
Lemma up_run_le b pos f : up_run b pos f <= f.
Proof. revert pos. induction f as [|f IH]; intros pos; cbn; [lia|]. destruct (b pos); [specialize (IH (S pos))|]; lia. Qed.

Lemma down_run_ext b b' n : (forall j, j < n -> b j = b' j) -> down_run b n = down_run b' n.
Proof. induction n as [|n IH]; intros H; cbn; [reflexivity|]. rewrite (H n) by lia. rewrite IH by (intros; apply H; lia). reflexivity. Qed.
Lemma up_run_ext b b' : forall f pos, (forall j, pos <= j < pos + f -> b j = b' j) -> up_run b pos f = up_run b' pos f.
Proof.
  induction f as [|f IH]; intros pos H; cbn; [reflexivity|]. rewrite (H pos) by lia. rewrite (IH (S pos)) by (intros; apply H; lia). reflexivity.
Qed.

(* splitting at a block boundary: the upper k positions first *)
Lemma down_run_split b m k :
  down_run b (m + k) = if Nat.eqb (down_run (fun j => b (m + j)) k) k then k + down_run b m else down_run (fun j => b (m + j)) k.
Proof.
  induction k as [|k IH]; [rewrite Nat.add_0_r; reflexivity|].
  replace (m + S k) with (S (m + k)) by lia. cbn [down_run]. destruct (b (m + k)) eqn:E.
  - rewrite IH. pose proof (down_run_le (fun j => b (m + j)) k).
    destruct (Nat.eqb_spec (down_run (fun j => b (m + j)) k) k) as [E1|E1].
    + rewrite E1. rewrite Nat.eqb_refl. lia.
    + destruct (Nat.eqb_spec (S (down_run (fun j => b (m + j)) k)) (S k)); [lia|reflexivity].
  - reflexivity.
Qed.
Lemma up_run_split b : forall k pos f,
  up_run b pos (k + f) = if Nat.eqb (up_run b pos k) k then k + up_run b (pos + k) f else up_run b pos k.
Proof.
  induction k as [|k IH]; intros pos f; [rewrite Nat.add_0_r; reflexivity|].
  cbn [Nat.add up_run]. destruct (b pos) eqn:E; [|reflexivity].
  rewrite IH. pose proof (up_run_le b (S pos) k).
  destruct (Nat.eqb_spec (up_run b (S pos) k) k) as [E1|E1].
  - rewrite E1, Nat.eqb_refl. replace (S pos + k) with (pos + S k) by lia. lia.
  - destruct (Nat.eqb_spec (S (up_run b (S pos) k)) (S k)); [lia|reflexivity].
Qed.

(* more fuel changes nothing once the function is false from L on *)
Lemma up_run_fuel b L : (forall j, L <= j -> b j = false) ->
  forall f pos, pos <= L -> L - pos <= f -> up_run b pos f = up_run b pos (L - pos).
Proof.
  intros HL. induction f as [|f IH]; intros pos Hp Hf.
  - replace (L - pos) with 0 by lia. reflexivity.
  - destruct (Nat.eq_dec pos L) as [->|Hne].
    + rewrite Nat.sub_diag. cbn. rewrite (HL L (le_n _)). reflexivity.
    + replace (L - pos) with (S (L - S pos)) by lia. cbn [up_run]. destruct (b pos); [|reflexivity].
      rewrite (IH (S pos)) by lia. reflexivity.
Qed.

(* the abstract tracker operations *)
Lemma get_previous_run ign idx : get_previous ign idx = down_run (fun j => nth j ign false) (S idx).
Proof.
  induction idx as [|m IH]; [cbn; destruct (nth 0 ign false); reflexivity|].
  cbn [get_previous]. rewrite IH. cbn [down_run]. reflexivity.
Qed.
Lemma get_next_from_run ign : forall fuel pos, get_next_from ign pos fuel = S (up_run (fun j => nth j ign false) pos fuel).
Proof.
  induction fuel as [|f IH]; intros pos; [reflexivity|]. cbn [get_next_from up_run].
  destruct (nth pos ign false); [rewrite IH; reflexivity|reflexivity].
Qed.
