(* C18 — derivatives of value-typed and piecewise expressions.  Property theorems only. *)
From Coq Require Import List Arith Bool.
Import ListNotations.
From Exmex.Model Require Import Base EvalBinary Lexer Flat Deep Convert Calc Partial ValOps.
From Exmex.Spec Require Import RefSem.
From Exmex.Proofs Require Import DeepSem DeepSubs C11Main DeepOps Piecewise.
From Exmex.Gen Require Import Tables.
Open Scope nat_scope.

(* `_partial` (structural half).  The comparison operators keep their value as "derivative" (conditions are left
   untouched), `else` is differentiated per operand (branch-wise) and `if` differentiates its left operand under the VALUE
   of its condition (after the repair of F14; before it the condition was replaced by its own "derivative", which for a
   condition that is a constant -- a variable-free comparison folded by the parser -- or a boolean variable is zero, so the
   derivative always took the else-branch); all of these names are operators of the value table as regenerated on this run.  The analytic half (the derivative evaluates to the derivative of the
   selected branch away from branch boundaries) is covered by the correspondence on the term algebra and the numeric
   branch-wise oracle. *)
Theorem C18_condition_and_branch_rules_partial :
  map find_rule [n_gt; n_lt; n_ge; n_le; n_eq; n_ne] = repeat (Some (Some BDerIsVal, None)) 6 /\
  map find_rule [n_if; n_else] = [Some (Some BCond, None); Some (Some BPerOperand, None)] /\
  forallb (fun name => existsb (fun o => str_eqb (repr o) name) val_table) [n_gt; n_lt; n_ge; n_le; n_eq; n_ne; n_if; n_else] = true.
Proof. vm_compute. repeat split; reflexivity. Qed.

(* what the two kinds of rule build *)
Theorem C18_rule_semantics_partial :
  forall (D : Type) (C : carrier D) (DC : dcarrier D) (tb : optable) (name : str) (f g : valder (D:=D)),
  apply_brule C DC tb BDerIsVal name f g =
    (do v <- operate_bin C tb (vd_val f) (vd_val g) name; do d <- operate_bin C tb (vd_val f) (vd_val g) name; Ok {| vd_val := v; vd_der := d |}) /\
  apply_brule C DC tb BPerOperand name f g =
    (do v <- operate_bin C tb (vd_val f) (vd_val g) name; do d <- operate_bin C tb (vd_der f) (vd_der g) name; Ok {| vd_val := v; vd_der := d |}) /\
  apply_brule C DC tb BCond name f g =
    (do v <- operate_bin C tb (vd_val f) (vd_val g) name; do d <- operate_bin C tb (vd_der f) (vd_val g) name; Ok {| vd_val := v; vd_der := d |}).
Proof. intros; repeat split; reflexivity. Qed.

(* the condition of the derivative is the condition of the value: whatever the condition is (a comparison, a constant,
   a boolean variable), the `if` of the derivative is applied to the same right operand as the `if` of the value *)
Theorem C18_derivative_keeps_the_condition :
  forall (D : Type) (C : carrier D) (DC : dcarrier D) (tb : optable) (f g r : valder (D:=D)),
  apply_brule C DC tb BCond n_if f g = Ok r ->
  operate_bin C tb (vd_val f) (vd_val g) n_if = Ok (vd_val r) /\ operate_bin C tb (vd_der f) (vd_val g) n_if = Ok (vd_der r).
Proof.
  intros D C DC tb f g r H. cbn [apply_brule] in H.
  destruct (operate_bin C tb (vd_val f) (vd_val g) n_if) as [v| |]; cbn [bind] in H; try discriminate.
  destruct (operate_bin C tb (vd_der f) (vd_val g) n_if) as [d| |]; cbn [bind] in H; try discriminate.
  inversion H; subst. split; reflexivity.
Qed.

(* Analytic half, branch selection (Proofs/Piecewise.v).  For every data type and table in which `if` and `else` are binary
   operators, and all value/derivative pairs f (then-branch), g (condition), h (else-branch) of closed deep expressions, the
   rules build for `(a if c) else b` a pair whose named denotation is
       value       else (if f.val g.val) h.val            derivative   else (if f.der g.val) h.der ;
   and in every data type whose `if` yields its left operand under a true condition and `none` under a false one and whose
   `else` yields its right operand exactly for `none`, the derivative of the piecewise expression denotes the derivative of
   the then-branch at every environment where the condition holds and the derivative of the else-branch where it does not.
   The value type is such a data type (C18_value_type_branches, on the model of the value operators that C16 ties to the
   implementation).  Not in the theorems: that f.der / h.der denote the derivatives of the branches for the value type
   (arithmetic and elementary functions "exactly as for floats": the float statement is C05; the promotion rules of the value
   type are covered by mode c18v). *)
Theorem C18_piecewise_pair :
  forall (D : Type) (C : carrier D) (DC : dcarrier D) (tb : optable) (R : D -> D -> Prop),
  (forall a, R a a) -> (forall a b, R a b -> R b a) -> (forall a b c, R a b -> R b c -> R a c) ->
  (forall k a a' b b', R a a' -> R b b' -> R (binf C k a b) (binf C k a' b')) ->
  (forall k a a', R a a' -> R (unf C k a) (unf C k a')) ->
  (forall k, comm_of tb k = true -> forall a b c, R (binf C k (binf C k a b) c) (binf C k a (binf C k b c))) ->
  forall kif kelse : nat,
  find_op n_if tb 0 = Some kif -> is_bin tb kif = true -> find_op n_else tb 0 = Some kelse -> is_bin tb kelse = true ->
  forall f g h : valder (D:=D),
  dclosed (tflagged tb) (dvars (vd_val f)) (vd_val f) -> dclosed (tflagged tb) (dvars (vd_der f)) (vd_der f) ->
  dclosed (tflagged tb) (dvars (vd_val g)) (vd_val g) ->
  dclosed (tflagged tb) (dvars (vd_val h)) (vd_val h) -> dclosed (tflagged tb) (dvars (vd_der h)) (vd_der h) ->
  exists r1 r2,
    apply_brule C DC tb BCond n_if f g = Ok r1 /\ apply_brule C DC tb BPerOperand n_else r1 h = Ok r2 /\
    dclosed (tflagged tb) (dvars (vd_val r2)) (vd_val r2) /\ dclosed (tflagged tb) (dvars (vd_der r2)) (vd_der r2) /\
    forall rho,
      R (dden C (nlook rho) (vd_val r2)) (binf C kelse (binf C kif (dden C (nlook rho) (vd_val f)) (dden C (nlook rho) (vd_val g))) (dden C (nlook rho) (vd_val h))) /\
      R (dden C (nlook rho) (vd_der r2)) (binf C kelse (binf C kif (dden C (nlook rho) (vd_der f)) (dden C (nlook rho) (vd_val g))) (dden C (nlook rho) (vd_der h))).
Proof. exact @piecewise_pair. Qed.

Theorem C18_piecewise_derivative_is_branchwise :
  forall (D : Type) (C : carrier D) (DC : dcarrier D) (tb : optable) (R : D -> D -> Prop),
  (forall a, R a a) -> (forall a b, R a b -> R b a) -> (forall a b c, R a b -> R b c -> R a c) ->
  (forall k a a' b b', R a a' -> R b b' -> R (binf C k a b) (binf C k a' b')) ->
  (forall k a a', R a a' -> R (unf C k a) (unf C k a')) ->
  (forall k, comm_of tb k = true -> forall a b c, R (binf C k (binf C k a b) c) (binf C k a (binf C k b c))) ->
  forall kif kelse : nat,
  find_op n_if tb 0 = Some kif -> is_bin tb kif = true -> find_op n_else tb 0 = Some kelse -> is_bin tb kelse = true ->
  forall (none : D) (istrue isfalse : D -> Prop),
  (forall v c, istrue c -> binf C kif v c = v) -> (forall v c, isfalse c -> binf C kif v c = none) ->
  (forall v, binf C kelse none v = v) -> (forall x v, x <> none -> binf C kelse x v = x) ->
  forall f g h : valder (D:=D),
  dclosed (tflagged tb) (dvars (vd_val f)) (vd_val f) -> dclosed (tflagged tb) (dvars (vd_der f)) (vd_der f) ->
  dclosed (tflagged tb) (dvars (vd_val g)) (vd_val g) ->
  dclosed (tflagged tb) (dvars (vd_val h)) (vd_val h) -> dclosed (tflagged tb) (dvars (vd_der h)) (vd_der h) ->
  exists r1 r2,
    apply_brule C DC tb BCond n_if f g = Ok r1 /\ apply_brule C DC tb BPerOperand n_else r1 h = Ok r2 /\
    forall rho,
      (istrue (dden C (nlook rho) (vd_val g)) ->
         (dden C (nlook rho) (vd_val f) <> none -> R (dden C (nlook rho) (vd_val r2)) (dden C (nlook rho) (vd_val f))) /\
         (dden C (nlook rho) (vd_der f) <> none -> R (dden C (nlook rho) (vd_der r2)) (dden C (nlook rho) (vd_der f)))) /\
      (isfalse (dden C (nlook rho) (vd_val g)) ->
         R (dden C (nlook rho) (vd_val r2)) (dden C (nlook rho) (vd_val h)) /\ R (dden C (nlook rho) (vd_der r2)) (dden C (nlook rho) (vd_der h))).
Proof. exact @piecewise_derivative_is_branchwise. Qed.

(* the value type branches that way: `if` and `else` of the model of the value operators *)
Theorem C18_value_type_branches :
  (forall v c, to_bool c = Some (Some true) -> v_if v c = v) /\
  (forall v c, to_bool c = Some (Some false) -> v_if v c = VNone) /\
  (forall v, v_else VNone v = v) /\ (forall x v, x <> VNone -> v_else x v = x).
Proof.
  repeat split.
  - intros v c H. unfold v_if. rewrite H. reflexivity.
  - intros v c H. unfold v_if. rewrite H. reflexivity.
  - intros x v Hx. destruct x; try reflexivity. exfalso; apply Hx; reflexivity.
Qed.

(* F14, the rule before the repair: the condition replaced by its own derivative.  A condition without the variable (the
   constant `true`, a folded comparison) has the derivative 0, and `a' if 0 else b'` is b' although the condition holds. *)
Theorem C18_differentiated_condition_refuted :
  exists c c' a' b' : val, to_bool c = Some (Some true) /\ a' <> VNone /\ v_else (v_if a' c) b' = a' /\ v_else (v_if a' c') b' = b' /\ a' <> b'.
Proof. exists (VBool true), (VInt 0), (VInt 1), (VInt 2). repeat split; try reflexivity; discriminate. Qed.

Print Assumptions C18_condition_and_branch_rules_partial.
Print Assumptions C18_derivative_keeps_the_condition.
Print Assumptions C18_piecewise_pair.
Print Assumptions C18_piecewise_derivative_is_branchwise.
Print Assumptions C18_value_type_branches.
Print Assumptions C18_differentiated_condition_refuted.
