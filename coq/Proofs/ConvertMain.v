(* Proofs/ConvertMain.v — from_deepex: the flat expression of a well-formed deep expression has the same variables and,
   at every assignment, the same value modulo R. *)
From Coq Require Import List Arith Lia Bool ZArith.
Import ListNotations.
From Exmex.Model Require Import Base EvalBinary Lexer Flat Deep Convert.
From Exmex.Spec Require Import RefSem.
From Exmex.Proofs Require Import Pev PevFold FlStruct FlSem FlVals FlatPev CompileCorrect DeepSem DeepSubs DeepParse FlattenSem.
Open Scope nat_scope.

Section Unparse.
Context {D : Type}.
Variable C : carrier D.
Variable tb : optable.
Definition node_str (n : dnode D) : option str :=
  match n with
  | DNum d => Some (show C d)
  | DVar _ x => Some (LBRACE :: x ++ [RBRACE])
  | DExpr e' => match unparse C tb e' with
                | Some s => Some (match duop e' with [] => LPAR :: s ++ [RPAR] | _ => s end)
                | None => None
                end
  end.
Fixpoint ugo (l : list (dnode D)) (ops : list dbop) (acc : str) : option str :=
  match l with
  | [] => Some acc
  | n :: tl => match ops, node_str n with
               | o :: otl, Some s => ugo tl otl (acc ++ repr_of tb (bidx o) ++ s)
               | _, _ => None
               end
  end.
Lemma unparse_unfold nodes bops uop vars :
  unparse C tb (DE nodes bops uop vars) =
  match nodes with
  | [] => None
  | n0 :: ntl =>
      match node_str n0 with
      | None => None
      | Some s0 =>
          match ugo ntl bops s0 with
          | None => None
          | Some body => Some (match uop with
                               | [] => body
                               | _ => flat_map (fun k => repr_of tb k ++ [LPAR]) uop ++ body ++ repeat RPAR (length uop)
                               end)
          end
      end
  end.
Proof.
  destruct nodes as [|n0 ntl]; [reflexivity|]. cbn [unparse].
  change (match n0 with
          | DExpr e' => match unparse C tb e' with
                        | Some s => Some match duop e' with [] => LPAR :: s ++ [RPAR] | _ :: _ => s end
                        | None => None end
          | DNum d => Some (show C d)
          | DVar _ x => Some (LBRACE :: x ++ [RBRACE]) end) with (node_str n0).
  destruct (node_str n0) as [s0|]; [|reflexivity].
  match goal with |- match ?F ntl bops s0 with _ => _ end = _ => assert (E : forall l ops acc, F l ops acc = ugo l ops acc) end.
  { induction l as [|n tl IH]; intros ops acc; [reflexivity|]. cbn [ugo]. destruct ops as [|o otl]; [reflexivity|].
    change (match n with
            | DExpr e' => match unparse C tb e' with
                          | Some s => Some match duop e' with [] => LPAR :: s ++ [RPAR] | _ :: _ => s end
                          | None => None end
            | DNum d => Some (show C d)
            | DVar _ x => Some (LBRACE :: x ++ [RBRACE]) end) with (node_str n).
    destruct (node_str n); [apply IH|reflexivity]. }
  rewrite E. reflexivity.
Qed.

Variable okop : dbop -> Prop.
Variable okvar : nat -> str -> Prop.
Variable okvars : list str -> Prop.
Lemma unparse_some : forall e, dwf okop okvar okvars e -> exists s, unparse C tb e = Some s.
Proof.
  induction e as [nodes bops uop vars IH] using deep_ind. intros Hwf.
  rewrite dwf_unfold in Hwf. destruct Hwf as (Hlen & _ & _ & Hn).
  assert (Hstr : forall n, In n nodes -> exists s, node_str n = Some s).
  { intros n Hin. rewrite Forall_forall in Hn. specialize (Hn n Hin). destruct n as [e'|d|i x]; cbn [node_str nwf] in *.
    - destruct (IH e' Hin Hn) as [s ->]. eexists. reflexivity.
    - eexists. reflexivity.
    - eexists. reflexivity. }
  rewrite unparse_unfold. destruct nodes as [|n0 ntl]; [discriminate|]. cbn [length] in Hlen.
  destruct (Hstr n0 (or_introl eq_refl)) as [s0 ->].
  assert (Hgo : forall l ops acc, length l <= length ops -> (forall n, In n l -> exists s, node_str n = Some s) -> exists r, ugo l ops acc = Some r).
  { induction l as [|n tl IHl]; intros ops acc Hl Hs; [eexists; reflexivity|]. cbn [ugo].
    destruct ops as [|o otl]; [cbn in Hl; lia|]. destruct (Hs n (or_introl eq_refl)) as [s ->].
    apply IHl; [cbn in Hl; lia|]. intros m Hm. apply Hs. right. exact Hm. }
  destruct (Hgo ntl bops s0 ltac:(lia) (fun n Hn' => Hstr n (or_intror Hn'))) as [r ->]. eexists. reflexivity.
Qed.
End Unparse.

Section FromDeep.
Context {D : Type}.
Variable C : carrier D.
Variable tb : optable.
Hypothesis Hwf_tb : RefSem.wf_table tb = true.
Variable R : D -> D -> Prop.
Hypothesis R_refl : forall a, R a a.
Hypothesis R_sym : forall a b, R a b -> R b a.
Hypothesis R_trans : forall a b c, R a b -> R b c -> R a c.
Hypothesis R_bin : forall k a a' b b', R a a' -> R b b' -> R (binf C k a b) (binf C k a' b').
Hypothesis R_un : forall k a a', R a a' -> R (unf C k a) (unf C k a').
Hypothesis table_assoc : forall k, RefSem.comm_of tb k = true -> forall a b c, R (binf C k (binf C k a b) c) (binf C k a (binf C k b c)).
Variable vals : list D.
Variable okvars : list str -> Prop.
Hypothesis okvars_len : forall v, okvars v -> length v <= length vals.
Local Notation dwf := (dwf (from_table tb) (okvar_lt vals) okvars).

(* the operators of a flat expression are binary entries of the table and carry their flags *)
Definition table_entry_flag (k : nat) (c : bool) : Prop :=
  exists spec bs, nth_error tb k = Some spec /\ obin spec = Some bs /\ c = comm bs.
Definition ops_of_table (ops : list fop) : Prop := forall o, In o ops -> table_entry_flag (fidx o) (fcomm o).

Theorem from_deepex_ok (e : deepex D) : dwf e -> length (dvars e) = length vals ->
  exists fx v w, from_deepex C tb true e = Ok fx /\ flat_wf fx /\ fvars fx = dvars e /\
    ops_of_table (fops fx) /\ in_range vals (fnodes fx) /\
    eval_flat C fx vals = Ok v /\ eval_deep C e vals = Ok w /\ R v w.
Proof.
  intros Hwf Hlen.
  assert (Hwf2 : DeepSem.dwf (okop_q (RefSem.comm_of tb) table_entry_flag) (okvar_lt vals) okvars e).
  { revert Hwf. apply dwf_weaken_op.
    intros o Ho. split; [exact (DeepParse.flagged_table_op tb Hwf_tb o Ho)|].
    destruct Ho as (spec & bs & Hn & Hb & Hc & _). exists spec, bs. auto. }
  destruct (flatten_sem C vals (RefSem.comm_of tb) table_entry_flag okvars e 0%Z Hwf2) as ([ns os] & Efl & [Hs Hl Hf Hq Hr Hv]).
  destruct (unparse_some C tb _ _ _ e Hwf) as [text Et].
  unfold from_deepex. rewrite Efl. cbn [bind]. rewrite Et.
  eexists.
  destruct (eval_deep_is_dden C R R_refl R_sym R_trans R_bin R_un (from_table tb) (DeepParse.flagged_op_assoc C tb R table_assoc) (vlook C vals) (okvar_lt vals) okvars vals okvars_len
              (fun i x H => conj H eq_refl) e Hwf) as (w & Ew & Rw).
  unfold shape in Hs. cbn [fst snd] in *. destruct ns as [|n0 nt]; [cbn in Hs; lia|].
  destruct (eval_numbers_is_pev C R R_refl R_sym R_trans R_bin R_un vals n0 nt os ltac:(cbn in Hs; lia)) as (v & Ev & Rv).
  { intros o Ho Hc. apply table_assoc. apply Hf; assumption. }
  exists v, w. split; [reflexivity|]. split; [split; [exact Hs|reflexivity]|]. split; [reflexivity|]. split; [exact Hq|]. split; [exact Hr|]. split; [|split].
  - unfold eval_flat. cbn [fvars]. rewrite Hlen, Nat.eqb_refl. cbn [negb]. unfold eval_cloning. cbn [fnodes fops fprios].
    rewrite (mapM_node_val_range C vals _ Hr). cbn [bind]. exact Ev.
  - unfold eval_deep. rewrite Hlen, Nat.eqb_refl. exact Ew.
  - eapply R_trans; [exact Rv|]. unfold vals_of in Hv. cbn [fst snd] in Hv. rewrite Hv. apply R_sym. exact Rw.
Qed.
End FromDeep.
