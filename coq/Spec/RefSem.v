(* Spec/RefSem.v — the reference semantics of well-formed expressions, written from the documentation:
   parentheses first, unary operators bind tighter than any binary operator and compose right to left,
   binary operators in descending priority and left to right among equal priorities.
   Surface trees are the domain of "all well-formed expressions"; `flatten` is their token rendering. *)
From Exmex.Model Require Import Base.
Open Scope nat_scope.

Section RefSem.
Context {D : Type}.
Variable C : carrier D.
Variable tb : optable.

Inductive leaf := LNum (d : D) | LVar (x : str).
(* an atom: a literal/constant/variable or a parenthesised chain, with the unary operators written in front of it
   in text order (`- sin cos x`, `sin(c)`, `(c)`);  a chain: atom (binop atom)*  *)
Inductive atom :=
| ALeaf (us : list nat) (k : leaf)
| AGroup (us : list nat) (first : atom) (rest : list (nat * atom)).
Definition chain := (atom * list (nat * atom))%type.

(* ---- token rendering ---- *)
Fixpoint flatten_atom (a : atom) : list (token D) :=
  match a with
  | ALeaf us (LNum d) => map TOp us ++ [TNum d]
  | ALeaf us (LVar x) => map TOp us ++ [TVar x]
  | AGroup us a0 rest =>
      map TOp us ++ TOpen :: flatten_atom a0 ++
      (fix go (l : list (nat * atom)) : list (token D) :=
         match l with [] => [] | (o, b) :: tl => TOp o :: flatten_atom b ++ go tl end) rest ++ [TClose]
  end.
Fixpoint flatten_rest (l : list (nat * atom)) : list (token D) :=
  match l with [] => [] | (o, b) :: tl => TOp o :: flatten_atom b ++ flatten_rest tl end.
Definition flatten (c : chain) : list (token D) := flatten_atom (fst c) ++ flatten_rest (snd c).

(* ---- priorities ---- *)
Definition prio_of (o : nat) : Z :=
  match obin (nth o tb {| repr := []; obin := None; ounary := false; oconst := false |}) with Some b => prio b | None => 0%Z end.
Definition comm_of (o : nat) : bool :=
  match obin (nth o tb {| repr := []; obin := None; ounary := false; oconst := false |}) with Some b => comm b | None => false end.

(* position of the operator applied LAST in a chain of operators: lowest priority, the rightmost among equals *)
Fixpoint last_applied (l : list nat) (pos : nat) (best : nat) (bestp : Z) : nat :=
  match l with
  | [] => best
  | o :: tl => if (prio_of o <=? bestp)%Z then last_applied tl (S pos) pos (prio_of o) else last_applied tl (S pos) best bestp
  end.
Definition root_pos (ops : list nat) : nat :=
  match ops with [] => 0 | o :: tl => last_applied tl 1 0 (prio_of o) end.

(* ---- evaluation of a chain of values: split at the operator applied last ---- *)
Fixpoint prec (fuel : nat) (x : D) (l : list (nat * D)) : D :=
  match fuel with
  | O => x
  | S f =>
      match l with
      | [] => x
      | _ =>
          let r := root_pos (map fst l) in
          match nth_error l r with
          | Some (o, y) => binf C o (prec f x (firstn r l)) (prec f y (skipn (S r) l))
          | None => x
          end
      end
  end.

Definition apply_unary (us : list nat) (x : D) : D := fold_right (fun k acc => unf C k acc) x us.

Section WithVars.
Variable vars : list str.      (* the sorted variable names *)
Variable vals : list D.        (* their values *)
(* position of a name in the variable list (every variable of a tree is in the list of the tree) *)
Definition var_pos (x : str) : nat := match index_of x vars 0 with Some i => i | None => 0 end.
Definition leaf_val (k : leaf) : D :=
  match k with
  | LNum d => d
  | LVar x => nth (var_pos x) vals (dflt C)
  end.
Fixpoint ref_atom (a : atom) : D :=
  match a with
  | ALeaf us k => apply_unary us (leaf_val k)
  | AGroup us a0 rest =>
      apply_unary us
        (prec (length rest) (ref_atom a0)
              ((fix go (l : list (nat * atom)) : list (nat * D) :=
                  match l with [] => [] | (o, b) :: tl => (o, ref_atom b) :: go tl end) rest))
  end.
Fixpoint ref_rest (l : list (nat * atom)) : list (nat * D) :=
  match l with [] => [] | (o, b) :: tl => (o, ref_atom b) :: ref_rest tl end.
Definition ref_chain (c : chain) : D := prec (length (snd c)) (ref_atom (fst c)) (ref_rest (snd c)).
End WithVars.

(* ---- variables of a tree ---- *)
Fixpoint atom_vars (a : atom) : list str :=
  match a with
  | ALeaf _ (LVar x) => [x]
  | ALeaf _ (LNum _) => []
  | AGroup _ a0 rest =>
      atom_vars a0 ++ (fix go (l : list (nat * atom)) : list str := match l with [] => [] | (_, b) :: tl => atom_vars b ++ go tl end) rest
  end.
Fixpoint rest_vars (l : list (nat * atom)) : list str :=
  match l with [] => [] | (_, b) :: tl => atom_vars b ++ rest_vars tl end.
Definition chain_vars (c : chain) : list str := sort_strs (atom_vars (fst c) ++ rest_vars (snd c)).

(* ---- well-formedness: operators are used in roles they have ---- *)
Definition is_bin (o : nat) : bool :=
  match obin (nth o tb {| repr := []; obin := None; ounary := false; oconst := false |}) with Some _ => true | None => false end.
Definition is_un (o : nat) : bool := ounary (nth o tb {| repr := []; obin := None; ounary := false; oconst := false |}).
Fixpoint wf_atom (a : atom) : bool :=
  match a with
  | ALeaf us _ => forallb is_un us
  | AGroup us a0 rest =>
      forallb is_un us && wf_atom a0 &&
      (fix go (l : list (nat * atom)) : bool := match l with [] => true | (o, b) :: tl => is_bin o && wf_atom b && go tl end) rest
  end.
Fixpoint wf_rest (l : list (nat * atom)) : bool :=
  match l with [] => true | (o, b) :: tl => is_bin o && wf_atom b && wf_rest tl end.
Definition wf_chain (c : chain) : bool := wf_atom (fst c) && wf_rest (snd c).
(* priorities of binary operators lie in 0..99 *)
Definition wf_table : bool :=
  forallb (fun o => match obin o with Some b => (0 <=? prio b)%Z && (prio b <=? 99)%Z | None => true end) tb.
End RefSem.
