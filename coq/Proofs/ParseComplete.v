(* Proofs/ParseComplete.v — the token lists the deep parser accepts, outside prefix notation: if no parenthesis level
   starts with a binary-only operator (no `op a b`), every token list on which check_preconditions and the recursive
   descent succeed is the token rendering of a well-formed surface tree.  (The operand/operator count of a level can
   only balance when operands and binary operators alternate: two adjacent operands leave one operand too many that
   nothing can compensate, since every further binary operator needs an operand on its left.)
   Hence the theorems about renderings of well-formed trees (C01, C02, C03) apply to every such accepted token list. *)
From Coq Require Import List Arith Lia Bool ZArith.
Import ListNotations.
From Exmex.Model Require Import Base EvalBinary Lexer Flat Deep.
From Exmex.Spec Require Import RefSem.
From Exmex.Proofs Require Import Vars WalkSim DeepParse Accept DeepTotal ParseConsume UnparseParsed ParseAny.
Open Scope nat_scope.

Section ParseComplete.
Context {D : Type}.
Variable C : carrier D.
Variable tb : optable.
Variable vars : list str.

(* a binary-only operator: at the start of a level the parsers take it as binary (prefix notation) *)
Definition prefix_op (t : token D) : bool := match t with TOp k => has_bin tb k && negb (has_un tb k) | _ => false end.
Definition is_open (t : token D) : bool := match t with TOpen => true | _ => false end.
Fixpoint nopre (st : bool) (ts : list (token D)) : bool :=
  match ts with [] => true | t :: tl => negb (st && prefix_op t) && nopre (is_open t) tl end.
Definition noprefix (ts : list (token D)) : bool := nopre true ts.

Definition optl (p : option (token D)) : list (token D) := match p with Some t => [t] | None => [] end.
Definition at_start (p : option (token D)) : bool := match p with None => true | Some TOpen => true | _ => false end.
Definition lastok (l : list (token D)) : Prop := l = [] \/ ((forall k, last l TClose <> TOp k) /\ last l TClose <> TOpen).
(* what is known about the tokens still to be read, `prev` being the token in front of them *)
Definition ctx (prev : option (token D)) (ts : list (token D)) : Prop :=
  pairs_ok tb (optl prev ++ ts) = true /\ nopre (at_start prev) ts = true /\ lastok (optl prev ++ ts) /\
  (prev = None -> exists t tl, ts = t :: tl /\ t <> TClose).
(* the `left` argument of the parser: the previous token, None at the start of a slice *)
Definition lrel (prev left : option (token D)) : Prop := left = match prev with Some TOpen => None | p => p end.
Definition aa (prev : option (token D)) : bool := match prev with Some t => atom_end t | None => false end.

Lemma ctx_step prev t tl : ctx prev (t :: tl) -> ctx (Some t) tl.
Proof.
  intros (Hp & Hn & Hl & _). split; [|split; [|split]].
  - destruct prev as [p|]; cbn [optl app] in *; [|exact Hp]. rewrite pairs_ok_cons in Hp. apply andb_prop in Hp. exact (proj2 Hp).
  - cbn [nopre] in Hn. apply andb_prop in Hn. destruct Hn as [_ Hn]. destruct t; exact Hn.
  - destruct Hl as [Hl|Hl]; [destruct prev; discriminate|]. right. cbn [optl app].
    replace (last (optl prev ++ t :: tl) TClose) with (last (t :: tl) TClose) in Hl; [exact Hl|].
    symmetry. apply last_app_ne. discriminate.
  - discriminate.
Qed.
Lemma ctx_skip prev : forall pre t tl, ctx prev (pre ++ t :: tl) -> ctx (Some t) tl.
Proof.
  intros pre. revert prev. induction pre as [|p pre IH]; intros prev t tl H; [exact (ctx_step prev t tl H)|].
  cbn [app] in H. exact (IH (Some p) t tl (ctx_step prev p _ H)).
Qed.
Lemma ctx_pair p t tl : ctx (Some p) (t :: tl) -> pair_ok tb p t = true.
Proof. intros (Hp & _). cbn [optl app] in Hp. rewrite pairs_ok_cons in Hp. apply andb_prop in Hp. exact (proj1 Hp). Qed.
Lemma ctx_pairs prev ts : ctx prev ts -> pairs_ok tb ts = true.
Proof.
  intros (Hp & _). destruct prev as [p|]; cbn [optl app] in Hp; [|exact Hp].
  destruct ts as [|t tl]; [reflexivity|]. rewrite pairs_ok_cons in Hp. apply andb_prop in Hp. exact (proj2 Hp).
Qed.

(* classification of an operator token *)
Lemma isb_after_atom prev left k b : aa prev = true -> lrel prev left ->
  (forall p, prev = Some p -> pair_ok tb p (TOp k) = true) -> is_operator_binary tb k left = Ok b -> b = true /\ is_bin tb k = true.
Proof.
  intros Ha Hl Hp H. destruct prev as [p|]; [|discriminate]. specialize (Hp p eq_refl). cbn [aa] in Ha. unfold lrel in Hl.
  assert (Hb : has_bin tb k = true) by (destruct p; try discriminate; exact Hp).
  split; [|exact Hb]. unfold is_operator_binary in H. rewrite Hb in H. cbn [andb] in H.
  destruct p; try discriminate; subst left; destruct (has_un tb k); cbn in H; inversion H; reflexivity.
Qed.
Lemma isb_at_start prev left k b : aa prev = false -> lrel prev left -> at_start prev && prefix_op (TOp k) = false ->
  is_operator_binary tb k left = Ok b -> b = false.
Proof.
  intros Ha Hl Hn H. unfold is_operator_binary in H. cbn [prefix_op] in Hn. unfold lrel in Hl.
  destruct (has_bin tb k), (has_un tb k); cbn [andb negb] in *.
  - destruct prev as [[]|]; try discriminate; subst left; inversion H; reflexivity.
  - destruct prev as [[]|]; try discriminate; subst left; cbn in *; try discriminate.
  - inversion H; reflexivity.
  - inversion H; reflexivity.
Qed.

Lemma pb_ops (us : list nat) (ts : list (token D)) c : paren_balance (map TOp us ++ ts) c = paren_balance ts c.
Proof. induction us as [|u us IH]; [reflexivity|exact IH]. Qed.

(* success of DeepEx::new means the counts match (or everything is empty) *)
Lemma new_deepex_count nodes bops uop (e : deepex D) : new_deepex C nodes bops uop = Ok e -> nodes <> [] -> length nodes = S (length bops).
Proof.
  unfold new_deepex. intros H Hne. destruct nodes as [|n nt]; [congruence|].
  destruct (Nat.eqb_spec (length (n :: nt)) (S (length bops))) as [E|_]; [exact E|discriminate].
Qed.

Local Notation flatten_atom := (@flatten_atom D).
Local Notation flatten_rest := (@flatten_rest D).

Theorem dparse_tree : forall fuel prev left ts rnodes rbops uop e rest (c : Z),
  lrel prev left -> ctx prev ts -> (0 <= c)%Z -> paren_balance ts c = Some 0%Z ->
  dparse C tb fuel left ts vars rnodes rbops uop = Ok (e, rest) ->
  (if aa prev then S (length rbops) <= length rnodes else length rbops <= length rnodes) ->
  exists endtoks,
    ((c = 0%Z /\ endtoks = [] /\ rest = []) \/
     ((0 < c)%Z /\ endtoks = TClose :: rest /\ paren_balance rest (c - 1) = Some 0%Z /\ ctx (Some TClose) rest)) /\
    if aa prev then
      length rnodes = S (length rbops) /\ exists l, wf_rest tb l = true /\ ts = flatten_rest l ++ endtoks
    else
      length rnodes = length rbops /\ exists a l, wf_atom tb a = true /\ wf_rest tb l = true /\ ts = flatten_atom a ++ flatten_rest l ++ endtoks.
Proof.
  induction fuel as [|fuel IH]; intros prev left ts rnodes rbops uop e rest c Hl Hc Hc0 Hb H Hcnt; [discriminate|].
  cbn [dparse] in H.
  (* the end of a level *)
  assert (Hfin : forall r, (do e0 <- new_deepex C (rev rnodes) (rev rbops) uop; Ok (e0, r)) = Ok (e, rest) -> aa prev = true ->
            r = rest /\ length rnodes = S (length rbops)).
  { intros r Hr Ha. destruct (new_deepex C (rev rnodes) (rev rbops) uop) as [e0| |] eqn:En; cbn [bind] in Hr; try discriminate. inversion Hr; subst.
    split; [reflexivity|]. rewrite Ha in Hcnt. pose proof (new_deepex_count _ _ _ _ En) as Hn. rewrite !rev_length in Hn. apply Hn.
    intros E. apply (f_equal (@length _)) in E. rewrite rev_length in E. cbn in E. lia. }
  (* an atom has been read: go on behind it *)
  assert (Hafter : forall (a : atom (D:=D)) t tl2 node, aa prev = false -> wf_atom tb a = true -> atom_end t = true ->
            ts = flatten_atom a ++ tl2 -> ctx (Some t) tl2 -> paren_balance tl2 c = Some 0%Z ->
            dparse C tb fuel (Some t) tl2 vars (node :: rnodes) rbops uop = Ok (e, rest) ->
            exists endtoks,
              ((c = 0%Z /\ endtoks = [] /\ rest = []) \/
               ((0 < c)%Z /\ endtoks = TClose :: rest /\ paren_balance rest (c - 1) = Some 0%Z /\ ctx (Some TClose) rest)) /\
              length rnodes = length rbops /\ exists a l, wf_atom tb a = true /\ wf_rest tb l = true /\ ts = flatten_atom a ++ flatten_rest l ++ endtoks).
  { intros a t tl2 node Ha Hwa Ht Ets Hc2 Hb2 H2. rewrite Ha in Hcnt.
    assert (Hl2 : lrel (Some t) (Some t)) by (unfold lrel; destruct t; try discriminate; reflexivity).
    destruct (IH (Some t) (Some t) tl2 (node :: rnodes) rbops uop e rest c Hl2 Hc2 Hc0 Hb2 H2) as (endtoks & Hend & Hres).
    { cbn [aa]. rewrite Ht. cbn [length]. lia. }
    cbn [aa] in Hres. rewrite Ht in Hres. destruct Hres as (Hn & l & Hwl & El). cbn [length] in Hn.
    exists endtoks. split; [exact Hend|]. split; [lia|]. exists a, l. split; [exact Hwa|]. split; [exact Hwl|]. rewrite Ets, El. reflexivity. }
  (* a parenthesis group with the unary operators us in front; tl2 is what follows the opening parenthesis *)
  assert (Hgroup : forall us pre tl2, aa prev = false -> forallb (is_un tb) us = true -> ts = pre ++ TOpen :: tl2 -> pre = map TOp us ->
            forall e1 rest1, dparse C tb fuel None tl2 vars [] [] us = Ok (e1, rest1) ->
            dparse C tb fuel (Some TClose) rest1 vars (DExpr e1 :: rnodes) rbops uop = Ok (e, rest) ->
            exists endtoks,
              ((c = 0%Z /\ endtoks = [] /\ rest = []) \/
               ((0 < c)%Z /\ endtoks = TClose :: rest /\ paren_balance rest (c - 1) = Some 0%Z /\ ctx (Some TClose) rest)) /\
              length rnodes = length rbops /\ exists a l, wf_atom tb a = true /\ wf_rest tb l = true /\ ts = flatten_atom a ++ flatten_rest l ++ endtoks).
  { intros us pre tl2 Ha Hus Ets Epre e1 rest1 E1 H2.
    assert (Hc2 : ctx (Some TOpen) tl2) by (rewrite Ets in Hc; exact (ctx_skip prev pre TOpen tl2 Hc)).
    assert (Hb2 : paren_balance tl2 (c + 1) = Some 0%Z) by (rewrite Ets, Epre, pb_ops in Hb; exact Hb).
    destruct (IH (Some TOpen) None tl2 [] [] us e1 rest1 (c + 1)%Z eq_refl Hc2 ltac:(lia) Hb2 E1 ltac:(cbn; lia)) as (end1 & Hend1 & Hres1).
    cbn [aa atom_end] in Hres1. destruct Hres1 as (_ & a0 & l0 & Hw0 & Hwl0 & E0).
    destruct Hend1 as [(Hz & _)|(_ & Ee1 & Hb1 & Hc1)]; [lia|]. replace (c + 1 - 1)%Z with c in Hb1 by lia.
    apply (Hafter (AGroup us a0 l0) TClose rest1 (DExpr e1) Ha); [rewrite (wf_group tb), Hus, Hw0, Hwl0; reflexivity|reflexivity| |exact Hc1|exact Hb1|exact H2].
    rewrite Ets, Epre, E0, Ee1. rewrite flatten_group_tail. reflexivity. }
  destruct ts as [|t tl].
  - (* the end of the tokens *)
    destruct (aa prev) eqn:Ha.
    + destruct (Hfin [] H eq_refl) as [<- Hn]. exists []. split; [left; cbn in Hb; inversion Hb; auto|]. split; [exact Hn|]. exists []. split; reflexivity.
    + exfalso. destruct Hc as (_ & _ & Hlast & Hnone). destruct prev as [p|]; [|destruct (Hnone eq_refl) as (? & ? & E & _); discriminate].
      cbn [optl app] in Hlast. destruct Hlast as [Hlast|[Hk Ho]]; [discriminate|]. cbn [last] in Hk, Ho. destruct p; try discriminate; [exact (Ho eq_refl)|exact (Hk _ eq_refl)].
  - pose proof (ctx_step prev t tl Hc) as Hc'.
    destruct t as [d| | |k|x].
    + (* a number *)
      destruct (aa prev) eqn:Ha.
      * exfalso. destruct prev as [p|]; [|discriminate]. pose proof (ctx_pair p _ _ Hc) as Hp. cbn [aa] in Ha.
        assert (Hl2 : lrel (Some (TNum d)) (Some (TNum d))) by reflexivity.
        destruct (IH (Some (TNum d)) _ tl (DNum d :: rnodes) rbops uop e rest c Hl2 Hc' Hc0 Hb H ltac:(cbn [aa atom_end length]; lia)) as (? & _ & Hn & _).
        cbn [length] in Hn. lia.
      * apply (Hafter (ALeaf [] (LNum d)) (TNum d) tl (DNum d) eq_refl eq_refl eq_refl eq_refl Hc' Hb H).
    + (* an opening parenthesis *)
      destruct (aa prev) eqn:Ha.
      * exfalso. destruct prev as [p|]; [|discriminate]. pose proof (ctx_pair p _ _ Hc) as Hp. cbn [aa] in Ha. destruct p; discriminate.
      * destruct (dparse C tb fuel None tl vars [] [] []) as [[e1 rest1]| |] eqn:E1; cbn [bind] in H; try discriminate.
        exact (Hgroup [] [] tl eq_refl eq_refl eq_refl eq_refl e1 rest1 E1 H).
    + (* a closing parenthesis *)
      destruct (aa prev) eqn:Ha.
      * destruct (Hfin tl H eq_refl) as [<- Hn]. cbn [paren_balance] in Hb. destruct (Z.ltb_spec (c - 1) 0) as [|Hge]; [discriminate|].
        exists (TClose :: tl). split; [right; split; [lia|]; split; [reflexivity|]; split; [exact Hb|exact Hc']|]. split; [exact Hn|]. exists []. split; reflexivity.
      * exfalso. destruct prev as [p|].
        -- pose proof (ctx_pair p _ _ Hc) as Hp. cbn [aa] in Ha. destruct p; discriminate.
        -- destruct Hc as (_ & _ & _ & Hnone). destruct (Hnone eq_refl) as (t0 & tl0 & E & Hne). inversion E; subst. exact (Hne eq_refl).
    + (* an operator *)
      destruct (is_operator_binary tb k left) as [b| |] eqn:Eb; cbn [bind] in H; try discriminate.
      destruct (aa prev) eqn:Ha.
      * (* binary, after an operand *)
        destruct (isb_after_atom prev left k b Ha Hl (fun p E => ltac:(subst prev; exact (ctx_pair p _ _ Hc))) Eb) as [-> Hbin].
        rewrite (mk_bop_ok tb k Hbin) in H. cbn [bind] in H.
        assert (Hl2 : lrel (Some (TOp k)) (Some (TOp k))) by reflexivity.
        destruct (IH (Some (TOp k)) _ tl rnodes (dop tb k :: rbops) uop e rest c Hl2 Hc' Hc0 Hb H ltac:(cbn [aa atom_end length]; lia)) as (endtoks & Hend & Hres).
        cbn [aa atom_end] in Hres. destruct Hres as (Hn & a & l & Hwa & Hwl & El). cbn [length] in Hn.
        exists endtoks. split; [exact Hend|]. split; [exact Hn|]. exists ((k, a) :: l). split; [cbn [wf_rest]; rewrite Hbin, Hwa, Hwl; reflexivity|].
        rewrite El. rewrite flatten_rest_cons_tail. reflexivity.
      * (* unary, in front of an operand *)
        assert (Hb0 : b = false).
        { apply (isb_at_start prev left k b Ha Hl); [|exact Eb]. destruct Hc as (_ & Hn & _). cbn [nopre] in Hn. apply andb_prop in Hn. destruct Hn as [Hn _].
          apply negb_true_iff in Hn. exact Hn. }
        subst b. destruct (has_un tb k) eqn:Eu; cbn [negb] in H; [|discriminate].
        set (mu := more_unaries tb tl) in *. cbv zeta in H. replace (length (k :: mu) - 1) with (length mu) in H by (cbn [length]; lia).
        pose proof (more_unaries_prefix tb tl) as Etl. fold mu in Etl.
        assert (Hus : forallb (is_un tb) (k :: mu) = true).
        { cbn [forallb]. unfold mu. rewrite (more_unaries_un tb tl), andb_true_r. exact Eu. }
        destruct (skipn (length mu) tl) as [|a0 tl2] eqn:Ea; [discriminate|].
        assert (Ets : TOp k :: tl = map TOp (k :: mu) ++ a0 :: tl2) by (rewrite Etl at 1; reflexivity).
        assert (Hc2 : ctx (Some a0) tl2) by (rewrite Ets in Hc; exact (ctx_skip prev _ a0 tl2 Hc)).
        assert (Hb2 : paren_balance (a0 :: tl2) c = Some 0%Z) by (rewrite Ets, pb_ops in Hb; exact Hb).
        destruct a0 as [d| | |k'|x]; try discriminate.
        -- apply (Hafter (ALeaf (k :: mu) (LNum d)) (TNum d) tl2 (DNum (apply_un C (k :: mu) d)) eq_refl Hus eq_refl); [|exact Hc2|exact Hb2|exact H].
           rewrite Ets. cbn [RefSem.flatten_atom]. rewrite <- app_assoc. reflexivity.
        -- destruct (dparse C tb fuel None tl2 vars [] [] (k :: mu)) as [[e1 rest1]| |] eqn:E1; cbn [bind] in H; try discriminate.
           exact (Hgroup (k :: mu) _ tl2 eq_refl Hus Ets eq_refl e1 rest1 E1 H).
        -- exfalso. pose proof (pairs_adj tb _ (ctx_pairs _ _ Hc)) as Hadj. rewrite Etl in Hadj. rewrite adj_ops_close in Hadj. discriminate.
        -- destruct (var_index vars x) as [i| |] eqn:Ei; cbn [bind] in H; try discriminate.
           destruct (new_deepex C [DVar i x] [] (k :: mu)) as [e1| |] eqn:E1; cbn [bind] in H; try discriminate.
           apply (Hafter (ALeaf (k :: mu) (LVar x)) (TVar x) tl2 (DExpr e1) eq_refl Hus eq_refl); [|exact Hc2|exact Hb2|exact H].
           rewrite Ets. cbn [RefSem.flatten_atom]. rewrite <- app_assoc. reflexivity.
    + (* a variable *)
      destruct (var_index vars x) as [i| |] eqn:Ei; cbn [bind] in H; try discriminate.
      destruct (aa prev) eqn:Ha.
      * exfalso. destruct prev as [p|]; [|discriminate].
        assert (Hl2 : lrel (Some (TVar x)) (Some (TVar x))) by reflexivity.
        destruct (IH (Some (TVar x)) _ tl (DVar i x :: rnodes) rbops uop e rest c Hl2 Hc' Hc0 Hb H ltac:(cbn [aa atom_end length]; lia)) as (? & _ & Hn & _).
        cbn [length] in Hn. lia.
      * apply (Hafter (ALeaf [] (LVar x)) (TVar x) tl (DVar i x) eq_refl eq_refl eq_refl eq_refl Hc' Hb H).
Qed.
End ParseComplete.

(* ---- the entry point on token lists ---- *)
Section Top.
Context {D : Type}.
Variable C : carrier D.
Variable tb : optable.

Lemma preconditions_pairs (ts : list (token D)) : check_preconditions tb ts = Ok tt -> pairs_ok tb ts = true.
Proof.
  unfold check_preconditions. destruct ts as [|t tl]; [discriminate|]. destruct (pairs_ok tb (t :: tl)); [reflexivity|discriminate].
Qed.

Theorem accepted_is_tree (ts : list (token D)) (e : deepex D) : noprefix tb ts = true -> parse_deep_tokens C tb ts = Ok e ->
  exists c : chain (D:=D), wf_chain tb c = true /\ flatten c = ts.
Proof.
  intros Hnp H. unfold parse_deep_tokens in H.
  destruct (check_preconditions tb ts) as [[]| |] eqn:Hpre; cbn [bind] in H; try discriminate.
  destruct (dparse C tb (S (length ts)) None ts (find_parsed_vars ts) [] [] []) as [[e0 rest]| |] eqn:Hp; cbn [bind] in H; try discriminate.
  destruct (preconditions_tok_ok tb ts Hpre) as [(_ & Hlast & _) Hhd].
  assert (Hctx : ctx tb None ts).
  { split; [exact (preconditions_pairs ts Hpre)|]. split; [exact Hnp|]. split; [exact Hlast|]. intros _. exact Hhd. }
  destruct (dparse_tree C tb (find_parsed_vars ts) _ None None ts [] [] [] e0 rest 0%Z eq_refl Hctx ltac:(lia) (preconditions_balance tb ts Hpre) Hp ltac:(cbn; lia))
    as (endtoks & Hend & _ & a & l & Hwa & Hwl & E).
  destruct Hend as [(_ & -> & _)|(Hpos & _)]; [|lia]. rewrite app_nil_r in E.
  exists (a, l). split; [unfold wf_chain; cbn [fst snd]; rewrite Hwa, Hwl; reflexivity|]. symmetry. exact E.
Qed.
End Top.
