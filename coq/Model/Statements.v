(* Model/Statements.v — statements.rs: a statement line `lhs = expr` (or just `expr`).  detail::parse splits the line at
   `=` (str::split: the text before the first `=`, then the text between the first and the second `=`; anything behind a
   second `=` is ignored), parses the expression part with FlatEx::parse, and line_2_statement evaluates it at once when
   it has no variables.  The left-hand side is only classified (a name, or a function head, which is rejected as
   unsupported); it is a slice of the input and never parsed. *)
From Coq Require Import List NArith.
Import ListNotations.
From Exmex.Model Require Import Base EvalBinary Lexer Flat.

Section Statements.
Context {D : Type}.
Variable C : carrier D.
Variable tb : optable.
Variable is_literal : str -> option nat.

Definition EQSIGN : N := 61%N.
Fixpoint split_at_eq (s : str) : str * option str :=
  match s with
  | [] => ([], None)
  | c :: tl => if N.eqb c EQSIGN then ([], Some tl) else let '(a, b) := split_at_eq tl in (c :: a, b)
  end.
Definition expr_text (s : str) : str := match split_at_eq s with (_, None) => s | (_, Some r) => fst (split_at_eq r) end.
Definition lhs_text (s : str) : option str := match split_at_eq s with (_, None) => None | (l, Some _) => Some l end.

Inductive rhs := RVal (d : D) | RExpr (fx : flatex D).
Definition has_space_or_paren (s : str) : bool := existsb (fun c => N.eqb c SPACE || N.eqb c LPAR) s.
Fixpoint trim_left (s : str) : str := match s with c :: tl => if N.eqb c SPACE then trim_left tl else s | [] => [] end.
Definition trim (s : str) : str := rev (trim_left (rev (trim_left s))).
(* the statement: the variable assigned to (None: a bare expression) and the right-hand side *)
Definition line_2_statement (s : str) : res (option str * rhs) :=
  do fx <- parse C tb true is_literal (expr_text s);
  do r <- (match fvars fx with [] => do v <- eval_flat C fx []; Ok (RVal v) | _ => Ok (RExpr fx) end);
  match lhs_text s with
  | None => Ok (None, r)
  | Some l => let l := trim l in if has_space_or_paren l then Err E_TOKCFG else Ok (Some l, r)
  end.
End Statements.
