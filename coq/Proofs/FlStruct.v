(* Proofs/FlStruct.v — the flat expression of a surface tree, defined by recursion on the tree (what make_expression
   must produce): nodes, operators with depth-scaled priorities, the unary operators of a parenthesis group on the
   operator of the group that is applied last (or on its only node). *)
From Coq Require Import List Arith Lia Bool ZArith.
Import ListNotations.
From Exmex.Model Require Import Base EvalBinary Lexer Flat.
From Exmex.Spec Require Import RefSem.
Open Scope nat_scope.

Section FlStruct.
Context {D : Type}.
Variable tb : optable.
Variable vars : list str.

Definition var_idx (x : str) : nat := match index_of x vars 0 with Some i => i | None => 0 end.
Definition mk_op (o : nat) (depth : Z) : fop :=
  {| fprio := (prio_of tb o + depth * DEPTH_PRIO_STEP)%Z; fidx := o; fcomm := comm_of tb o; fun_ := [] |}.

(* position (from the left) of the rightmost operator of minimal priority *)
Fixpoint rmin (ops : list fop) (pos best : nat) (bestk : Z) : nat :=
  match ops with
  | [] => best
  | o :: tl => if (fprio o <=? bestk)%Z then rmin tl (S pos) pos (fprio o) else rmin tl (S pos) best bestk
  end.
Definition rmin_idx (ops : list fop) : nat := match ops with [] => 0 | o :: tl => rmin tl 1 0 (fprio o) end.

(* the unary operators in front of a parenthesis group go to the operator applied last in the group, or to its only node *)
Definition attach (us : list nat) (no : list (fnode D) * list fop) : list (fnode D) * list fop :=
  let '(nodes, ops) := no in
  match ops with
  | [] => (match nodes with
           | [n] => [{| nkind := nkind n; nun := us ++ nun n |}]
           | _ => nodes end, ops)
  | _ => (nodes, update_nth (rmin_idx ops) (add_un us) ops)
  end.

Fixpoint fl_atom (a : atom (D:=D)) (depth : Z) : list (fnode D) * list fop :=
  match a with
  | ALeaf us (LNum d) => ([{| nkind := FNum d; nun := us |}], [])
  | ALeaf us (LVar x) => ([{| nkind := FVar (var_idx x); nun := us |}], [])
  | AGroup us a0 rest =>
      attach us
        (let '(n0, o0) := fl_atom a0 (depth + 1) in
         let '(nr, or) :=
           (fix go (l : list (nat * atom (D:=D))) : list (fnode D) * list fop :=
              match l with
              | [] => ([], [])
              | (o, b) :: tl => let '(nb, ob) := fl_atom b (depth + 1) in let '(nt, ot) := go tl in
                                (nb ++ nt, mk_op o (depth + 1) :: ob ++ ot)
              end) rest in
         (n0 ++ nr, o0 ++ or))
  end.
Fixpoint fl_rest (l : list (nat * atom (D:=D))) (depth : Z) : list (fnode D) * list fop :=
  match l with
  | [] => ([], [])
  | (o, b) :: tl => let '(nb, ob) := fl_atom b depth in let '(nt, ot) := fl_rest tl depth in
                    (nb ++ nt, mk_op o depth :: ob ++ ot)
  end.
Definition fl_chain (c : chain (D:=D)) (depth : Z) : list (fnode D) * list fop :=
  let '(n0, o0) := fl_atom (fst c) depth in let '(nr, or) := fl_rest (snd c) depth in (n0 ++ nr, o0 ++ or).

Lemma fl_atom_group us a0 rest depth :
  fl_atom (AGroup us a0 rest) depth = attach us (fl_chain (a0, rest) (depth + 1)).
Proof.
  cbn [fl_atom]. unfold fl_chain. cbn [fst snd]. f_equal.
  destruct (fl_atom a0 (depth + 1)) as [n0 o0].
  assert (E : (fix go (l : list (nat * atom (D:=D))) : list (fnode D) * list fop :=
              match l with
              | [] => ([], [])
              | (o, b) :: tl => let '(nb, ob) := fl_atom b (depth + 1) in let '(nt, ot) := go tl in
                                (nb ++ nt, mk_op o (depth + 1) :: ob ++ ot)
              end) rest = fl_rest rest (depth + 1)).
  { induction rest as [|[o b] tl IH]; [reflexivity|]. cbn [fl_rest]. rewrite IH. reflexivity. }
  rewrite E. reflexivity.
Qed.
End FlStruct.
