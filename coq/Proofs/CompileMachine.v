(* Proofs/CompileMachine.v — constant folding as a machine over a chain of tagged nodes.
   The nodes of the expression form a chain  x (j1,y1) (j2,y2) ...  where j is the index of the operator to the left of y.
   Working through the schedule, an operator whose two neighbours are untouched literals is applied and removed;
   otherwise its two neighbours are marked as touched.  For every assignment of the variables the precedence value of
   the chain (raw priorities) is preserved modulo R. *)
From Coq Require Import List Arith Lia Bool ZArith Sorted.
Import ListNotations.
From Exmex.Model Require Import Base EvalBinary Lexer Flat.
From Exmex.Proofs Require Import ChainMachine SortedRef Bump BumpInst Pev PevFold FlVals.
Open Scope nat_scope.

Section CompileMachine.
Context {D : Type}.
Variable C : carrier D.
Variable R : D -> D -> Prop.
Hypothesis R_refl : forall a, R a a.
Hypothesis R_sym : forall a b, R a b -> R b a.
Hypothesis R_trans : forall a b c, R a b -> R b c -> R a c.
Hypothesis R_bin : forall k a a' b b', R a a' -> R b b' -> R (binf C k a b) (binf C k a' b').
Hypothesis R_un : forall k a a', R a a' -> R (unf C k a) (unf C k a').

Variable ops : list fop.
Hypothesis flagged_assoc : forall o, In o ops -> fcomm o = true ->
  forall a b c, R (binf C (fidx o) (binf C (fidx o) a b) c) (binf C (fidx o) a (binf C (fidx o) b c)).

Definition dummy_op : fop := {| fprio := 0; fidx := 0; fcomm := false; fun_ := [] |}.
Definition opsf (i : nat) : fop := nth i ops dummy_op.
Local Notation key0 := (BumpInst.key0 ops).
(* the keys of the schedule: raw priority times ten, plus five for some operators whose regrouping is invisible
   (the flat keys of prioritized_indices_flat, the deep keys of prioritized_indices) *)
Variable keyb : nat -> Z.
Hypothesis kb_cases : forall i, keyb i = key0 i \/ keyb i = (key0 i + 5)%Z.
Hypothesis kb_ok : forall i, keyb i = (key0 i + 5)%Z -> forall j, j < i -> (key0 j <= key0 i)%Z ->
  (forall k, j < k < i -> (key0 i < key0 k)%Z) -> (key0 j < key0 i)%Z \/ BumpInst.AP ops j i.

Record cn := { cnode : fnode D; cdecl : bool }.
Definition mark (a : cn) : cn := {| cnode := cnode a; cdecl := true |}.
Definition foldable (a b : cn) : option (D * D) :=
  match nkind (cnode a), nkind (cnode b) with
  | FNum va, FNum vb => if negb (cdecl a || cdecl b) then Some (va, vb) else None
  | _, _ => None
  end.
Definition folded (i : nat) (va vb : D) : cn :=
  {| cnode := {| nkind := FNum (apply_op C (opsf i) va vb); nun := [] |}; cdecl := false |}.

Definition tagged := list (nat * cn).
Definition tids (l : tagged) : list nat := map fst l.

Fixpoint cstep (i : nat) (x : cn) (l : tagged) : cn * tagged * bool :=
  match l with
  | [] => (x, [], false)
  | (j, y) :: tl =>
      if Nat.eqb i j then
        match foldable x y with
        | Some (va, vb) => (folded i va vb, tl, true)
        | None => (mark x, (j, mark y) :: tl, false)
        end
      else let '(y', tl', f) := cstep i y tl in (x, (j, y') :: tl', f)
  end.
Fixpoint crun (sigma : list nat) (x : cn) (l : tagged) (used : list nat) : cn * tagged * list nat :=
  match sigma with
  | [] => (x, l, used)
  | i :: s => let '(x', l', f) := cstep i x l in crun s x' l' (if f then used ++ [i] else used)
  end.

Lemma cstep_head i x y tl :
  cstep i x ((i, y) :: tl) = match foldable x y with
                             | Some (va, vb) => (folded i va vb, tl, true)
                             | None => (mark x, (i, mark y) :: tl, false)
                             end.
Proof. cbn [cstep]. rewrite Nat.eqb_refl. reflexivity. Qed.
Lemma cstep_mid i : forall l0 x jl a y tl, ~ In i (tids l0) -> i <> jl ->
  cstep i x (l0 ++ (jl, a) :: (i, y) :: tl) =
    match foldable a y with
    | Some (va, vb) => (x, l0 ++ (jl, folded i va vb) :: tl, true)
    | None => (x, l0 ++ (jl, mark a) :: (i, mark y) :: tl, false)
    end.
Proof.
  induction l0 as [|[j z] l0 IH]; intros x jl a y tl Hnin Hne.
  - cbn [app cstep]. destruct (Nat.eqb_spec i jl) as [E|_]; [contradiction|]. rewrite Nat.eqb_refl.
    destruct (foldable a y) as [[va vb]|]; reflexivity.
  - cbn [app cstep]. destruct (Nat.eqb_spec i j) as [E|_]; [exfalso; apply Hnin; left; symmetry; exact E|].
    rewrite (IH z jl a y tl) by (try exact Hne; intros H; apply Hnin; right; exact H).
    destruct (foldable a y) as [[va vb]|]; reflexivity.
Qed.

(* ---- semantics of a chain under an assignment ---- *)
Variable vals : list D.
Definition cval (a : cn) : D := nval C vals (cnode a).
Definition sem (l : tagged) : list (fop * D) := map (fun p => (opsf (fst p), cval (snd p))) l.
Definition pvs (x : cn) (l : tagged) : D := pv C (cval x) (sem l).

Definition numok (a : cn) : Prop := forall v, nkind (cnode a) = FNum v -> nun (cnode a) = [].
Lemma cval_num a v : numok a -> nkind (cnode a) = FNum v -> cval a = v.
Proof. intros Hn Hk. unfold cval, nval. rewrite Hk, (Hn v Hk). reflexivity. Qed.
Lemma cval_mark a : cval (mark a) = cval a.
Proof. reflexivity. Qed.
Lemma foldable_spec a y va vb : foldable a y = Some (va, vb) ->
  nkind (cnode a) = FNum va /\ nkind (cnode y) = FNum vb /\ cdecl a = false /\ cdecl y = false.
Proof.
  unfold foldable. destruct (nkind (cnode a)) as [v1|]; [|discriminate]. destruct (nkind (cnode y)) as [v2|]; [|discriminate].
  destruct (cdecl a), (cdecl y); cbn; try discriminate. intros H. inversion H. auto.
Qed.

(* ---- the invariant ---- *)
Fixpoint adj_ok (rest : list nat) (x : cn) (l : tagged) : Prop :=
  match l with
  | [] => True
  | (j, y) :: tl => (In j rest \/ (cdecl x = true /\ cdecl y = true)) /\ adj_ok rest y tl
  end.
Fixpoint all_numok (x : cn) (l : tagged) : Prop :=
  match l with [] => numok x | (_, y) :: tl => numok x /\ all_numok y tl end.
Definition notin (used : list nat) (q : nat) : bool := negb (existsb (Nat.eqb q) used).

Record Inv (rest used : list nat) (x : cn) (l : tagged) : Prop := {
  inv_inc : @inc cn 0 l;
  inv_ids : tids l = filter (notin used) (seq 0 (length ops));
  inv_rest : forall j, In j rest -> In j (tids l);
  inv_adj : adj_ok rest x l;
  inv_num : all_numok x l
}.

(* ---- order facts ---- *)
Lemma sorted_split (done : list nat) i rest : sched_sorted keyb (done ++ i :: rest) ->
  (forall q, In q done -> before keyb q i) /\ (forall j, In j rest -> before keyb i j).
Proof.
  induction done as [|d done IH]; intros HS.
  - cbn in HS. apply StronglySorted_inv in HS. destruct HS as [_ Hall]. split; [intros q []|].
    intros j Hj. rewrite Forall_forall in Hall. apply Hall. exact Hj.
  - cbn in HS. apply StronglySorted_inv in HS. destruct HS as [HS Hall]. destruct (IH HS) as [H1 H2]. split; [|exact H2].
    intros q [<-|Hq]; [|apply H1; exact Hq]. rewrite Forall_forall in Hall. apply Hall. apply in_or_app. right. left. reflexivity.
Qed.

Lemma key0_opsf i : i < length ops -> key0 i = (fprio (opsf i) * 10)%Z.
Proof.
  intros Hi. unfold BumpInst.key0, opsf. destruct (nth_error ops i) as [o|] eqn:E; [|apply nth_error_None in E; lia].
  rewrite (nth_error_nth _ _ dummy_op E). reflexivity.
Qed.

Lemma inc_mid_gap : forall (l0 : tagged) lo jl a i y tl q, @inc cn lo (l0 ++ (jl, a) :: (i, y) :: tl) ->
  jl < q < i -> ~ In q (tids (l0 ++ (jl, a) :: (i, y) :: tl)).
Proof.
  induction l0 as [|[j z] l0 IH]; intros lo jl a i y tl q Hinc Hq Hin.
  - cbn [app] in *. destruct Hinc as [_ [_ Hinc]]. cbn in Hin. destruct Hin as [E|[E|Hin]]; [lia|lia|].
    pose proof (inc_ge cn (fun _ a _ => a) _ _ _ Hinc Hin). lia.
  - cbn [app] in *. destruct Hinc as [_ Hinc]. cbn in Hin. destruct Hin as [E|Hin].
    + subst j. assert (Hjl : In jl (@ids cn (l0 ++ (jl, a) :: (i, y) :: tl))).
      { unfold ids. rewrite map_app. apply in_or_app. right. left. reflexivity. }
      pose proof (inc_ge cn (fun _ a _ => a) _ _ _ Hinc Hjl). lia.
    + exact (IH _ _ _ _ _ _ _ Hinc Hq Hin).
Qed.
Lemma inc_lt_adjacent : forall (l0 : tagged) lo jl a i y tl, @inc cn lo (l0 ++ (jl, a) :: (i, y) :: tl) -> jl < i.
Proof.
  induction l0 as [|[j z] l0 IH]; intros lo jl a i y tl Hinc.
  - cbn [app] in Hinc. destruct Hinc as [_ [H _]]. lia.
  - cbn [app] in Hinc. destruct Hinc as [_ Hinc]. exact (IH _ _ _ _ _ _ Hinc).
Qed.
Lemma inc_notin_prefix : forall (l1 : tagged) lo i y tl, @inc cn lo (l1 ++ (i, y) :: tl) -> ~ In i (tids l1) /\ ~ In i (tids tl).
Proof.
  induction l1 as [|[j z] l1 IH]; intros lo i y tl Hinc.
  - cbn [app] in Hinc. destruct Hinc as [_ Hinc]. split; [intros []|]. intros Hin.
    pose proof (inc_ge cn (fun _ a _ => a) _ _ _ Hinc Hin). lia.
  - cbn [app] in Hinc. destruct Hinc as [_ Hinc]. destruct (IH _ _ _ _ Hinc) as [H1 H2]. split; [|exact H2].
    intros [E|Hin]; [|exact (H1 Hin)]. cbn in E. subst j.
    assert (Hi : In i (@ids cn (l1 ++ (i, y) :: tl))) by (unfold ids; rewrite map_app; apply in_or_app; right; left; reflexivity).
    pose proof (inc_ge cn (fun _ a _ => a) _ _ _ Hinc Hi). lia.
Qed.
Lemma inc_remove : forall (l1 : tagged) lo i y tl, @inc cn lo (l1 ++ (i, y) :: tl) -> @inc cn lo (l1 ++ tl).
Proof.
  induction l1 as [|[j z] l1 IH]; intros lo i y tl Hinc.
  - cbn [app] in *. destruct Hinc as [Hlo Hinc]. apply (inc_weaken cn (fun _ a _ => a) (S i)); [lia|exact Hinc].
  - cbn [app] in *. destruct Hinc as [Hlo Hinc]. split; [exact Hlo|]. exact (IH _ _ _ _ Hinc).
Qed.
Lemma inc_same_ids : forall (l l' : tagged) lo, tids l = tids l' -> @inc cn lo l -> @inc cn lo l'.
Proof.
  induction l as [|[j z] l IH]; intros l' lo E Hinc; destruct l' as [|[j' z'] l']; try discriminate; [exact I|].
  cbn in E. inversion E; subst. destruct Hinc as [Hlo Hinc]. split; [exact Hlo|]. apply (IH l' _ H1 Hinc).
Qed.

(* the raw priorities of two scheduled operators compare like their keys *)
Lemma keyb_le_raw i j : i < length ops -> j < length ops -> (keyb j <= keyb i)%Z -> (fprio (opsf j) <= fprio (opsf i))%Z.
Proof.
  intros Hi Hj Hle. pose proof (key0_opsf i Hi). pose proof (key0_opsf j Hj).
  destruct (kb_cases i), (kb_cases j); lia.
Qed.

(* ---- the left neighbour of a folded operator ---- *)
Lemma left_condition (done rest : list nat) i jl :
  sched_sorted keyb (done ++ i :: rest) ->
  (forall q, q < length ops -> In q (done ++ i :: rest)) ->
  i < length ops -> jl < i -> In jl rest ->
  (forall q, jl < q < i -> In q done) ->
  (fprio (opsf jl) < fprio (opsf i))%Z \/
  (fprio (opsf jl) = fprio (opsf i) /\
   forall u v w, R (apply_op C (opsf jl) u (apply_op C (opsf i) v w)) (apply_op C (opsf i) (apply_op C (opsf jl) u v) w)).
Proof.
  intros HS Hall Hi Hlt Hjl Hgap.
  destruct (sorted_split done i rest HS) as [Hdone Hrest].
  assert (Hjlen : jl < length ops) by lia.
  pose proof (key0_opsf i Hi) as Ki. pose proof (key0_opsf jl Hjlen) as Kj.
  assert (Hkb : (keyb jl < keyb i)%Z).
  { destruct (Hrest jl Hjl) as [H|[_ H]]; lia. }
  destruct (Z.lt_trichotomy (fprio (opsf jl)) (fprio (opsf i))) as [H|[Heq|H]]; [left; exact H| |].
  2:{ exfalso. destruct (kb_cases i), (kb_cases jl); lia. }
  right. split; [exact Heq|].
  assert (Hbi : keyb i = (key0 i + 5)%Z) by (destruct (kb_cases i), (kb_cases jl); lia).
  assert (HAP : BumpInst.AP ops jl i).
  { apply (chain_AP key0 keyb (BumpInst.AP ops) (BumpInst.AP_trans ops) kb_ok (key0 jl) jl eq_refl i Hlt).
    - lia.
    - intros q Hq. destruct (Nat.eq_dec q i) as [->|Hne]; [lia|].
      assert (Hqd : before keyb q i) by (apply Hdone; apply Hgap; lia).
      assert (Hql : q < length ops) by lia. pose proof (key0_opsf q Hql).
      destruct (BumpInst.key0_10 ops q) as [z Hz].
      destruct Hqd as [Hk|[Hk _]]; destruct (kb_cases q); lia.
    - intros q Hq Hkq. destruct (Nat.eq_dec q i) as [->|Hne]; [lia|].
      assert (Hqd : before keyb q i) by (apply Hdone; apply Hgap; lia).
      destruct Hqd as [Hk|[Hk _]]; destruct (kb_cases q); lia. }
  destruct HAP as (oj & oi & Ej & Ei & Hf & Huj & Hui & Hc).
  unfold opsf. rewrite (nth_error_nth _ _ dummy_op Ej), (nth_error_nth _ _ dummy_op Ei).
  intros u v w. unfold apply_op. rewrite Huj, Hui. cbn [apply_un fold_right]. rewrite Hf. apply R_sym.
  apply (flagged_assoc oi); [eapply nth_error_In; exact Ei|exact Hc].
Qed.

(* ---- adj_ok and all_numok under the two kinds of step ---- *)
Lemma adj_ok_weaken rest rest' x l : (forall j, In j (tids l) -> In j rest -> In j rest') -> adj_ok rest x l -> adj_ok rest' x l.
Proof.
  revert x. induction l as [|[j y] tl IH]; intros x Hsub H; [exact I|]. cbn [adj_ok] in *. destruct H as [H1 H2]. split.
  - destruct H1 as [H1|H1]; [left; apply Hsub; [left; reflexivity|exact H1]|right; exact H1].
  - apply IH; [|exact H2]. intros k Hk. apply Hsub. right. exact Hk.
Qed.
Lemma adj_ok_app rest : forall l0 x jl a m, adj_ok rest x (l0 ++ (jl, a) :: m) <->
  adj_ok rest x (l0 ++ [(jl, a)]) /\ adj_ok rest a m.
Proof.
  induction l0 as [|[j z] l0 IH]; intros x jl a m; cbn [app adj_ok].
  - tauto.
  - rewrite (IH z jl a m). tauto.
Qed.
Lemma adj_ok_last_flag rest : forall l0 x jl a a', cdecl a = cdecl a' \/ cdecl a' = true ->
  adj_ok rest x (l0 ++ [(jl, a)]) -> adj_ok rest x (l0 ++ [(jl, a')]).
Proof.
  induction l0 as [|[j z] l0 IH]; intros x jl a a' Hf H; cbn [app adj_ok] in *.
  - destruct H as [[H|[H1 H2]] _]; split; auto. right. split; [exact H1|]. destruct Hf as [<-|Hf]; assumption.
  - destruct H as [H1 H2]. split; [exact H1|]. exact (IH _ _ _ _ Hf H2).
Qed.
Lemma adj_ok_last_in rest : forall l0 x jl a, cdecl a = false -> adj_ok rest x (l0 ++ [(jl, a)]) -> In jl rest.
Proof.
  induction l0 as [|[j z] l0 IH]; intros x jl a Hf H; cbn [app adj_ok] in *.
  - destruct H as [[H|[_ H]] _]; [exact H|congruence].
  - destruct H as [_ H]. exact (IH _ _ _ Hf H).
Qed.
Lemma adj_ok_last_new rest : forall l0 x jl a a', In jl rest ->
  adj_ok rest x (l0 ++ [(jl, a)]) -> adj_ok rest x (l0 ++ [(jl, a')]).
Proof.
  induction l0 as [|[j z] l0 IH]; intros x jl a a' Hin H; cbn [app adj_ok] in *.
  - split; [left; exact Hin|exact I].
  - destruct H as [H1 H2]. split; [exact H1|]. exact (IH _ _ _ _ Hin H2).
Qed.
Lemma adj_ok_head_flag rest x x' l : (cdecl x = true -> cdecl x' = true) -> adj_ok rest x l -> adj_ok rest x' l.
Proof.
  destruct l as [|[j y] tl]; [trivial|]. cbn [adj_ok]. intros Hf [[H|[H1 H2]] H3]; split; auto.
Qed.
Lemma adj_ok_head_new rest x' y (tl : tagged) : cdecl y = false -> adj_ok rest y tl -> adj_ok rest x' tl.
Proof.
  destruct tl as [|[j z] tl]; [trivial|]. cbn [adj_ok]. intros Hf [[H|[H1 _]] H3]; [split; [left; exact H|exact H3]|congruence].
Qed.

Lemma all_numok_app : forall l0 x jl a m, all_numok x (l0 ++ (jl, a) :: m) <-> all_numok x (l0 ++ [(jl, a)]) /\ all_numok a m.
Proof.
  induction l0 as [|[j z] l0 IH]; intros x jl a m; cbn [app all_numok].
  - destruct m as [|[k w] m]; cbn [all_numok]; tauto.
  - rewrite (IH z jl a m). tauto.
Qed.
Lemma all_numok_last : forall l0 x jl a a', numok a' -> all_numok x (l0 ++ [(jl, a)]) -> all_numok x (l0 ++ [(jl, a')]).
Proof.
  induction l0 as [|[j z] l0 IH]; intros x jl a a' Hn H; cbn [app all_numok] in *.
  - tauto.
  - destruct H as [H1 H2]. split; [exact H1|]. exact (IH _ _ _ _ Hn H2).
Qed.
Lemma all_numok_head x x' l : numok x' -> all_numok x l -> all_numok x' l.
Proof. destruct l as [|[j y] tl]; cbn [all_numok]; tauto. Qed.
Lemma all_numok_hd x l : all_numok x l -> numok x.
Proof. destruct l as [|[j y] tl]; cbn [all_numok]; tauto. Qed.
Lemma all_numok_last_ok : forall l0 x jl a, all_numok x (l0 ++ [(jl, a)]) -> numok a.
Proof.
  induction l0 as [|[j z] l0 IH]; intros x jl a H; cbn [app all_numok] in *; [tauto|]. destruct H as [_ H]. exact (IH _ _ _ H).
Qed.
Lemma numok_mark a : numok a -> numok (mark a).
Proof. exact (fun H => H). Qed.
Lemma numok_folded i va vb : numok (folded i va vb).
Proof. intros v _. reflexivity. Qed.

(* ---- filters ---- *)
Lemma notin_app used i q : notin (used ++ [i]) q = notin used q && negb (Nat.eqb q i).
Proof. unfold notin. rewrite existsb_app. cbn [existsb]. rewrite orb_false_r, negb_orb. reflexivity. Qed.
Lemma filter_and {A} (f g : A -> bool) l : filter (fun q => f q && g q) l = filter g (filter f l).
Proof.
  induction l as [|a l IH]; [reflexivity|]. cbn [filter]. destruct (f a); cbn [andb filter]; [destruct (g a); rewrite IH; reflexivity|exact IH].
Qed.
Lemma filter_ne_notin i : forall l, ~ In i l -> filter (fun q => negb (Nat.eqb q i)) l = l.
Proof.
  induction l as [|a l IH]; intros H; [reflexivity|]. cbn [filter].
  destruct (Nat.eqb_spec a i) as [E|_]; [exfalso; apply H; left; exact E|]. cbn [negb]. rewrite IH; [reflexivity|]. intros Hi. apply H. right. exact Hi.
Qed.
Lemma tids_app (a b : tagged) : tids (a ++ b) = tids a ++ tids b.
Proof. apply map_app. Qed.

(* ---- one step ---- *)
Lemma cstep_inv (done rest used : list nat) i x l :
  sched_sorted keyb (done ++ i :: rest) -> NoDup (done ++ i :: rest) ->
  (forall q, q < length ops -> In q (done ++ i :: rest)) ->
  (forall q, In q (done ++ i :: rest) -> q < length ops) ->
  Inv (i :: rest) used x l ->
  let '(x', l', f) := cstep i x l in
  Inv rest (if f then used ++ [i] else used) x' l' /\ R (pvs x' l') (pvs x l).
Proof.
  intros HS ND Hall Hlt [Hinc Hids Hrest Hadj Hnum].
  assert (Hi : i < length ops) by (apply Hlt; apply in_or_app; right; left; reflexivity).
  assert (Hnotrest : ~ In i rest).
  { apply NoDup_remove_2 in ND. intros H. apply ND. apply in_or_app. right. exact H. }
  destruct (sorted_split done i rest HS) as [Hdone Hafter].
  assert (Hin : In i (tids l)) by (apply Hrest; left; reflexivity).
  apply in_map_iff in Hin. destruct Hin as ([i' y] & Ei & Hin). cbn in Ei. subst i'.
  apply in_split in Hin. destruct Hin as (l1 & tl & El). subst l.
  destruct (inc_notin_prefix _ _ _ _ _ Hinc) as [Hn1 Hn2].
  assert (Hsub : forall j, In j (tids (l1 ++ (i, y) :: tl)) -> In j (i :: rest) -> j <> i -> In j rest).
  { intros j _ [E|H] Hne; [congruence|exact H]. }
  (* the right neighbour, when the operator is applied *)
  assert (Hright : cdecl y = false -> adj_ok (i :: rest) y tl -> headle (sem tl) (opsf i)).
  { intros Hy Ha. destruct tl as [|[jr z] tl']; [exact I|]. cbn [sem map headle fst]. cbn [adj_ok] in Ha.
    destruct Ha as [[Hj|[Hj _]] _]; [|congruence].
    assert (Hjr : In jr (@ids cn (l1 ++ (i, y) :: (jr, z) :: tl'))).
    { unfold ids. rewrite map_app. apply in_or_app. right. right. left. reflexivity. }
    assert (Hlt' : i < jr).
    { replace (l1 ++ (i, y) :: (jr, z) :: tl') with ((l1 ++ []) ++ (i, y) :: (jr, z) :: tl') in Hinc by (rewrite app_nil_r; reflexivity).
      rewrite app_nil_r in Hinc. exact (inc_lt_adjacent _ _ _ _ _ _ _ Hinc). }
    destruct Hj as [E|Hj]; [lia|].
    apply keyb_le_raw; [exact Hi|apply Hlt; apply in_or_app; right; right; exact Hj|].
    destruct (Hafter jr Hj) as [H|[H _]]; lia. }
  destruct l1 as [|p1 l1'] eqn:E1.
  - (* the operator is the first of the chain *)
    cbn [app] in *. rewrite cstep_head. cbn [adj_ok] in Hadj. destruct Hadj as [_ Hadj].
    destruct (foldable x y) as [[va vb]|] eqn:Ef.
    + destruct (foldable_spec _ _ _ _ Ef) as (Kx & Ky & Dx & Dy).
      assert (Nx : numok x) by (cbn [all_numok] in Hnum; tauto).
      assert (Ny : numok y) by (cbn [all_numok] in Hnum; destruct Hnum as [_ H]; exact (all_numok_hd _ _ H)).
      split.
      * constructor.
        -- destruct Hinc as [_ Hinc]. apply (inc_weaken cn (fun _ a _ => a) (S i)); [lia|exact Hinc].
        -- cbn [tids map] in Hids. rewrite (filter_ext _ _ (notin_app used i)), filter_and, <- Hids. cbn [filter]. rewrite Nat.eqb_refl. cbn [negb].
           symmetry. apply filter_ne_notin. exact Hn2.
        -- intros j Hj. assert (In j (tids ((i, y) :: tl))) by (apply Hrest; right; exact Hj). cbn in H. destruct H as [E|H]; [subst; contradiction|exact H].
        -- apply (adj_ok_head_new rest (folded i va vb) y tl Dy). apply (adj_ok_weaken (i :: rest)); [|exact Hadj].
           intros j Hj [E|H]; [subst; contradiction|exact H].
        -- cbn [all_numok] in Hnum. destruct Hnum as [_ Hnum]. apply (all_numok_head y); [apply numok_folded|exact Hnum].
      * unfold pvs. change (sem ((i, y) :: tl)) with ((opsf i, cval y) :: sem tl). unfold cval at 1. cbn [folded cnode]. unfold nval. cbn [nkind nun apply_un fold_right].
        rewrite <- (cval_num x va Nx Kx), <- (cval_num y vb Ny Ky).
        apply (pv_fold_head C R R_refl R_bin R_un (length (sem tl))); [lia|]. apply Hright; assumption.
    + split; [|apply R_refl].
      constructor.
      * apply (inc_same_ids ((i, y) :: tl)); [reflexivity|exact Hinc].
      * exact Hids.
      * intros j Hj. change (tids ((i, mark y) :: tl)) with (tids ((i, y) :: tl)). apply Hrest. right. exact Hj.
      * cbn [adj_ok]. split; [right; split; reflexivity|].
        apply (adj_ok_head_flag rest y (mark y)); [reflexivity|]. apply (adj_ok_weaken (i :: rest)); [|exact Hadj].
        intros j Hj [E|H]; [subst; contradiction|exact H].
      * cbn [all_numok] in *. destruct Hnum as [Hx Hy]. split; [exact Hx|]. apply (all_numok_head y); [exact (all_numok_hd _ _ Hy)|exact Hy].
  - (* the operator has a left neighbour *)
    rewrite <- E1 in *. assert (Hne1 : l1 <> []) by (rewrite E1; discriminate). clear E1 p1 l1'.
    destruct (exists_last Hne1) as (l0 & [jl a] & ->). clear Hne1.
    rewrite <- app_assoc in *. cbn [app] in *.
    assert (Hjli : jl < i) by exact (inc_lt_adjacent _ _ _ _ _ _ _ Hinc).
    assert (Hn0 : ~ In i (tids l0)).
    { intros H. apply Hn1. rewrite tids_app. apply in_or_app. left. exact H. }
    rewrite (cstep_mid i l0 x jl a y tl Hn0 ltac:(lia)).
    apply adj_ok_app in Hadj. destruct Hadj as [Hadj0 Hadj1]. cbn [adj_ok] in Hadj1. destruct Hadj1 as [_ Hadj1].
    apply all_numok_app in Hnum. destruct Hnum as [Hnum0 Hnum1].
    assert (Na : numok a) by exact (all_numok_last_ok _ _ _ _ Hnum0).
    assert (Ny : numok y) by (cbn [all_numok] in Hnum1; destruct Hnum1 as [_ H]; exact (all_numok_hd _ _ H)).
    assert (Hweak0 : adj_ok rest x (l0 ++ [(jl, a)])).
    { apply (adj_ok_weaken (i :: rest)); [|exact Hadj0]. intros j Hj [E|H]; [|exact H]. subst j. exfalso. apply Hn1. exact Hj. }
    assert (Hweak1 : adj_ok rest y tl).
    { apply (adj_ok_weaken (i :: rest)); [|exact Hadj1]. intros j Hj [E|H]; [subst; contradiction|exact H]. }
    destruct (foldable a y) as [[va vb]|] eqn:Ef.
    + destruct (foldable_spec _ _ _ _ Ef) as (Ka & Ky & Da & Dy).
      assert (Hjl : In jl rest) by exact (adj_ok_last_in rest l0 x jl a Da Hweak0).
      split.
      * constructor.
        -- replace (l0 ++ (jl, folded i va vb) :: tl) with ((l0 ++ [(jl, folded i va vb)]) ++ tl) by (rewrite <- app_assoc; reflexivity).
           apply (inc_same_ids ((l0 ++ [(jl, a)]) ++ tl)); [rewrite !tids_app; reflexivity|].
           apply (inc_remove _ 0 i y tl). rewrite <- app_assoc. exact Hinc.
        -- rewrite (filter_ext _ _ (notin_app used i)), filter_and, <- Hids.
           rewrite !tids_app. cbn [tids map fst]. rewrite filter_app. cbn [filter].
           destruct (Nat.eqb_spec jl i) as [E|_]; [lia|]. cbn [negb filter]. rewrite Nat.eqb_refl. cbn [negb].
           rewrite (filter_ne_notin i (tids l0)) by exact Hn0. rewrite (filter_ne_notin i (map fst tl)) by exact Hn2. reflexivity.
        -- intros j Hj. assert (H : In j (tids (l0 ++ (jl, a) :: (i, y) :: tl))) by (apply Hrest; right; exact Hj).
           rewrite tids_app in H |- *. apply in_app_or in H. apply in_or_app. destruct H as [H|[H|[H|H]]]; [left; exact H|right; left; exact H| |right; right; exact H].
           cbn in H. subst j. contradiction.
        -- apply adj_ok_app. split; [apply (adj_ok_last_new rest l0 x jl a); assumption|].
           apply (adj_ok_head_new rest (folded i va vb) y tl Dy Hweak1).
        -- apply all_numok_app. split; [apply (all_numok_last l0 x jl a); [apply numok_folded|exact Hnum0]|].
           cbn [all_numok] in Hnum1. destruct Hnum1 as [_ Hnum1]. apply (all_numok_head y); [apply numok_folded|exact Hnum1].
      * unfold pvs, sem. rewrite !map_app. cbn [map fst snd]. fold (sem l0). fold (sem tl).
        unfold cval at 2. cbn [folded cnode]. unfold nval at 1. cbn [nkind nun apply_un fold_right].
        rewrite <- (cval_num a va Na Ka), <- (cval_num y vb Ny Ky).
        apply (pv_fold_mid C R R_refl R_bin R_un (S (length (sem l0) + length (sem tl)))); [lia| |].
        -- apply Hright; [exact Dy|exact Hadj1].
        -- apply (left_condition done rest i jl HS Hall Hi Hjli Hjl).
           intros q Hq. assert (Hq' : In q (done ++ i :: rest)) by (apply Hall; lia).
           apply in_app_or in Hq'. destruct Hq' as [H|[H|H]]; [exact H|lia|].
           exfalso. apply (inc_mid_gap l0 0 jl a i y tl q Hinc Hq). apply Hrest. right. exact H.
    + split; [|unfold pvs, sem; rewrite !map_app; cbn [map fst snd]; rewrite !cval_mark; apply R_refl].
      constructor.
      * apply (inc_same_ids (l0 ++ (jl, a) :: (i, y) :: tl)); [rewrite !tids_app; reflexivity|exact Hinc].
      * rewrite <- Hids. rewrite !tids_app. reflexivity.
      * intros j Hj. replace (tids (l0 ++ (jl, mark a) :: (i, mark y) :: tl)) with (tids (l0 ++ (jl, a) :: (i, y) :: tl)) by (rewrite !tids_app; reflexivity).
        apply Hrest. right. exact Hj.
      * apply adj_ok_app. split; [apply (adj_ok_last_flag rest l0 x jl a (mark a)); [right; reflexivity|exact Hweak0]|].
        cbn [adj_ok]. split; [right; split; reflexivity|]. apply (adj_ok_head_flag rest y (mark y)); [reflexivity|exact Hweak1].
      * apply all_numok_app. split; [apply (all_numok_last l0 x jl a); [exact Na|exact Hnum0]|].
        cbn [all_numok] in *. destruct Hnum1 as [_ Hnum1]. split; [exact Na|]. apply (all_numok_head y); [exact Ny|exact Hnum1].
Qed.

(* ---- the whole schedule ---- *)
Theorem crun_inv : forall rest done used x l,
  sched_sorted keyb (done ++ rest) -> NoDup (done ++ rest) ->
  (forall q, q < length ops <-> In q (done ++ rest)) ->
  Inv rest used x l ->
  let '(x', l', used') := crun rest x l used in
  Inv [] used' x' l' /\ R (pvs x' l') (pvs x l).
Proof.
  induction rest as [|i rest IH]; intros done used x l HS ND Hall HI.
  - cbn [crun]. split; [exact HI|apply R_refl].
  - cbn [crun].
    pose proof (cstep_inv done rest used i x l HS ND (fun q H => proj1 (Hall q) H) (fun q H => proj2 (Hall q) H) HI) as Hstep.
    destruct (cstep i x l) as [[x1 l1] f].
    destruct Hstep as [HI1 HR1].
    assert (E : done ++ i :: rest = (done ++ [i]) ++ rest) by (rewrite <- app_assoc; reflexivity).
    rewrite E in HS, ND, Hall.
    pose proof (IH (done ++ [i]) (if f then used ++ [i] else used) x1 l1 HS ND Hall HI1) as Hrun.
    destruct (crun rest x1 l1 (if f then used ++ [i] else used)) as [[x2 l2] used2].
    destruct Hrun as [HI2 HR2]. split; [exact HI2|]. eapply R_trans; [exact HR2|exact HR1].
Qed.
End CompileMachine.
