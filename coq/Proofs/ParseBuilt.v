(* Proofs/ParseBuilt.v — what the deep parser builds, for ANY token list it accepts: every level in compile normal form,
   carrying a sorted variable list within the parsed variables that contains the names and lists below it.  Hence the
   deep parse of every well-formed tree is an expression the differentiation theorem applies to. *)
From Coq Require Import List Arith Lia Bool Sorted.
Import ListNotations.
From Exmex.Model Require Import Base EvalBinary Lexer Flat Deep.
From Exmex.Spec Require Import RefSem.
From Exmex.Proofs Require Import Vars DeepVars DeepSem DeepCompile DeepSubs CompileRefine NormalForm Hereditary.
Open Scope nat_scope.

Section ParseBuilt.
Context {D : Type}.
Variable C : carrier D.
Variable tb : optable.
Variable gall : list str.

Definition okl_ (v : list str) : Prop := StronglySorted str_lt v /\ incl v gall.
Fixpoint vl (e : deepex D) : Prop :=
  match e with
  | DE nodes _ _ vars =>
      okl_ vars /\
      (fix all (l : list (dnode D)) : Prop :=
         match l with [] => True | n :: tl => (match n with DExpr c => vl c | _ => True end) /\ all tl end) nodes
  end.
Definition nvl (n : dnode D) : Prop := match n with DExpr c => vl c | _ => True end.
Lemma vl_unfold nodes bops uop vars : vl (DE nodes bops uop vars) <-> okl_ vars /\ Forall nvl nodes.
Proof.
  cbn [vl].
  assert (H : (fix all (l : list (dnode D)) : Prop :=
                 match l with [] => True | n :: tl => (match n with DExpr c => vl c | _ => True end) /\ all tl end) nodes <-> Forall nvl nodes).
  { induction nodes as [|n tl IH]; [split; [constructor|trivial]|]. split.
    - intros [H1 H2]. constructor; [exact H1|apply IH; exact H2].
    - intros H. inversion H; subst. split; [assumption|apply IH; assumption]. }
  rewrite H. reflexivity.
Qed.
Lemma vl_top e : vl e -> okl_ (dvars e).
Proof. destruct e. rewrite vl_unfold. cbn [dvars]. tauto. Qed.

Lemma lift_vl : forall k (e : deepex D), dsize e <= k -> vl e -> vl (lift_nodes e).
Proof.
  induction k as [|k IH]; intros e Hs Hv; [destruct e; cbn in Hs; lia|].
  destruct e as [nodes bops uop vars]. rewrite vl_unfold in Hv. destruct Hv as [Hok Hn].
  assert (Hnode : forall n, In n nodes -> nvl n -> nvl (lift_node n)).
  { intros n Hin Hnn. destruct n as [c|d|i x]; try exact I.
    destruct c as [ns b1 u1 v1]. destruct ns as [|n1 [|n2 nt]]; try exact Hnn. destruct u1; [|exact Hnn].
    cbn [nvl] in Hnn. rewrite vl_unfold in Hnn. destruct Hnn as [Hv1 Hc]. inversion Hc as [|? ? Hn1 _]; subst.
    cbn [lift_node]. destruct n1 as [e_deeper|d|i x]; try exact I. cbn [nvl] in Hn1.
    assert (Hsd : dsize e_deeper <= k).
    { pose proof (dsize_in nodes bops uop vars _ Hin) as H2. pose proof (dsize_in [DExpr e_deeper] b1 [] v1 e_deeper (or_introl eq_refl)) as H3. lia. }
    pose proof (IH e_deeper Hsd Hn1) as L1. cbn zeta.
    assert (Hwrap : nvl (DExpr (DE [DExpr (lift_nodes e_deeper)] b1 [] v1))).
    { cbn [nvl]. rewrite vl_unfold. split; [exact Hv1|]. constructor; [exact L1|constructor]. }
    destruct (dnodes (lift_nodes e_deeper)) as [|m [|? ?]]; destruct (duop (lift_nodes e_deeper)); try exact Hwrap. exact L1. }
  assert (Hmap : vl (DE (map lift_node nodes) bops uop vars)).
  { rewrite vl_unfold. split; [exact Hok|]. apply Forall_forall. intros m Hm. apply in_map_iff in Hm. destruct Hm as (n & <- & Hin).
    rewrite Forall_forall in Hn. exact (Hnode n Hin (Hn n Hin)). }
  rewrite lift_nodes_unfold.
  destruct nodes as [|n [|n' tl]]; try exact Hmap. destruct uop; [|exact Hmap].
  destruct n as [e1|d|i x].
  - inversion Hn as [|? ? H1 _]; subst. exact H1.
  - rewrite vl_unfold. split; assumption.
  - rewrite vl_unfold. split; assumption.
Qed.
Lemma dcompile_loop_nvl : forall sigma i num_inds (nodes : list (dnode D)) bops declined used nodes' used',
  Forall nvl nodes -> dcompile_loop C sigma i num_inds nodes bops declined used = Ok (nodes', used') -> Forall nvl nodes'.
Proof.
  induction sigma as [|b stl IH]; intros i num_inds nodes bops declined used nodes' used' HF H; cbn [dcompile_loop] in H.
  - inversion H; subst. exact HF.
  - destruct (nth_error num_inds i) as [num_idx|]; [|discriminate].
    destruct (nth_error nodes num_idx) as [n1|]; [|discriminate]. destruct (nth_error nodes (S num_idx)) as [n2|]; [|discriminate].
    destruct n1 as [?|a|? ?]; try exact (IH _ _ _ _ _ _ _ _ HF H).
    destruct n2 as [?|b'|? ?]; try exact (IH _ _ _ _ _ _ _ _ HF H).
    destruct (negb _); [|exact (IH _ _ _ _ _ _ _ _ HF H)].
    destruct (nth_error bops b) as [o|]; [|discriminate].
    refine (IH _ _ _ _ _ _ _ _ _ H). rewrite Forall_forall in *. intros x Hx.
    apply In_remove_nth in Hx. apply In_set_nth in Hx. destruct Hx as [->|Hx]; [exact I|exact (HF x Hx)].
Qed.
Theorem dcompile_vl e0 e' : vl e0 -> dcompile C e0 = Ok e' -> vl e'.
Proof.
  intros Hv H. pose proof (lift_vl (dsize e0) e0 (le_n _) Hv) as Hl. unfold dcompile in H.
  destruct (lift_nodes e0) as [nodes bops uop vars]. rewrite vl_unfold in Hl. destruct Hl as [Hok Hn0].
  destruct (dcompile_loop C _ 0 _ nodes bops _ []) as [[nodes' used]| |] eqn:El; cbn [bind] in H; try discriminate.
  pose proof (dcompile_loop_nvl _ _ _ _ _ _ _ _ _ Hn0 El) as Hn.
  destruct nodes' as [|m [|m' mt]].
  - inversion H; subst. rewrite vl_unfold. split; assumption.
  - destruct m as [c|d|i x]; inversion H; subst; rewrite vl_unfold; (split; [exact Hok|]); try exact Hn. constructor; [exact I|constructor].
  - destruct m; inversion H; subst; rewrite vl_unfold; split; assumption.
Qed.
Definition node_in (n : dnode D) : Prop := match n with DExpr c => vl c | DVar _ x => In x gall | DNum _ => True end.
Lemma new_deepex_vl nodes bops uop e : Forall node_in nodes -> new_deepex C nodes bops uop = Ok e -> vl e.
Proof.
  intros Hn H. unfold new_deepex in H.
  assert (H0 : vl (DE nodes bops uop (sort_strs (flat_map node_var_names nodes)))).
  { rewrite vl_unfold. split.
    - split; [apply sort_strs_spec|]. intros y Hy. apply (proj1 (proj2 (proj2 (sort_strs_spec _)) y)) in Hy. apply in_flat_map in Hy. destruct Hy as (n & Hin & Hy).
      rewrite Forall_forall in Hn. specialize (Hn n Hin). destruct n as [c|d|i x]; cbn [node_var_names node_in] in *.
      + exact (proj2 (vl_top c Hn) y Hy).
      + destruct Hy.
      + destruct Hy as [<-|[]]. exact Hn.
    - eapply Forall_impl; [|exact Hn]. intros n. destruct n; cbn; tauto. }
  destruct nodes as [|n nt].
  - destruct bops; [destruct uop|].
    + inversion H; subst. rewrite vl_unfold. split; [split; [constructor|intros y []]|constructor].
    + cbn in H. discriminate.
    + destruct (negb _); [discriminate|]. exact (dcompile_vl _ e H0 H).
  - destruct (negb _); [discriminate|]. exact (dcompile_vl _ e H0 H).
Qed.

(* ---- the parser ---- *)
Definition good_node (n : dnode D) : Prop :=
  match n with DExpr c => hc c /\ nf c /\ vl c | DVar _ x => In x gall | DNum _ => True end.
Lemma good_parts nodes : Forall good_node nodes ->
  Forall (fun n => match n with DExpr c => hc c | _ => True end) nodes /\ Forall (@nnfw D) nodes /\ Forall node_in nodes.
Proof.
  intros H. repeat split; (eapply Forall_impl; [|exact H]); intros n; destruct n; cbn; tauto.
Qed.
Lemma new_deepex_good nodes bops uop e : Forall good_node nodes -> new_deepex C nodes bops uop = Ok e -> hc e /\ nf e /\ vl e.
Proof.
  intros Hg H. destruct (good_parts nodes Hg) as (H1 & H2 & H3).
  split; [exact (new_deepex_hc C nodes bops uop e H1 H)|]. split; [exact (new_deepex_nf C nodes bops uop e H2 H)|exact (new_deepex_vl nodes bops uop e H3 H)].
Qed.
Lemma var_index_in vars x i : var_index vars x = Ok i -> In x vars.
Proof. unfold var_index. destruct (index_of x vars 0) eqn:E; [|discriminate]. intros _. exact (index_of_In _ _ _ _ E). Qed.

Theorem dparse_good : forall fuel left ts rnodes rbops uop e rest,
  Forall good_node rnodes -> dparse C tb fuel left ts gall rnodes rbops uop = Ok (e, rest) -> hc e /\ nf e /\ vl e.
Proof.
  induction fuel as [|fuel IH]; intros left ts rnodes rbops uop e rest Hg H; [discriminate|].
  cbn [dparse] in H.
  assert (Hfin : forall r, (do e0 <- new_deepex C (rev rnodes) (rev rbops) uop; Ok (e0, r)) = Ok (e, rest) -> hc e /\ nf e /\ vl e).
  { intros r Hr. destruct (new_deepex C (rev rnodes) (rev rbops) uop) as [e0| |] eqn:En; cbn [bind] in Hr; try discriminate. inversion Hr; subst.
    apply (new_deepex_good (rev rnodes) (rev rbops) uop e); [|exact En]. apply Forall_rev. exact Hg. }
  destruct ts as [|t tl]; [exact (Hfin _ H)|].
  destruct t as [d| | |k|x].
  - refine (IH _ _ _ _ _ _ _ _ H); constructor; [exact I|exact Hg].
  - destruct (dparse C tb fuel None tl gall [] [] []) as [[e1 rest1]| |] eqn:E1; cbn [bind] in H; try discriminate.
    assert (G1 : hc e1 /\ nf e1 /\ vl e1) by (refine (IH _ _ _ _ _ _ _ _ E1); constructor).
    refine (IH _ _ _ _ _ _ _ _ H); constructor; [exact G1|exact Hg].
  - exact (Hfin _ H).
  - destruct (is_operator_binary tb k left) as [b| |]; cbn [bind] in H; try discriminate.
    destruct b.
    + destruct (mk_bop tb k) as [o| |]; cbn [bind] in H; try discriminate. exact (IH _ _ _ _ _ _ _ Hg H).
    + destruct (negb (has_un tb k)); [discriminate|].
      destruct (skipn (length (k :: more_unaries tb tl) - 1) tl) as [|a tl2]; [discriminate|].
      destruct a as [d| | |k'|x]; try discriminate.
      * refine (IH _ _ _ _ _ _ _ _ H); constructor; [exact I|exact Hg].
      * destruct (dparse C tb fuel None tl2 gall [] [] (k :: more_unaries tb tl)) as [[e1 rest1]| |] eqn:E1; cbn [bind] in H; try discriminate.
        assert (G1 : hc e1 /\ nf e1 /\ vl e1) by (refine (IH _ _ _ _ _ _ _ _ E1); constructor).
        refine (IH _ _ _ _ _ _ _ _ H); constructor; [exact G1|exact Hg].
      * destruct (dparse C tb fuel None tl2 gall [] [] (k :: more_unaries tb tl)) as [[e1 rest1]| |] eqn:E1; cbn [bind] in H; try discriminate.
        assert (G1 : hc e1 /\ nf e1 /\ vl e1) by (refine (IH _ _ _ _ _ _ _ _ E1); constructor).
        refine (IH _ _ _ _ _ _ _ _ H); constructor; [exact G1|exact Hg].
      * destruct (var_index gall x) as [i| |] eqn:Ei; cbn [bind] in H; try discriminate.
        destruct (new_deepex C [DVar i x] [] (k :: more_unaries tb tl)) as [e1| |] eqn:E1; cbn [bind] in H; try discriminate.
        assert (G1 : hc e1 /\ nf e1 /\ vl e1) by (refine (new_deepex_good [DVar i x] [] _ e1 _ E1); constructor; [exact (var_index_in _ _ _ Ei)|constructor]).
        refine (IH _ _ _ _ _ _ _ _ H); constructor; [exact G1|exact Hg].
  - destruct (var_index gall x) as [i| |] eqn:Ei; cbn [bind] in H; try discriminate.
    refine (IH _ _ _ _ _ _ _ _ H); constructor; [exact (var_index_in _ _ _ Ei)|exact Hg].
Qed.

(* with the structural well-formedness of the parse (operand counts, operator records, indices), the variable lists *)
Lemma dwf_okl (f : dbop -> Prop) (okv : nat -> str -> Prop) (okvs : list str -> Prop) :
  forall e : deepex D, dwf f okv okvs e -> vl e -> dwf f okv okl_ e.
Proof.
  induction e as [nodes bops uop vars IH] using deep_ind. intros Hw Hv. rewrite dwf_unfold in *. rewrite vl_unfold in Hv.
  destruct Hw as (Hl & _ & Hf & Hn). destruct Hv as [Hok Hvn]. split; [exact Hl|]. split; [exact Hok|]. split; [exact Hf|].
  rewrite Forall_forall in *. intros n Hin. specialize (Hn n Hin). specialize (Hvn n Hin). destruct n as [c|d|i x]; cbn [nwf nvl] in *; auto.
Qed.
End ParseBuilt.
