(* Proofs/Listings.v — operator listings (C03): sorted and duplicate free on every expression of either form; their
   contents are exactly the operator names occurring in the expression; flattening a deep expression (from_deepex)
   preserves all three listings. *)
From Coq Require Import List Arith ZArith Lia Sorted.
Import ListNotations.
From Exmex.Model Require Import Base EvalBinary Lexer Flat Deep Convert.
From Exmex.Proofs Require Import Vars DeepVars DeepSem FlattenSem.
Open Scope nat_scope.

Section Listings.
Context {D : Type}.
Variable C : carrier D.
Variable tb : optable.

(* operator indices occurring in a deep expression, all levels *)
Fixpoint bnames (e : deepex D) : list nat :=
  match e with
  | DE nodes bops _ _ =>
      (fix go (l : list (dnode D)) : list nat :=
         match l with [] => [] | DExpr e' :: tl => bnames e' ++ go tl | _ :: tl => go tl end) nodes ++ map bidx bops
  end.
Fixpoint unames (e : deepex D) : list nat :=
  match e with
  | DE nodes _ uop _ =>
      (fix go (l : list (dnode D)) : list nat :=
         match l with [] => [] | DExpr e' :: tl => unames e' ++ go tl | _ :: tl => go tl end) nodes ++ uop
  end.
Definition sub_names (f : deepex D -> list nat) (n : dnode D) : list nat := match n with DExpr e' => f e' | _ => [] end.
Lemma bnames_unfold nodes bops uop vars : bnames (DE nodes bops uop vars) = flat_map (sub_names bnames) nodes ++ map bidx bops.
Proof. cbn [bnames]. f_equal. induction nodes as [|n tl IH]; [reflexivity|]. destruct n; cbn [flat_map sub_names]; rewrite <- ?IH; reflexivity. Qed.
Lemma unames_unfold nodes bops uop vars : unames (DE nodes bops uop vars) = flat_map (sub_names unames) nodes ++ uop.
Proof. cbn [unames]. f_equal. induction nodes as [|n tl IH]; [reflexivity|]. destruct n; cbn [flat_map sub_names]; rewrite <- ?IH; reflexivity. Qed.

Local Notation rp := (repr_of tb).

(* ---- deep listings: what they contain ---- *)
Lemma In_sort l y : In y (sort_strs l) <-> In y l.
Proof. apply sort_strs_spec. Qed.

Lemma d_binary_raw_In : forall e y, In y (d_binary_reprs_raw tb e) <-> In y (map rp (bnames e)).
Proof.
  induction e as [nodes bops uop vars IH] using deep_ind. intros y. rewrite bnames_unfold. cbn [d_binary_reprs_raw].
  rewrite map_app, !in_app_iff, map_map.
  match goal with |- In y (?F nodes) \/ _ <-> _ => assert (E : In y (F nodes) <-> In y (map rp (flat_map (sub_names bnames) nodes))) end.
  { induction nodes as [|n tl IHn]; [reflexivity|].
    destruct n as [e'|d|i x]; cbn [flat_map sub_names]; rewrite ?app_nil_l; try (apply IHn; intros e'' H; apply IH; right; exact H).
    rewrite map_app, !in_app_iff, In_sort, (IH e' (or_introl eq_refl)). rewrite (IHn (fun e'' H => IH e'' (or_intror H))). reflexivity. }
  rewrite E. reflexivity.
Qed.
Lemma d_unary_raw_In : forall e y, In y (d_unary_reprs_raw tb e) <-> In y (map rp (unames e)).
Proof.
  induction e as [nodes bops uop vars IH] using deep_ind. intros y. rewrite unames_unfold. cbn [d_unary_reprs_raw].
  rewrite map_app, !in_app_iff.
  match goal with |- In y (?F nodes) \/ _ <-> _ => assert (E : In y (F nodes) <-> In y (map rp (flat_map (sub_names unames) nodes))) end.
  { induction nodes as [|n tl IHn]; [reflexivity|].
    destruct n as [e'|d|i x]; cbn [flat_map sub_names]; rewrite ?app_nil_l; try (apply IHn; intros e'' H; apply IH; right; exact H).
    rewrite map_app, !in_app_iff, In_sort, (IH e' (or_introl eq_refl)). rewrite (IHn (fun e'' H => IH e'' (or_intror H))). reflexivity. }
  rewrite E. reflexivity.
Qed.

Theorem deep_listings (e : deepex D) :
  d_binary_reprs tb e = sort_strs (map rp (bnames e)) /\
  d_unary_reprs tb e = sort_strs (map rp (unames e)) /\
  d_operator_reprs tb e = sort_strs (map rp (bnames e ++ unames e)).
Proof.
  assert (Hb : d_binary_reprs tb e = sort_strs (map rp (bnames e))) by (apply sort_strs_ext; intros y; apply d_binary_raw_In).
  assert (Hu : d_unary_reprs tb e = sort_strs (map rp (unames e))) by (apply sort_strs_ext; intros y; apply d_unary_raw_In).
  split; [exact Hb|]. split; [exact Hu|]. unfold d_operator_reprs. rewrite Hb, Hu. apply sort_strs_ext. intros y.
  rewrite map_app, !in_app_iff, !In_sort. reflexivity.
Qed.

(* ---- flat listings ---- *)
Definition fbnames (fx : flatex D) : list nat := map fidx (fops fx).
Definition funames (fx : flatex D) : list nat := flat_map fun_ (fops fx) ++ flat_map (@nun D) (fnodes fx).
Lemma map_flat_map {A B X} (f : A -> B) (g : X -> list A) l : map f (flat_map g l) = flat_map (fun x => map f (g x)) l.
Proof. induction l as [|x l IH]; [reflexivity|]. cbn [flat_map]. rewrite map_app, IH. reflexivity. Qed.
Theorem flat_listings (fx : flatex D) :
  f_binary_reprs tb fx = sort_strs (map rp (fbnames fx)) /\
  f_unary_reprs tb fx = sort_strs (map rp (funames fx)) /\
  f_operator_reprs tb fx = sort_strs (map rp (fbnames fx ++ funames fx)).
Proof.
  unfold f_binary_reprs, f_unary_reprs, f_operator_reprs, fbnames, funames.
  rewrite !map_app, !map_map, !map_flat_map. repeat split; reflexivity.
Qed.

(* every listing is strictly increasing, hence duplicate free *)
Theorem listings_sorted (e : deepex D) (fx : flatex D) :
  StronglySorted str_lt (d_binary_reprs tb e) /\ StronglySorted str_lt (d_unary_reprs tb e) /\ StronglySorted str_lt (d_operator_reprs tb e) /\
  StronglySorted str_lt (f_binary_reprs tb fx) /\ StronglySorted str_lt (f_unary_reprs tb fx) /\ StronglySorted str_lt (f_operator_reprs tb fx).
Proof. repeat split; apply sort_strs_spec. Qed.
Theorem listings_nodup (e : deepex D) (fx : flatex D) :
  NoDup (d_binary_reprs tb e) /\ NoDup (d_unary_reprs tb e) /\ NoDup (d_operator_reprs tb e) /\
  NoDup (f_binary_reprs tb fx) /\ NoDup (f_unary_reprs tb fx) /\ NoDup (f_operator_reprs tb fx).
Proof. repeat split; apply sort_strs_spec. Qed.

(* ---- flattening preserves the names ---- *)
Lemma rightmost_min_lt : forall (ops : list fop) pos best r,
  rightmost_min ops pos best = Some r -> (pos <= r < pos + length ops) \/ (exists k, best = Some (r, k)).
Proof.
  induction ops as [|o ops IH]; intros pos best r H; cbn [rightmost_min] in H.
  - right. destruct best as [[b k]|]; [|discriminate]. cbn in H. injection H as <-. exists k. reflexivity.
  - apply IH in H. cbn [length]. destruct H as [H|[k H]]; [left; lia|].
    destruct best as [[b bk]|].
    + destruct (Z.leb (fprio o) bk); [injection H as <- _; left; lia|right; exists k; exact H].
    + injection H as <- _. left. lia.
Qed.

Lemma update_fidx pos us : forall os : list fop, map fidx (update_nth pos (add_un us) os) = map fidx os.
Proof. revert pos. induction pos as [|pos IH]; intros [|o os]; cbn [update_nth map]; try reflexivity. rewrite IH. reflexivity. Qed.
Lemma update_fun pos us : forall os : list fop, pos < length os -> forall k,
  In k (flat_map fun_ (update_nth pos (add_un us) os)) <-> In k us \/ In k (flat_map fun_ os).
Proof.
  induction pos as [|pos IH]; intros [|o os] Hl k; cbn [length] in Hl; try lia; cbn [update_nth flat_map].
  - cbn [add_un fun_]. rewrite !in_app_iff. tauto.
  - rewrite !in_app_iff, (IH os ltac:(lia) k). tauto.
Qed.

Definition names_of (no : list (fnode D) * list fop) : list nat * list nat :=
  (map fidx (snd no), flat_map fun_ (snd no) ++ flat_map (@nun D) (fst no)).

Lemma fl_level_names (off : Z) : forall (l : list (dnode D)) (ops : list dbop) no,
  (forall e' off' no', In (DExpr e') l -> flatten_vecs e' off' = Ok no' ->
      (forall k, In k (fst (names_of no')) <-> In k (bnames e')) /\ (forall k, In k (snd (names_of no')) <-> In k (unames e'))) ->
  fl_level off l ops = Ok no ->
  (forall k, In k (fst (names_of no)) <-> In k (flat_map (sub_names bnames) l) \/ In k (map bidx (firstn (length l) ops))) /\
  (forall k, In k (snd (names_of no)) <-> In k (flat_map (sub_names unames) l)).
Proof.
  induction l as [|n tl IH]; intros ops no Hsub H.
  - cbn in H. injection H as <-. cbn. split; intros k; tauto.
  - rewrite fl_level_cons in H.
    destruct (fl_node off n) as [[ns os]| |] eqn:En; cbn [bind] in H; try discriminate.
    destruct (fl_level off tl (List.tl ops)) as [[ns' os']| |] eqn:Et; cbn [bind] in H; try discriminate.
    injection H as <-.
    destruct (IH (List.tl ops) (ns', os') (fun e' off' no' Hi => Hsub e' off' no' (or_intror Hi)) Et) as [I1 I2].
    assert (Hn : (forall k, In k (map fidx os) <-> In k (sub_names bnames n)) /\
                 (forall k, In k (flat_map fun_ os ++ flat_map (@nun D) ns) <-> In k (sub_names unames n))).
    { destruct n as [e'|d|i x]; cbn [fl_node sub_names] in *.
      - exact (Hsub e' _ _ (or_introl eq_refl) En).
      - injection En as <- <-. cbn. split; intros k; tauto.
      - injection En as <- <-. cbn. split; intros k; tauto. }
    destruct Hn as [N1 N2]. unfold names_of in *. cbn [fst snd] in *.
    split; intros k.
    + rewrite !map_app, !in_app_iff, I1, N1. cbn [flat_map length firstn]. rewrite in_app_iff.
      destruct ops as [|o otl]; cbn [own_op List.tl firstn map In]; [rewrite firstn_nil; cbn; tauto|].
      unfold shift_op. cbn [fidx]. tauto.
    + specialize (N2 k). specialize (I2 k). rewrite !flat_map_app, !in_app_iff in *. cbn [flat_map]. rewrite in_app_iff.
      assert (Ho : In k (flat_map fun_ (own_op off ops)) <-> False).
      { destruct ops as [|o otl]; cbn; tauto. }
      tauto.
Qed.

Section WithPreds.
Variable okop : dbop -> Prop.
Variable okvar : nat -> str -> Prop.
Variable okvars : list str -> Prop.
Theorem flatten_names : forall e off no, dwf okop okvar okvars e -> flatten_vecs e off = Ok no ->
  (forall k, In k (fst (names_of no)) <-> In k (bnames e)) /\ (forall k, In k (snd (names_of no)) <-> In k (unames e)).
Proof.
  induction e as [nodes bops uop vars IH] using deep_ind. intros off no Hwf H.
  rewrite dwf_unfold in Hwf. destruct Hwf as (Hlen & _ & _ & Hnodes).
  rewrite flatten_unfold in H. destruct (fl_level off nodes bops) as [[ns os]| |] eqn:El; cbn [bind] in H; try discriminate.
  assert (Hsub : forall e' off' no', In (DExpr e') nodes -> flatten_vecs e' off' = Ok no' ->
      (forall k, In k (fst (names_of no')) <-> In k (bnames e')) /\ (forall k, In k (snd (names_of no')) <-> In k (unames e'))).
  { intros e' off' no' Hi Hf. apply (IH e' Hi off' no'); [|exact Hf].
    rewrite Forall_forall in Hnodes. exact (Hnodes _ Hi). }
  destruct (fl_level_names off nodes bops (ns, os) Hsub El) as [L1 L2].
  rewrite firstn_all2 in L1 by lia. rewrite bnames_unfold, unames_unfold.
  unfold names_of in *. cbn [fst snd] in *. unfold fl_unary in H.
  destruct uop as [|u us].
  - injection H as <-. cbn [fst snd]. split; intros k; rewrite ?in_app_iff, ?app_nil_r; [rewrite L1; tauto|].
    specialize (L2 k). rewrite in_app_iff in L2. cbn [In]. tauto.
  - destruct (rightmost_min os 0 None) as [pos|] eqn:Er.
    + injection H as <-. cbn [fst snd]. destruct (rightmost_min_lt os 0 None pos Er) as [Hp|[k0 Hk]]; [|discriminate].
      split; intros k.
      * rewrite update_fidx, in_app_iff, L1. tauto.
      * specialize (L2 k). rewrite !in_app_iff in *. rewrite (update_fun pos (u :: us) os ltac:(lia) k). tauto.
    + destruct ns as [|n ntl]; [discriminate|]. injection H as <-. cbn [fst snd]. split; intros k.
      * rewrite in_app_iff, L1. tauto.
      * specialize (L2 k). rewrite !in_app_iff in *. cbn [flat_map nun] in *. rewrite !in_app_iff in *. change (u :: us ++ nun n) with ((u :: us) ++ nun n). rewrite in_app_iff. tauto.
Qed.

(* from_deepex: the flat form reports the listings of the deep form it was made from *)
Theorem from_deepex_listings fixed_bump e fx : dwf okop okvar okvars e -> from_deepex C tb fixed_bump e = Ok fx ->
  f_binary_reprs tb fx = d_binary_reprs tb e /\ f_unary_reprs tb fx = d_unary_reprs tb e /\ f_operator_reprs tb fx = d_operator_reprs tb e.
Proof.
  intros Hwf H. unfold from_deepex in H.
  destruct (flatten_vecs e 0) as [[ns os]| |] eqn:Ef; cbn [bind] in H; try discriminate.
  destruct (unparse C tb e) as [text|]; [|discriminate]. injection H as <-.
  destruct (flatten_names e 0%Z (ns, os) Hwf Ef) as [N1 N2]. unfold names_of in N1, N2. cbn [fst snd] in N1, N2.
  destruct (deep_listings e) as (B & U & O). destruct (flat_listings {| fnodes := ns; fops := os; fprios := prioritized_indices_flat fixed_bump os ns; fvars := dvars e; ftext := text |}) as (B' & U' & O').
  rewrite B, U, O, B', U', O'. unfold fbnames, funames. cbn [fnodes fops].
  repeat split; apply sort_strs_ext; intros y; rewrite !in_map_iff.
  - split; intros (k & <- & Hk); exists k; (split; [reflexivity|]); apply N1; exact Hk.
  - split; intros (k & <- & Hk); exists k; (split; [reflexivity|]); apply N2; exact Hk.
  - split; intros (k & <- & Hk); exists k; (split; [reflexivity|]); rewrite in_app_iff in *; rewrite <- (N1 k), <- (N2 k) in *; exact Hk.
Qed.
End WithPreds.
End Listings.
