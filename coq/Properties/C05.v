(* C05 — a partial derivative evaluates to the mathematical derivative.  Property theorems only. *)
From Coq Require Import List Arith Bool.
Import ListNotations.
From Exmex.Model Require Import Base EvalBinary Lexer Flat Deep Convert Calc Partial.
From Exmex.Gen Require Import Tables.
Open Scope nat_scope.

(* `_partial`.  Proved: (1) the model's table of derivative rules has exactly the names, and the binary/unary kinds,
   of make_partial_derivative_ops as the implementation reports them on THIS run (Gen/Tables.v is regenerated from
   the hook); (2) the non-differentiable default operators have no rule; (3) in the default mode a binary operator
   without a rule makes the reduction step fail with an error, never with an expression.
   Missing: the analytic statement (the derivative expression denotes the derivative over the reals on the interior
   of the domain, DESIGN.md C05); it is covered by the correspondence on the free term algebra (model = implementation
   on the derivative EXPRESSION, exactly) plus the numeric oracle (central differences of the reference term). *)
Theorem C05_rule_names_match_code_partial :
  map (fun r => (fst (fst r), match snd (fst r) with Some _ => true | None => false end, match snd r with Some _ => true | None => false end)) rule_table
  = partial_rule_names.
Proof. vm_compute. reflexivity. Qed.

Definition nm' (l : list N) : str := l.
Theorem C05_no_rule_for_nondifferentiable_partial :
  forallb (fun name => match find_rule name with None => true | Some _ => false end)
    [nm' [97;98;115]; nm' [115;105;103;110;117;109]; nm' [102;108;111;111;114]; nm' [99;101;105;108]; nm' [114;111;117;110;100];
     nm' [116;114;117;110;99]; nm' [102;114;97;99;116]; nm' [99;98;114;116]; nm' [97;116;97;110;50]; nm' [109;105;110]; nm' [109;97;120]]%N = true.
  (* abs signum floor ceil round trunc fract cbrt atan2 min max *)
Proof. vm_compute. reflexivity. Qed.

Theorem C05_missing_binary_rule_is_error_partial :
  forall (D : Type) (C : carrier D) (DC : dcarrier D) (tb : optable) (bin_op_idx : nat) (rest : list nat) (i : nat)
         (num_inds : list nat) (nodes : list (valder (D:=D))) (bops : list dbop) (num_idx : nat) (n1 n2 : valder (D:=D)) (o : dbop),
  nth_error num_inds i = Some num_idx -> nth_error nodes num_idx = Some n1 -> nth_error nodes (S num_idx) = Some n2 ->
  nth_error bops bin_op_idx = Some o -> find_rule (repr_of tb (bidx o)) = None ->
  inner_loop C DC tb (bin_op_idx :: rest) i num_inds nodes bops MError = Err E_NORULE.
Proof. intros. cbn [inner_loop]. rewrite H, H0, H1, H2, H3. reflexivity. Qed.

Print Assumptions C05_rule_names_match_code_partial.
Print Assumptions C05_missing_binary_rule_is_error_partial.
