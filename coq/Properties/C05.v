(* C05 — a partial derivative evaluates to the mathematical derivative.  Property theorems only. *)
From Coq Require Import List Arith Bool.
Import ListNotations.
From Exmex.Model Require Import Base EvalBinary Lexer Flat Deep Convert Calc Partial.
From Exmex.Gen Require Import Tables.
From Coq Require Import Reals.
From Coquelicot Require Import Coquelicot.
From Coq Require Import Sorted Lra.
From Exmex.Spec Require Import RefSem.
From Exmex.Proofs Require Import Vars DeepSem DeepSubs C11Main DeepOps NormalForm Hereditary ConvertCompose RuleAnalysis RealCarrier CalcSem Dual PartialCorrect PartialRuled RemoveLoop Unparse PartialTotal PartialMain FlatPartial ParseAny.
Import ListNotations.
Open Scope nat_scope.

(* What is proved.
   MAIN THEOREMS (C05_partial_is_the_derivative, C05_partial_evaluates_to_the_derivative): over the real numbers, with
   the operators of the default table (regenerated from the implementation on every run) interpreted by name, for EVERY
   deep expression in compile normal form that is index-consistent with its sorted variable list, EVERY variable index
   and EVERY assignment: if partial_deepex (partial.rs: value/derivative pairs reduced in application order, the
   derivative rules, the chain-rule factors of the unary operators, the neutral-element shortcuts of deep.rs) succeeds,
   the result has the variable list of the expression, is again in normal form and index-consistent (so it can be
   differentiated again), and wherever every operator application of the expression lies in the interior of its domain
   (in_domain: non-zero denominators, positive arguments of ln/sqrt/log2/log10, |x|<1 for asin/acos/atanh, x>1 for
   acosh, cos x <> 0 for tan, and for `^` a positive base or a natural-number constant exponent) the expression is
   differentiable as a function of that variable and the result EVALUATES to its derivative (Coquelicot's is_derive).
   The proof goes through a dual-number carrier of the model (Proofs/Dual.v): the algorithm is shown to compute the
   dual-number denotation of the expression (Proofs/PartialCorrect.v), whose derivative component is sound.
   [standard axioms of the real numbers, see Print Assumptions]
   RULE LEVEL (`_partial`): (1) the model's table of derivative rules has exactly the names and kinds
   make_partial_derivative_ops reports on THIS run; (2) the non-differentiable default operators have no rule; (3) in
   the default mode a binary operator without a rule makes the reduction step fail with an error; (4) every rule,
   computed in the free term algebra and read over the reals, is the derivative of its operator.
   SUCCESS AND FAILURE: C05_differentiation_succeeds (every data type: on expressions over operators with rules the result is
   an expression or the 0^0 error, never a panic) and C05_success_means_every_operator_has_a_rule (an operator without a
   rule anywhere makes differentiation fail).
   Not in the theorems: that the implementation is the model (correspondence of this check, on the free term algebra,
   exactly, plus central differences); floating-point rounding. *)
Theorem C05_rule_names_match_code_partial :
  map (fun r => (fst (fst r), match snd (fst r) with Some _ => true | None => false end, match snd r with Some _ => true | None => false end)) rule_table
  = partial_rule_names.
Proof. vm_compute. reflexivity. Qed.

Definition nm' (l : list N) : str := l.
Theorem C05_no_rule_for_nondifferentiable_partial :
  forallb (fun name => match find_rule name with None => true | Some _ => false end)
    [nm' [97;98;115]; nm' [115;105;103;110;117;109]; nm' [102;108;111;111;114]; nm' [99;101;105;108]; nm' [114;111;117;110;100];
     nm' [116;114;117;110;99]; nm' [102;114;97;99;116]; nm' [99;98;114;116]; nm' [97;116;97;110;50]; nm' [109;105;110]; nm' [109;97;120]]%N = true.
  (* abs signum floor ceil round trunc fract cbrt atan2 min max *)
Proof. vm_compute. reflexivity. Qed.

Theorem C05_missing_binary_rule_is_error_partial :
  forall (D : Type) (C : carrier D) (DC : dcarrier D) (tb : optable) (bin_op_idx : nat) (rest : list nat) (i : nat)
         (num_inds : list nat) (nodes : list (valder (D:=D))) (bops : list dbop) (num_idx : nat) (n1 n2 : valder (D:=D)) (o : dbop),
  nth_error num_inds i = Some num_idx -> nth_error nodes num_idx = Some n1 -> nth_error nodes (S num_idx) = Some n2 ->
  nth_error bops bin_op_idx = Some o -> find_rule (repr_of tb (bidx o)) = None ->
  inner_loop C DC tb (bin_op_idx :: rest) i num_inds nodes bops MError = Err E_NORULE.
Proof. intros. cbn [inner_loop]. rewrite H, H0, H1, H2, H3. reflexivity. Qed.

Open Scope R_scope.
(* the chain-rule factor d/dx u(x) of every unary operator with a rule: T is the term the rule builds for the operand x *)
Theorem C05_unary_rules_are_derivatives_partial :
  (exists T, rule_term n_sin USin = Ok T /\ forall x, is_derive sin x (rinterp (x :: nil) T)) /\
  (exists T, rule_term n_cos UCos = Ok T /\ forall x, is_derive cos x (rinterp (x :: nil) T)) /\
  (exists T, rule_term n_tan UTan = Ok T /\ forall x, cos x <> 0 -> is_derive tan x (rinterp (x :: nil) T)) /\
  (exists T, rule_term n_asin UAsin = Ok T /\ forall x, -1 < x < 1 -> is_derive asin x (rinterp (x :: nil) T)) /\
  (exists T, rule_term n_acos UAcos = Ok T /\ forall x, -1 < x < 1 -> is_derive acos x (rinterp (x :: nil) T)) /\
  (exists T, rule_term n_atan UAtan = Ok T /\ forall x, is_derive atan x (rinterp (x :: nil) T)) /\
  (exists T, rule_term n_sinh USinh = Ok T /\ forall x, is_derive sinh x (rinterp (x :: nil) T)) /\
  (exists T, rule_term n_cosh UCosh = Ok T /\ forall x, is_derive cosh x (rinterp (x :: nil) T)) /\
  (exists T, rule_term n_tanh UTanh = Ok T /\ forall x, is_derive tanh x (rinterp (x :: nil) T)) /\
  (exists T, rule_term n_asinh UAsinh = Ok T /\ forall x, is_derive arcsinh x (rinterp (x :: nil) T)) /\
  (exists T, rule_term n_acosh UAcosh = Ok T /\ forall x, 1 < x -> is_derive acosh x (rinterp (x :: nil) T)) /\
  (exists T, rule_term n_atanh UAtanh = Ok T /\ forall x, -1 < x < 1 -> is_derive atanh x (rinterp (x :: nil) T)) /\
  (exists T, rule_term n_exp UExp = Ok T /\ forall x, is_derive exp x (rinterp (x :: nil) T)) /\
  (exists T, rule_term n_ln ULn = Ok T /\ forall x, 0 < x -> is_derive ln x (rinterp (x :: nil) T)) /\
  (exists T, rule_term n_log ULn = Ok T /\ forall x, 0 < x -> is_derive ln x (rinterp (x :: nil) T)) /\
  (exists T, rule_term n_log2 ULog2 = Ok T /\ forall x, 0 < x -> is_derive (fun x => ln x / ln 2) x (rinterp (x :: nil) T)) /\
  (exists T, rule_term n_log10 ULog10 = Ok T /\ forall x, 0 < x -> is_derive (fun x => ln x / ln 10) x (rinterp (x :: nil) T)) /\
  (exists T, rule_term n_sqrt USqrt = Ok T /\ forall x, 0 < x -> is_derive sqrt x (rinterp (x :: nil) T)) /\
  (exists T, rule_term s_minus UNegOne = Ok T /\ forall x, is_derive (fun x => - x) x (rinterp (x :: nil) T)) /\
  (exists T, rule_term s_plus UOne = Ok T /\ forall x, is_derive (fun x => x) x (rinterp (x :: nil) T)).
Proof.
  repeat split; [exact rule_sin|exact rule_cos|exact rule_tan|exact rule_asin|exact rule_acos|exact rule_atan|exact rule_sinh|exact rule_cosh|exact rule_tanh
                |exact rule_asinh|exact rule_acosh|exact rule_atanh|exact rule_exp|exact rule_ln|exact rule_log|exact rule_log2|exact rule_log10|exact rule_sqrt
                |exact rule_neg|exact rule_pos].
Qed.

(* the binary rules for operands f, g differentiable at t with derivatives f', g': T is the term the rule builds from
   (f, f') and (g, g') *)
Theorem C05_binary_rules_are_derivatives_partial :
  forall (f g : R -> R) (t f' g' : R), is_derive f t f' -> is_derive g t g' ->
  (exists T, brule_term s_plus BAdd = Ok T /\ is_derive (fun x => f x + g x) t (rinterp (f t :: f' :: g t :: g' :: nil) T)) /\
  (exists T, brule_term s_minus BSub = Ok T /\ is_derive (fun x => f x - g x) t (rinterp (f t :: f' :: g t :: g' :: nil) T)) /\
  (exists T, brule_term s_mul BMul = Ok T /\ is_derive (fun x => f x * g x) t (rinterp (f t :: f' :: g t :: g' :: nil) T)) /\
  (exists T, brule_term s_div BDiv = Ok T /\ (g t <> 0 -> is_derive (fun x => f x / g x) t (rinterp (f t :: f' :: g t :: g' :: nil) T))) /\
  (exists T, brule_term s_pow BPow = Ok T /\ (0 < f t -> is_derive (fun x => Rpower (f x) (g x)) t (rinterp (f t :: f' :: g t :: g' :: nil) T))).
Proof.
  intros f g t f' g' Hf Hg. repeat split; [exact (rule_add f g t f' g' Hf Hg)|exact (rule_sub f g t f' g' Hf Hg)|exact (rule_mul f g t f' g' Hf Hg)
                                          |exact (rule_div f g t f' g' Hf Hg)|exact (rule_pow f g t f' g' Hf Hg)].
Qed.

Close Scope R_scope.
Open Scope nat_scope.
(* ---- the main theorems ---- *)
(* `built e` (Proofs/PartialMain.v): the expression is as the constructors of deep.rs build it -- operand counts and
   operator records of the table at every level, variable nodes indexed in the variable list of the outermost level,
   every level's list sorted, within that list, and containing the names and lists below it (the parser gives every
   parenthesis group its own list), and every level in compile normal form. *)
Theorem C05_partial_is_the_derivative :
  forall (e d : deepex R) (vi fuel : nat),
  built e -> vi < length (dvars e) ->
  partial_deepex Rc RDC float_table fuel vi e MError = Ok d ->
  dvars d = dvars e /\ dconsistent (tflagged float_table) (dvars e) d /\ nf d /\
  forall rho : str -> R, in_domain e vi rho ->
    is_derive (fun t => dden Rc (nlook (line rho (nth vi (dvars e) nil) t)) e) (rho (nth vi (dvars e) nil)) (dden Rc (nlook rho) d).
Proof. exact partial_is_derivative. Qed.

Theorem C05_partial_evaluates_to_the_derivative :
  forall (e d : deepex R) (vi fuel : nat) (vals : list R),
  built e -> vi < length (dvars e) ->
  partial_deepex Rc RDC float_table fuel vi e MError = Ok d -> length vals = length (dvars e) ->
  in_domain e vi (env_of Rc (dvars e) vals) ->
  exists v, eval_deep Rc d vals = Ok v /\
    is_derive (fun t => match eval_deep Rc e (set_nth vi t vals) with Ok y => y | _ => 0%R end) (nth vi vals 0%R) v.
Proof. exact partial_evaluates_to_the_derivative. Qed.

(* the premise is met by the deep parse of every well-formed tree, by every index-consistent expression in normal form
   (what operator application, substitution and conversion return), and by every derivative: "parsed, converted or
   produced by earlier differentiation" *)
Theorem C05_parsed_expressions_qualify :
  forall c : chain (D:=R), wf_chain float_table c = true ->
  exists e, parse_deep_tokens Rc float_table (flatten c) = Ok e /\ dvars e = find_parsed_vars (flatten c) /\ built e.
Proof. exact parsed_built. Qed.
(* ... and by the deep parse of ANY token list the parser accepts (also sloppy input): it is built, lists the variables
   of the tokens and records only unary operators in its unary stacks (the premise of C05_differentiation_succeeds) *)
Theorem C05_every_parsed_expression_qualifies :
  forall (ts : list (token R)) (e : deepex R),
  parse_deep_tokens Rc float_table ts = Ok e -> dvars e = find_parsed_vars ts /\ built e /\ uok float_table e.
Proof.
  intros ts e H. destruct (parsed_any Rc float_table ts e H) as (Hv & Hw & Hh & Hn & Hu).
  split; [exact Hv|]. split; [|exact Hu]. split; [exact Hw|]. split; [exact Hh|exact Hn].
Qed.
Theorem C05_consistent_expressions_qualify :
  forall e : deepex R, StronglySorted str_lt (dvars e) -> dconsistent (tflagged float_table) (dvars e) e -> nf e -> built e.
Proof. exact consistent_built. Qed.
Theorem C05_derivatives_qualify :
  forall (e d : deepex R) (vi fuel : nat),
  built e -> vi < length (dvars e) -> partial_deepex Rc RDC float_table fuel vi e MError = Ok d -> built d.
Proof. exact partial_built. Qed.

(* an operator without a derivative rule makes differentiation fail: for every data type and table, if partial_deepex
   (default mode) returns an expression for a structurally well-formed deep expression, then every binary and every unary
   operator recorded anywhere in that expression has a rule (so abs, min, floor, ... anywhere in it give an error) *)
Theorem C05_success_means_every_operator_has_a_rule :
  forall (D : Type) (C : carrier D) (DC : dcarrier D) (tb : optable) (okop : dbop -> Prop) (okvar : nat -> str -> Prop) (okvars : list str -> Prop)
         (vi fuel : nat) (e d : deepex D),
  dwf okop okvar okvars e -> partial_deepex C DC tb fuel vi e MError = Ok d -> ruled tb e.
Proof. intros D C DC tb okop okvar okvars vi. exact (partial_ok_ruled C DC tb okop okvar okvars vi). Qed.

(* ... and conversely differentiation SUCCEEDS on expressions over operators with rules: for every data type (any carrier
   with any equality test and constants) and the default table, on every deep expression as the constructors build it
   (operand counts, operators of the table, names within the variable lists at every level, recorded unary operators unary)
   all of whose operators have rules, partial_deepex with fuel beyond the nesting depth (partial_iter passes depth + 2) returns an expression, closed
   under its variable list, or the documented error of the power shortcut for 0^0 -- never a panic, never another error *)
Theorem C05_differentiation_succeeds :
  forall (D : Type) (C : carrier D) (DC : dcarrier D) (vi : nat) (okvar : nat -> str -> Prop) (okvars : list str -> Prop)
         (fuel : nat) (e : deepex D),
  ddepth e < fuel -> dwf (tflagged float_table) okvar okvars e -> hc e -> uok float_table e -> ruled float_table e ->
  match partial_deepex C DC float_table fuel vi e MError with
  | Ok d => dclosed (tflagged float_table) (dvars d) d /\ uok float_table d
  | Err err => err = E_POW00
  | Panic _ => False
  end.
Proof. intros D C DC vi okvar okvars fuel e H1 H2 H3 H4 H5. exact (partial_total C DC vi okvar okvars fuel e H1 H2 H3 H4 H5). Qed.

(* hence, over the reals: for every built expression over differentiable operators the derivative exists as an expression
   (or differentiation reports 0^0) and evaluates to the mathematical derivative *)
Theorem C05_partial_of_expressions_over_differentiable_operators :
  forall (e : deepex R) (vi fuel : nat),
  built e -> uok float_table e -> ruled float_table e -> vi < length (dvars e) -> ddepth e < fuel ->
  partial_deepex Rc RDC float_table fuel vi e MError = Err E_POW00 \/
  exists d, partial_deepex Rc RDC float_table fuel vi e MError = Ok d /\ dvars d = dvars e /\ built d /\ uok float_table d /\
    forall rho : str -> R, in_domain e vi rho ->
      is_derive (fun t => dden Rc (nlook (line rho (nth vi (dvars e) nil) t)) e) (rho (nth vi (dvars e) nil)) (dden Rc (nlook rho) d).
Proof.
  intros e vi fuel Hb Hu Hr Hvi Hf. pose proof Hb as (Hix & Hh & Hn).
  pose proof (partial_total Rc RDC vi (indexed (dvars e)) (okl (dvars e)) fuel e Hf Hix Hh Hu Hr) as Ht.
  destruct (partial_deepex Rc RDC float_table fuel vi e MError) as [d|err|site] eqn:E; cbn [fine] in Ht; [right|left; subst; reflexivity|destruct Ht].
  exists d. split; [reflexivity|]. destruct (partial_is_derivative e d vi fuel Hb Hvi E) as (H1 & _ & _ & H4).
  split; [exact H1|]. split; [exact (partial_built e d vi fuel Hb Hvi E)|]. split; [exact (proj2 Ht)|exact H4].
Qed.

(* FLAT expressions (Differentiate::partial on FlatEx = to_deepex, partial, compile, from_deepex): for every flat expression
   the conversions accept (flat_ok: what the flat parser builds from any accepted token list, C03) with a sorted variable
   list, if differentiation succeeds the result has the same variables and evaluates to the derivative of the flat
   evaluation, wherever the deep form of the expression is in its domain *)
Theorem C05_flat_partial_is_the_derivative :
  forall (fx fx' : flatex R) (i : nat) (vals : list R),
  flat_ok Rc float_table fx -> StronglySorted str_lt (fvars fx) -> flat_partial fx (i :: nil) = Ok fx' -> length vals = length (fvars fx) ->
  (forall e, to_deepex Rc float_table true fx = Ok e -> in_domain e i (env_of Rc (fvars fx) vals)) ->
  fvars fx' = fvars fx /\
  exists v, eval_flat Rc fx' vals = Ok v /\
    is_derive (fun t => match eval_flat Rc fx (set_nth i t vals) with Ok y => y | _ => 0%R end) (nth i vals 0%R) v.
Proof. exact flat_partial_is_derivative. Qed.

(* non-vacuity: sin(x).  All premises hold, differentiation succeeds over the real carrier with cos(x), every point is in
   the domain; hence cos(x) evaluates to the derivative of the evaluation of sin(x). *)
Definition ex_X : str := (120%N :: nil).
Definition ex_sin : deepex R := DE (DVar 0 ex_X :: nil) nil (10 :: nil) (ex_X :: nil).
Definition ex_cos : deepex R := DE (DVar 0 ex_X :: nil) nil (11 :: nil) (ex_X :: nil).
Ltac decide_reals :=
  repeat (match goal with |- context [Req_EM_T ?a ?b] =>
            let E := fresh "E" in destruct (Req_EM_T a b) as [E|E]; [try (exfalso; lra)|try (exfalso; apply E; lra)] end; vm_compute).
Example C05_example_premises :
  built ex_sin /\ 0 < length (dvars ex_sin) /\
  partial_deepex Rc RDC float_table 3 0 ex_sin MError = Ok ex_cos /\ forall rho, in_domain ex_sin 0 rho.
Proof.
  split; [apply consistent_built|]; [repeat constructor| | |].
  { unfold dconsistent, ex_sin. cbn [dvars]. rewrite dwf_unfold. split; [reflexivity|]. split; [reflexivity|]. split; [intros o []|]. constructor; [reflexivity|constructor]. }
  { unfold ex_sin; rewrite nf_unfold; split; [intros d Hd; discriminate|constructor; [exact I|constructor]]. }
  split; [cbn; auto|]. split.
  - vm_compute. decide_reals. reflexivity.
  - intros rho. unfold in_domain. cbn [dvars ex_sin nth]. unfold ex_sin. rewrite ddual_unfold. cbn. change (ucode_of 10) with CSin. cbn. tauto.
Qed.
Example C05_example_conclusion : forall x0 : R,
  exists v, eval_deep Rc ex_cos (x0 :: nil) = Ok v /\
    is_derive (fun t => match eval_deep Rc ex_sin (t :: nil) with Ok y => y | _ => 0%R end) x0 v.
Proof.
  intros x0. destruct C05_example_premises as (H1 & H4 & H5 & H6).
  exact (C05_partial_evaluates_to_the_derivative ex_sin ex_cos 0 3 (x0 :: nil) H1 H4 H5 eq_refl (H6 _)).
Qed.

Print Assumptions C05_rule_names_match_code_partial.
Print Assumptions C05_missing_binary_rule_is_error_partial.
Print Assumptions C05_unary_rules_are_derivatives_partial.
Print Assumptions C05_binary_rules_are_derivatives_partial.
Print Assumptions C05_partial_is_the_derivative.
Print Assumptions C05_partial_evaluates_to_the_derivative.
Print Assumptions C05_parsed_expressions_qualify.
Print Assumptions C05_every_parsed_expression_qualifies.
Print Assumptions C05_consistent_expressions_qualify.
Print Assumptions C05_derivatives_qualify.
Print Assumptions C05_flat_partial_is_the_derivative.
Print Assumptions C05_success_means_every_operator_has_a_rule.
Print Assumptions C05_differentiation_succeeds.
Print Assumptions C05_partial_of_expressions_over_differentiable_operators.
