//! A set of correspondence cases: writes the Gallina shards and a JSON side file for the driver.
use crate::prog::*;
use crate::term::*;
use std::fmt::Write as _;
use std::io::Write as _;

pub struct Case {
    pub tb: usize,
    pub prog: Prog,
    pub queries: Vec<Query>,
    pub obs: Vec<Obs>,
    /// what the case is (human readable) and which generator produced it
    pub note: String,
    pub family: &'static str,
    /// verdict of the independent oracle on the implementation's answers: None = no oracle for this case
    pub oracle_ok: Option<bool>,
    pub oracle_note: String,
    /// size measure (operands) and whether the case is non-trivial by the stated rule
    pub size: usize,
    pub nontrivial: bool,
    /// false: the case is decided by the oracle alone (too large to evaluate the model on it inside Coq)
    pub model: bool,
}
#[derive(Default)]
pub struct CaseSet { pub tables: Vec<Vec<OpSpec>>, pub cases: Vec<Case> }

pub fn json_str(s: &str) -> String { serde_json::to_string(s).unwrap() }

impl CaseSet {
    pub fn table_index(&mut self, tb: &[OpSpec]) -> usize {
        if let Some(i) = self.tables.iter().position(|t| t.as_slice() == tb) { i } else { self.tables.push(tb.to_vec()); self.tables.len() - 1 }
    }
    /// runs the program on the implementation and records the case
    pub fn add(&mut self, tb: &[OpSpec], prog: Prog, queries: Vec<Query>, note: String, family: &'static str, size: usize,
               oracle: impl FnOnce(&[Obs]) -> (Option<bool>, String)) -> usize {
        set_table(tb);
        if std::env::var("VERIF_TRACE").is_ok() { eprintln!("TRACE {}", pretty_prog(&prog)); }
        let (_, obs) = observe(&prog, &queries);
        let (oracle_ok, oracle_note) = oracle(&obs);
        let tbi = self.table_index(tb);
        self.cases.push(Case { tb: tbi, prog, queries, obs, note, family, oracle_ok, oracle_note, size, nontrivial: size >= 2, model: true });
        self.cases.len() - 1
    }
    pub fn write(&self, out_dir: &str, shard_size: usize) -> std::io::Result<()> {
        std::fs::create_dir_all(out_dir)?;
        let n_shards = (self.cases.len() + shard_size - 1) / shard_size.max(1);
        for k in 0..n_shards {
            let mut s = String::new();
            s.push_str("From Exmex.Model Require Import Base.\nFrom Exmex.Corr Require Import Driver.\n");
            s.push_str("Definition tbs : list optable := [\n");
            s.push_str(&self.tables.iter().map(|t| g_table(t)).collect::<Vec<_>>().join(";\n"));
            s.push_str("].\nDefinition cases : list case := [\n");
            // round robin: case i lives in shard i % n_shards at position i / n_shards (balances sizes)
            let chunk: Vec<&Case> = self.cases.iter().enumerate().filter(|(i, _)| i % n_shards == k).map(|(_, c)| c).collect();
            let items: Vec<String> = chunk.iter().map(|c| {
                if !c.model && std::env::var("VERIF_MODEL_ALL").is_err() { return format!("({}%nat, {}, [])", c.tb, g_prog(&Prog::Flat("1".into()))) }
                let qs: Vec<String> = c.queries.iter().zip(&c.obs).map(|(q, o)| format!("({}, {})", g_query(q), g_obs(o))).collect();
                format!("({}%nat, {}, [{}])", c.tb, g_prog(&c.prog), qs.join("; "))
            }).collect();
            s.push_str(&items.join(";\n"));
            s.push_str("].\nEval vm_compute in (mismatches tbs cases).\n");
            std::fs::write(format!("{out_dir}/cases_{k}.v"), s)?;
        }
        // side file
        let mut f = std::io::BufWriter::new(std::fs::File::create(format!("{out_dir}/meta.json"))?);
        writeln!(f, "{{\"shard_size\": {shard_size}, \"n_shards\": {n_shards}, \"tables\": [")?;
        for (i, t) in self.tables.iter().enumerate() {
            let ops: Vec<String> = t.iter().map(|o| format!("{{\"repr\": {}, \"bin\": {}, \"unary\": {}, \"constant\": {}}}", json_str(&o.repr),
                match o.bin { Some((p, c)) => format!("[{p}, {c}]"), None => "null".into() }, o.unary, o.constant)).collect();
            writeln!(f, "[{}]{}", ops.join(", "), if i + 1 < self.tables.len() { "," } else { "" })?;
        }
        writeln!(f, "], \"cases\": [")?;
        for (i, c) in self.cases.iter().enumerate() {
            let mut o = String::new();
            write!(o, "{{\"tb\": {}, \"family\": {}, \"note\": {}, \"prog\": {}, \"size\": {}, \"nontrivial\": {}, \"oracle_ok\": {}, \"oracle_note\": {}, \"answers\": [",
                c.tb, json_str(c.family), json_str(&c.note), json_str(&pretty_prog(&c.prog)), c.size, c.nontrivial,
                match c.oracle_ok { Some(b) => b.to_string(), None => "null".into() }, json_str(&c.oracle_note)).unwrap();
            let qa: Vec<String> = c.queries.iter().zip(&c.obs).map(|(q, ob)| format!("[{}, {}]", json_str(&format!("{q:?}")), json_str(&pretty_obs(ob)))).collect();
            write!(o, "{}]}}", qa.join(", ")).unwrap();
            writeln!(f, "{}{}", o, if i + 1 < self.cases.len() { "," } else { "" })?;
        }
        writeln!(f, "]}}")?;
        Ok(())
    }
}
