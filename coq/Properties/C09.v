(* C09 — differentiation bookkeeping.  Property theorems only (about Model/Partial.v). *)
From Coq Require Import List Arith.
Import ListNotations.
From Exmex.Model Require Import Base EvalBinary Lexer Flat Deep Convert Calc Partial.
From Exmex.Gen Require Import Tables.
From Coq Require Import Reals.
From Coquelicot Require Import Coquelicot.
From Exmex.Proofs Require Import DeepSem DeepSubs C11Main DeepOps RealCarrier CalcSem Dual PartialCorrect PartialMain.
Open Scope nat_scope.

(* `_partial`: an index not smaller than the number of variables ANYWHERE in an index sequence is an error, for
   every expression, data type, table and mode, and it is detected before any differentiation step is executed
   (the result does not depend on partial_deepex at all); order zero only recompiles the expression.
   Over the real carrier (C05's setting): Differentiate::partial_iter with a non-empty index sequence, on every built
   expression, returns an expression with exactly the variable list of the antiderivative (so the same value slice
   evaluates both: C09_same_values_evaluate_both) that is reached by differentiating with respect to the listed
   variables one after the other, in that order: every step keeps the variable list and denotes the derivative of the
   step before (C09_iterated_is_the_sequence_of_single_steps; partial_nth is the sequence with one index repeated).
   Missing: equality of mixed partials (an analytic fact about twice differentiable functions, not about the code) --
   covered by the correspondence and its numeric oracle. *)
Theorem C09_index_checked_first_partial :
  forall (D : Type) (C : carrier D) (DC : dcarrier D) (tb : optable) (e : deepex D) (idxs : list nat) (mode : missing_mode),
  (exists i, In i idxs /\ length (dvars e) <= i) -> partial_iter_deep C DC tb e idxs mode = Err E_INDEX.
Proof.
  intros D C DC tb e idxs mode (i & Hin & Hi). unfold partial_iter_deep.
  destruct (forallb (fun j => Nat.ltb j (length (dvars e))) idxs) eqn:E; [|reflexivity].
  exfalso. rewrite forallb_forall in E. specialize (E i Hin). apply Nat.ltb_lt in E.
  apply (Nat.lt_irrefl i). eapply Nat.lt_le_trans; eassumption.
Qed.
Theorem C09_order_zero_partial :
  forall (D : Type) (C : carrier D) (DC : dcarrier D) (tb : optable) (e : deepex D) (mode : missing_mode),
  partial_iter_deep C DC tb e [] mode = dcompile C e.
Proof. reflexivity. Qed.

(* the variable list of a derivative, of any order, is that of its antiderivative *)
Theorem C09_derivative_keeps_the_variable_list :
  forall (e r : deepex R) (i : nat) (tl : list nat), built e ->
  partial_iter_deep Rc RDC float_table e (i :: tl) MError = Ok r -> dvars r = dvars e /\ built r.
Proof. intros e r i tl Hb H. destruct (partial_iter_chain e r i tl Hb H) as (H1 & H2 & _). split; assumption. Qed.

Theorem C09_same_values_evaluate_both :
  forall (e r : deepex R) (i : nat) (tl : list nat) (vals : list R), built e ->
  partial_iter_deep Rc RDC float_table e (i :: tl) MError = Ok r -> length vals = length (dvars e) ->
  (exists v, eval_deep Rc e vals = Ok v) /\ (exists v, eval_deep Rc r vals = Ok v).
Proof.
  intros e r i tl vals Hb H Hl. destruct (partial_iter_chain e r i tl Hb H) as (H1 & H2 & _). split.
  - eexists. exact (eval_is_den (dvars e) vals e (built_indexed e Hb) Hl).
  - eexists. refine (eval_is_den (dvars r) vals r (built_indexed r H2) _). rewrite H1. exact Hl.
Qed.

(* an iterated derivative is the sequence of single derivatives in the given order (deriv_chain, Proofs/PartialMain.v) *)
Theorem C09_iterated_is_the_sequence_of_single_steps :
  forall (e r : deepex R) (i : nat) (tl : list nat), built e ->
  partial_iter_deep Rc RDC float_table e (i :: tl) MError = Ok r -> deriv_chain e (i :: tl) r.
Proof. intros e r i tl Hb H. exact (proj2 (proj2 (partial_iter_chain e r i tl Hb H))). Qed.

Print Assumptions C09_index_checked_first_partial.
Print Assumptions C09_derivative_keeps_the_variable_list.
Print Assumptions C09_same_values_evaluate_both.
Print Assumptions C09_iterated_is_the_sequence_of_single_steps.
