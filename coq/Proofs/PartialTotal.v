(* Proofs/PartialTotal.v — differentiation succeeds.  For every data type (carrier and its equality/constants) with the
   default operator table: on every deep expression whose names lie in its variable lists at every level (what the
   constructors build) and all of whose operators have derivative rules, partial_deepex with enough fuel returns an
   expression -- or the one documented error "0^0" of the power shortcut -- and never panics.  Together with
   PartialRuled: differentiation succeeds exactly on expressions over operators with rules (modulo 0^0). *)
From Coq Require Import List Arith Lia Bool ZArith Sorted.
Import ListNotations.
From Exmex.Model Require Import Base EvalBinary Lexer Flat Deep Convert Calc Partial.
From Exmex.Gen Require Import Tables.
From Exmex.Spec Require Import RefSem.
From Exmex.Proofs Require Import Vars DeepVars ChainMachine SortDesc EvalBinaryCorrect RemoveLoop DeepSem DeepCompile DeepSubs C11Main DeepOps Hereditary
  Unparse UnparseParsed UokOps RuleAnalysis RealCarrier PartialRuled.
Open Scope nat_scope.

Local Notation tb := float_table.
Local Notation tfl := (tflagged tb).

Section PartialTotal.
Context {D : Type}.
Variable C : carrier D.
Variable DC : dcarrier D.

Lemma fine_ok {A} (P : A -> Prop) x : P x -> fine P (Ok x).
Proof. intros H; exact H. Qed.

Definition Wc (a : deepex D) : Prop := dclosed tfl (dvars a) a /\ uok tb a.

(* the structural halves of the theorems about operator application, with the trivial relation *)
Local Notation TR := (fun _ _ : D => True).
Lemma op_bin_fine name k a b : find_op name tb 0 = Some k -> is_bin tb k = true -> Wc a -> Wc b -> fine Wc (operate_bin C tb a b name).
Proof.
  intros Hf Hb [Ha Ua] [Hbb Ub].
  destruct (operate_bin_ok C tb TR (fun _ => I) (fun _ _ _ => I) (fun _ _ _ _ _ => I) (fun _ _ _ _ _ _ _ => I) (fun _ _ _ _ => I)
              (fun _ _ _ _ _ => I) a b name k Hf Hb Ha Hbb) as (e & He & Hc & _).
  rewrite He. cbn [fine]. split; [|exact (operate_bin_uok C tb a b e name Ua Ub He)].
  rewrite (dconsistent_vars _ _ _ Hc). exact (dconsistent_closed _ _ _ Hc).
Qed.
Lemma dvars_operate_unary' (a r : deepex D) name : operate_unary C tb a name = Ok r -> dvars r = dvars a.
Proof.
  intros H. unfold operate_unary in H. destruct (find_op name tb 0) as [k|]; [|discriminate].
  destruct (negb (has_un tb k)); [discriminate|]. destruct a as [nodes bops uop vars].
  rewrite (dcompile_vars C _ _ H). destruct nodes as [|n [|n' tl]]; try destruct n; reflexivity.
Qed.
Lemma op_un_fine name k a : find_op name tb 0 = Some k -> has_un tb k = true -> Wc a -> fine Wc (operate_unary C tb a name).
Proof.
  intros Hf Hu [Ha Ua].
  destruct (operate_unary_ok C tb TR (fun _ => I) (fun _ _ _ => I) (fun _ _ _ _ _ => I) (fun _ _ _ _ _ _ _ => I) (fun _ _ _ _ => I)
              (fun _ _ _ _ _ => I) (fun _ _ => dflt C) (names_in (dvars a)) any_vars a name k Hf Hu Ha) as (e & He & Hw & _).
  rewrite He. cbn [fine]. split; [|exact (operate_unary_uok C tb a e name Ua He)]. rewrite (dvars_operate_unary' a e name He). exact Hw.
Qed.
Lemma union_fine a b : Wc a -> Wc b -> fine (fun p => Wc (fst p) /\ Wc (snd p)) (var_names_union a b).
Proof.
  intros [Ca Ua] [Cb Ub]. unfold var_names_union, union_names. set (all := sort_strs (dvars a ++ dvars b)).
  assert (Ia : incl (dvars a) all) by (intros y Hy; apply sort_strs_spec; apply in_or_app; left; exact Hy).
  assert (Ib : incl (dvars b) all) by (intros y Hy; apply sort_strs_spec; apply in_or_app; right; exact Hy).
  destruct (reset_vars_ok C tfl all a (dclosed_mono tfl _ _ a Ia Ca)) as (a1 & Ea & Ha1 & _).
  destruct (reset_vars_ok C tfl all b (dclosed_mono tfl _ _ b Ib Cb)) as (b1 & Eb & Hb1 & _).
  rewrite Ea. cbn [bind]. rewrite Eb. cbn [bind fine fst snd]. unfold Wc.
  rewrite (dconsistent_vars _ _ _ Ha1), (dconsistent_vars _ _ _ Hb1).
  split; (split; [apply dconsistent_closed; assumption|]); [exact (reset_vars_uok tb all a a1 Ua Ea)|exact (reset_vars_uok tb all b b1 Ub Eb)].
Qed.
Lemma const_Wc (d : D) vars : Wc (DE [DNum d] [] [] vars).
Proof.
  split; [unfold dclosed; rewrite dwf_unfold; split; [reflexivity|]; split; [exact I|]; split; [intros o []|constructor; [exact I|constructor]]|].
  rewrite uok_unfold. split; [reflexivity|constructor; [exact I|constructor]].
Qed.
Lemma from_num_fine d : fine Wc (from_num C d).
Proof. unfold from_num. change (new_deepex C [DNum d] [] []) with (Ok (DE [DNum d] [] [] []) : res (deepex D)). exact (const_Wc d []). Qed.
(* the literal expressions zero and one *)
Lemma zero_like_fine (f1 : deepex D) : fine Wc (do z <- d_zero C DC; Ok (like_other z f1)).
Proof. change (do z <- d_zero C DC; Ok (like_other z f1)) with (Ok (DE [DNum (dc_zero DC)] [] [] (dvars f1)) : res (deepex D)). exact (const_Wc _ _). Qed.
Lemma one_like_fine (f1 : deepex D) : fine Wc (do o <- d_one C DC; Ok (like_other o f1)).
Proof. change (do o <- d_one C DC; Ok (like_other o f1)) with (Ok (DE [DNum (dc_one DC)] [] [] (dvars f1)) : res (deepex D)). exact (const_Wc _ _). Qed.

Lemma add_fine a b : Wc a -> Wc b -> fine Wc (d_add C DC tb a b).
Proof.
  intros Ha Hb. unfold d_add. apply (fine_bind _ _ _ _ (union_fine a b Ha Hb)). intros [s1 s2] [H1 H2]. cbn [fst snd] in *.
  destruct (is_zero C DC s1); [exact H2|]. destruct (is_zero C DC s2); [exact H1|]. exact (op_bin_fine s_plus 3 s1 s2 find_plus eq_refl H1 H2).
Qed.
Lemma sub_fine a b : Wc a -> Wc b -> fine Wc (d_sub C tb a b).
Proof. intros Ha Hb. exact (op_bin_fine s_minus 4 a b find_minus eq_refl Ha Hb). Qed.
Lemma mul_fine a b : Wc a -> Wc b -> fine Wc (d_mul C DC tb a b).
Proof.
  intros Ha Hb. unfold d_mul. apply (fine_bind _ _ _ _ (union_fine a b Ha Hb)). intros [f1 f2] [H1 H2]. cbn [fst snd] in *.
  destruct (is_zero C DC f1 || is_zero C DC f2); [apply zero_like_fine|].
  destruct (is_one C DC f1); [exact H2|]. destruct (is_one C DC f2); [exact H1|]. exact (op_bin_fine s_mul 1 f1 f2 find_mul eq_refl H1 H2).
Qed.
Lemma div_fine a b : Wc a -> Wc b -> fine Wc (d_div C DC tb a b).
Proof.
  intros Ha Hb. unfold d_div. apply (fine_bind _ _ _ _ (union_fine a b Ha Hb)). intros [n d] [H1 H2]. cbn [fst snd] in *.
  destruct (is_zero C DC n && negb (is_zero C DC d)); [apply zero_like_fine|].
  destruct (is_one C DC d); [exact H1|]. exact (op_bin_fine s_div 2 n d find_div eq_refl H1 H2).
Qed.
Lemma pow_fine a b : Wc a -> Wc b -> fine Wc (d_pow C DC tb a b).
Proof.
  intros Ha Hb. unfold d_pow. apply (fine_bind _ _ _ _ (union_fine a b Ha Hb)). intros [base ex] [H1 H2]. cbn [fst snd] in *.
  destruct (is_zero C DC base && is_zero C DC ex); [reflexivity|].
  destruct (is_zero C DC base); [apply zero_like_fine|]. destruct (is_zero C DC ex); [apply one_like_fine|].
  destruct (is_one C DC ex); [exact H1|]. exact (op_bin_fine s_pow 0 base ex find_pow eq_refl H1 H2).
Qed.
Lemma neg_fine a : Wc a -> fine Wc (d_neg C tb a).
Proof. intros Ha. exact (op_un_fine s_minus 4 a find_minus eq_refl Ha). Qed.
Lemma one_fine : fine Wc (d_one C DC). Proof. apply from_num_fine. Qed.
Lemma zero_fine : fine Wc (d_zero C DC). Proof. apply from_num_fine. Qed.
Lemma sq_fine a : Wc a -> fine Wc (sq C DC tb a).
Proof. intros Ha. unfold sq. apply (fine_bind _ _ _ _ (from_num_fine _)). intros two H2. exact (pow_fine a two Ha H2). Qed.
Lemma un_fine name k a : find_op name tb 0 = Some k -> has_un tb k = true -> Wc a -> fine Wc (un C tb name a).
Proof. intros Hf Hu Ha. exact (op_un_fine name k a Hf Hu Ha). Qed.
Lemma wlu_fine (e : deepex D) k us : Wc e -> duop e = k :: us -> fine (fun x => Wc x /\ duop x = us /\ dnodes x = dnodes e /\ dbops x = dbops e /\ dvars x = dvars e) (wlu e).
Proof.
  intros [He Ue] Hu. destruct e as [n b u v]. cbn [duop] in Hu. subst u. cbn [wlu fine dnodes dbops dvars duop]. split; [|repeat split].
  split; [unfold dclosed in *; cbn [dvars] in *; rewrite dwf_unfold in *; exact He|].
  rewrite uok_unfold in *. destruct Ue as [U1 U2]. cbn [forallb] in U1. apply andb_prop in U1. split; [exact (proj2 U1)|exact U2].
Qed.

(* ---- the rules ---- *)
Ltac fstep :=
  match goal with
  | H : duop ?f = _ :: _ |- fine _ (bind (wlu ?f) _) =>
      eapply fine_bind; [eapply (wlu_fine f); [eassumption|exact H]|let x := fresh "x" in let Hx := fresh "Hx" in intros x (Hx & _ & _ & _ & _)]
  | |- fine _ (bind (d_one _ _) _) => eapply fine_bind; [apply one_fine|intros ? ?]
  | |- fine _ (bind (d_zero _ _) _) => eapply fine_bind; [apply zero_fine|intros ? ?]
  | |- fine _ (bind (from_num _ _) _) => eapply fine_bind; [apply from_num_fine|intros ? ?]
  | |- fine _ (bind (d_add _ _ _ _ _) _) => eapply fine_bind; [apply add_fine; assumption|intros ? ?]
  | |- fine _ (bind (d_sub _ _ _ _) _) => eapply fine_bind; [apply sub_fine; assumption|intros ? ?]
  | |- fine _ (bind (d_mul _ _ _ _ _) _) => eapply fine_bind; [apply mul_fine; assumption|intros ? ?]
  | |- fine _ (bind (d_div _ _ _ _ _) _) => eapply fine_bind; [apply div_fine; assumption|intros ? ?]
  | |- fine _ (bind (d_pow _ _ _ _ _) _) => eapply fine_bind; [apply pow_fine; assumption|intros ? ?]
  | |- fine _ (bind (d_neg _ _ _) _) => eapply fine_bind; [apply neg_fine; assumption|intros ? ?]
  | |- fine _ (bind (sq _ _ _ _) _) => eapply fine_bind; [apply sq_fine; assumption|intros ? ?]
  | |- fine _ (bind (un _ _ n_ln _) _) => eapply fine_bind; [apply (un_fine n_ln 30); [reflexivity|reflexivity|assumption]|intros ? ?]
  | |- fine _ (bind (un _ _ n_cos _) _) => eapply fine_bind; [apply (un_fine n_cos 11); [reflexivity|reflexivity|assumption]|intros ? ?]
  | |- fine _ (bind (un _ _ n_sin _) _) => eapply fine_bind; [apply (un_fine n_sin 10); [reflexivity|reflexivity|assumption]|intros ? ?]
  | |- fine _ (bind (un _ _ n_sqrt _) _) => eapply fine_bind; [apply (un_fine n_sqrt 28); [reflexivity|reflexivity|assumption]|intros ? ?]
  | |- fine _ (bind (un _ _ n_cosh _) _) => eapply fine_bind; [apply (un_fine n_cosh 17); [reflexivity|reflexivity|assumption]|intros ? ?]
  | |- fine _ (bind (un _ _ n_sinh _) _) => eapply fine_bind; [apply (un_fine n_sinh 16); [reflexivity|reflexivity|assumption]|intros ? ?]
  | |- fine _ (bind (un _ _ n_tanh _) _) => eapply fine_bind; [apply (un_fine n_tanh 18); [reflexivity|reflexivity|assumption]|intros ? ?]
  end.
Ltac flast :=
  match goal with
  | |- fine _ (Ok _) => cbn [fine]; assumption
  | |- fine _ (d_one _ _) => apply one_fine
  | |- fine _ (d_zero _ _) => apply zero_fine
  | |- fine _ (d_add _ _ _ _ _) => apply add_fine; assumption
  | |- fine _ (d_sub _ _ _ _) => apply sub_fine; assumption
  | |- fine _ (d_mul _ _ _ _ _) => apply mul_fine; assumption
  | |- fine _ (d_div _ _ _ _ _) => apply div_fine; assumption
  | |- fine _ (d_pow _ _ _ _ _) => apply pow_fine; assumption
  | |- fine _ (d_neg _ _ _) => apply neg_fine; assumption
  | |- fine _ (sq _ _ _ _) => apply sq_fine; assumption
  | |- fine _ (un _ _ n_cos _) => apply (un_fine n_cos 11); [reflexivity|reflexivity|assumption]
  | |- fine _ (un _ _ n_cosh _) => apply (un_fine n_cosh 17); [reflexivity|reflexivity|assumption]
  | |- fine _ (un _ _ n_sinh _) => apply (un_fine n_sinh 16); [reflexivity|reflexivity|assumption]
  end.

Theorem urule_fine r (f : deepex D) k us : Wc f -> duop f = k :: us -> fine Wc (apply_urule C DC tb r f).
Proof. intros Wf Hu. destruct r; cbn [apply_urule]; repeat fstep; flast. Qed.

Definition Wvd (v : valder (D:=D)) : Prop := Wc (vd_val v) /\ Wc (vd_der v).
Theorem brule_fine br name (a b : valder (D:=D)) : Wvd a -> Wvd b -> bcode_rule br <> BcOther -> fine Wvd (apply_brule C DC tb br name a b).
Proof.
  intros [Wa Wa'] [Wb Wb'] Hne. destruct br; cbn [bcode_rule] in Hne; try (exfalso; apply Hne; reflexivity); cbn [apply_brule];
    repeat fstep; cbn [fine Wvd vd_val vd_der]; split; assumption.
Qed.

(* ---- the unary stack ---- *)
Definition uruled' (k : nat) : Prop := exists b ur, find_rule (repr_of tb k) = Some (b, Some ur).
Lemma outer_factors_fine : forall n (e : deepex D), Wc e -> Forall uruled' (duop e) -> length (duop e) = n ->
  fine (Forall Wc) (outer_factors C DC tb e n).
Proof.
  induction n as [|n IH]; intros e We Hr Hl; [cbn; constructor|].
  cbn [outer_factors]. destruct (duop e) as [|k us] eqn:Eu; [cbn in Hl; lia|].
  inversion Hr as [|? ? (b & ur & Er) Hr']; subst. rewrite Er.
  apply (fine_bind Wc _ _ _ (urule_fine ur e k us We Eu)). intros fac Wfac.
  eapply fine_bind; [exact (wlu_fine e k us We Eu)|]. intros e' (We' & Hu' & _ & _ & _).
  eapply fine_bind; [apply (IH e' We'); [rewrite Hu'; exact Hr'|rewrite Hu'; cbn in Hl; lia]|].
  intros rest Hrest. cbn [fine]. constructor; assumption.
Qed.
Lemma fold_mul_fine : forall (facs : list (deepex D)) (r : res (deepex D)), Forall Wc facs -> fine Wc r ->
  fine Wc (fold_left (fun acc fac => do a <- acc; d_mul C DC tb fac a) facs r).
Proof.
  induction facs as [|f tl IH]; intros r HF Hr; [exact Hr|]. inversion HF; subst. cbn [fold_left]. apply IH; [assumption|].
  eapply fine_bind; [exact Hr|]. intros a Wa. apply mul_fine; assumption.
Qed.
Lemma outer_fine (e : deepex D) : Wc e -> Forall uruled' (duop e) -> fine Wc (derivative_outer C DC tb e).
Proof.
  intros We Hr. unfold derivative_outer. eapply fine_bind; [exact (outer_factors_fine _ e We Hr eq_refl)|]. intros facs Hf.
  eapply fine_bind; [apply one_fine|]. intros o Wo. apply fold_mul_fine; [exact Hf|exact Wo].
Qed.

(* ---- the reduction loop ---- *)
Definition opA' (bops : list dbop) (b : nat) (n1 n2 : valder (D:=D)) : res (valder (D:=D)) :=
  match nth_error bops b with
  | Some o =>
      match find_rule (repr_of tb (bidx o)) with
      | Some (Some br, _) => apply_brule C DC tb br (repr_of tb (bidx o)) n1 n2
      | Some (None, _) => Err E_NORULE
      | None => Err E_NORULE
      end
  | None => Panic 327
  end.
Lemma inner_loop_rloop' bops : forall sigma i ni nodes,
  inner_loop C DC tb sigma i ni nodes bops MError = rloop (opA' bops) sigma i ni nodes.
Proof.
  induction sigma as [|b stl IH]; intros i ni nodes; [reflexivity|]. cbn [inner_loop rloop].
  destruct (nth_error ni i) as [p|]; [|reflexivity].
  destruct (nth_error nodes p) as [n1|]; [|reflexivity]. destruct (nth_error nodes (S p)) as [n2|]; [|reflexivity].
  unfold opA'. destruct (nth_error bops b) as [o|]; [|reflexivity].
  destruct (find_rule (repr_of tb (bidx o))) as [[[br|] u]|]; cbn [bind]; try reflexivity.
  destruct (apply_brule C DC tb br (repr_of tb (bidx o)) n1 n2); cbn [bind]; try reflexivity. apply IH.
Qed.
Definition bruled' (o : dbop) : Prop := exists br u, find_rule (repr_of tb (bidx o)) = Some (Some br, u).
Lemma opA_fine bops : Forall bruled' bops -> forall k a b, k < length bops -> Wvd a -> Wvd b -> fine Wvd (opA' bops k a b).
Proof.
  intros Hr k a b Hk Wa Wb. unfold opA'. destruct (nth_error bops k) as [o|] eqn:Eo; [|apply nth_error_None in Eo; lia].
  rewrite Forall_forall in Hr. destruct (Hr o (nth_error_In _ _ Eo)) as (br & u & Er). rewrite Er.
  exact (brule_fine br _ a b Wa Wb (proj2 (brule_code _ br u Er))).
Qed.

(* ---- the recursion ---- *)
Lemma ddepth_in nodes bops uop vars (e' : deepex D) : In (DExpr e') nodes -> ddepth e' < ddepth (DE nodes bops uop vars).
Proof.
  cbn [ddepth]. induction nodes as [|n tl IH]; intros H; [destruct H|]. destruct H as [->|H]; [lia|].
  specialize (IH H). destruct n; lia.
Qed.
Lemma sort_len (key : nat -> Z) n : length (sort_desc key (seq 0 n)) = n.
Proof.
  destruct (sort_desc_spec key n) as (_ & ND & Hin).
  apply Nat.le_antisymm.
  - rewrite <- (seq_length n 0) at 2. apply NoDup_incl_length; [exact ND|]. intros i Hi. apply in_seq. apply Hin in Hi. lia.
  - rewrite <- (seq_length n 0) at 1. apply NoDup_incl_length; [apply seq_NoDup|]. intros i Hi. apply in_seq in Hi. apply Hin. lia.
Qed.

Variable vi : nat.
Variable okvar : nat -> str -> Prop.
Variable okvars : list str -> Prop.
Local Notation hs e := (dwf tfl okvar okvars e /\ hc e).
Lemma Wc_of (e : deepex D) : dwf tfl okvar okvars e -> hc e -> uok tb e -> Wc e.
Proof. intros Hw Hh Hu. split; [exact (hc_closed tfl okvar okvars e (dvars e) Hw Hh (incl_refl _))|exact Hu]. Qed.

(* the level with one node, given what its node contributes *)
Lemma single_fine (e : deepex D) (rr : res (deepex D)) : Wc e -> Forall uruled' (duop e) -> fine Wc rr ->
  fine Wc (do inner <- (do r <- rr; do ' (r', _) <- var_names_union r e; Ok r');
           do outer <- derivative_outer C DC tb e; d_mul C DC tb inner outer).
Proof.
  intros We Hu Hr. eapply fine_bind.
  - eapply fine_bind; [exact Hr|]. intros r Wr. eapply fine_bind; [exact (union_fine r e Wr We)|]. intros [r' e2] [H1 _]. exact H1.
  - intros inner Wi. eapply fine_bind; [exact (outer_fine e We Hu)|]. intros outer Wo. exact (mul_fine inner outer Wi Wo).
Qed.
Lemma leaf_fine fuel' (n : dnode D) : 0 < fuel' -> match n with DExpr _ => False | _ => True end ->
  fine Wvd (do v <- new_deepex C [n] [] []; do d <- partial_deepex C DC tb fuel' vi v MError; Ok {| vd_val := v; vd_der := d |}).
Proof.
  intros Hf Hn. destruct fuel' as [|f]; [lia|]. destruct n as [e'|d0|j x]; [contradiction| |].
  - change (new_deepex C [DNum d0] [] []) with (Ok (DE [DNum d0] [] [] []) : res (deepex D)). cbn [bind].
    assert (Wl : Wc (DE [DNum d0] [] [] [])) by apply const_Wc.
    eapply fine_bind; [|intros d Wd; cbn [fine Wvd vd_val vd_der]; split; [exact Wl|exact Wd]].
    cbn [partial_deepex dnodes]. exact (single_fine _ _ Wl (Forall_nil _) zero_fine).
  - change (new_deepex C [DVar j x] [] []) with (Ok (DE [DVar j x] [] [] [x]) : res (deepex D)). cbn [bind].
    assert (Wl : Wc (DE [DVar j x] [] [] [x])).
    { split; [unfold dclosed; cbn [dvars]; rewrite dwf_unfold; split; [reflexivity|]; split; [exact I|]; split; [intros o []|]; constructor; [left; reflexivity|constructor]|].
      rewrite uok_unfold. split; [reflexivity|constructor; [exact I|constructor]]. }
    eapply fine_bind; [|intros d Wd; cbn [fine Wvd vd_val vd_der]; split; [exact Wl|exact Wd]].
    cbn [partial_deepex dnodes]. apply (single_fine _ _ Wl (Forall_nil _)). destruct (Nat.eqb j vi); [apply one_fine|apply zero_fine].
Qed.

Theorem partial_total : forall fuel (e : deepex D), ddepth e < fuel -> dwf tfl okvar okvars e -> hc e -> uok tb e -> ruled tb e ->
  fine Wc (partial_deepex C DC tb fuel vi e MError).
Proof.
  induction fuel as [|fuel IH]; intros e Hd Hw Hh Huk Hr; [lia|].
  pose proof (Wc_of e Hw Hh Huk) as We.
  destruct e as [nodes bops uop vars]. rewrite uok_unfold in Huk. destruct Huk as [_ Hukn].
  pose proof Hw as Hw0. rewrite dwf_unfold in Hw. destruct Hw as (Hlen & _ & Hops & Hnodes).
  pose proof Hh as Hh0. rewrite hc_unfold in Hh.
  rewrite ruled_unfold in Hr. destruct Hr as (Rb & Ru & Rn).
  assert (Hu : Forall uruled' (duop (DE nodes bops uop vars))) by exact Ru.
  cbn [partial_deepex dnodes dbops].
  destruct nodes as [|n [|n2 tl]]; [cbn in Hlen; discriminate| |].
  - (* one node *)
    apply (single_fine (DE [n] bops uop vars) _ We Hu).
    inversion Hnodes as [|? ? Hn1 _]; subst. inversion Hh as [|? ? Hh1 _]; subst. inversion Rn as [|? ? Rn1 _]; subst. inversion Hukn as [|? ? Un1 _]; subst.
    destruct n as [e'|d0|j x]; cbn [nwf nhc nruled Unparse.nuok] in *; [|apply zero_fine|destruct (Nat.eqb j vi); [apply one_fine|apply zero_fine]].
    apply (IH e'); [|exact Hn1|exact (proj2 Hh1)|exact Un1|exact Rn1].
    pose proof (ddepth_in [DExpr e'] bops uop vars e' (or_introl eq_refl)). lia.
  - (* several nodes *)
    set (nodes := n :: n2 :: tl) in *.
    eapply fine_bind; [|intros inner Wi; eapply fine_bind; [exact (outer_fine _ We Hu)|intros outer Wo; exact (mul_fine inner outer Wi Wo)]].
    eapply (fine_bind (fun vds => Forall Wvd vds /\ length vds = length nodes)).
    + (* the value/derivative pairs of the nodes *)
      assert (Hfuel : 0 < fuel).
      { destruct fuel; [|lia]. exfalso. cbn [ddepth] in Hd. lia. }
      clear Hlen. assert (Hin : forall m, In m nodes -> In m nodes) by auto. revert Hin. generalize nodes at 1 3 4 as l.
      induction l as [|m ms IHl]; intros Hin; [cbn; split; [constructor|reflexivity]|].
      cbn [mapM].
      assert (Hm : fine Wvd (do v <- match m with DExpr e' => Ok e' | _ => new_deepex C [m] [] [] end;
                             do d <- partial_deepex C DC tb fuel vi v MError; Ok {| vd_val := v; vd_der := d |})).
      { pose proof (Hin m (or_introl eq_refl)) as Hmi. rewrite Forall_forall in Hnodes, Hh, Rn, Hukn.
        pose proof (Hnodes m Hmi) as W1. pose proof (Hh m Hmi) as H1. pose proof (Rn m Hmi) as R1. pose proof (Hukn m Hmi) as U1.
        destruct m as [e'|d0|j x]; cbn [nwf nhc nruled Unparse.nuok] in *; [|exact (leaf_fine fuel (DNum d0) Hfuel I)|exact (leaf_fine fuel (DVar j x) Hfuel I)].
        cbn [bind]. eapply fine_bind; [apply (IH e'); [pose proof (ddepth_in nodes bops uop vars e' Hmi); lia|exact W1|exact (proj2 H1)|exact U1|exact R1]|].
        intros d Wd. cbn [fine Wvd vd_val vd_der]. split; [exact (Wc_of e' W1 (proj2 H1) U1)|exact Wd]. }
      eapply fine_bind; [exact Hm|]. intros vd Wvd1.
      eapply fine_bind; [exact (IHl (fun m' Hm' => Hin m' (or_intror Hm')))|]. intros vt [Wvt Lvt].
      cbn [fine]. split; [constructor; assumption|cbn [length]; lia].
    + intros vds [Wvds Lvds]. rewrite inner_loop_rloop'.
      destruct (sort_desc_spec (dkey nodes bops) (length bops)) as (_ & NDs & Hin).
      eapply fine_bind.
      * apply (rloop_fine (opA' bops) Wvd (fun k => k < length bops) (fun k a b Hk => opA_fine bops Rb k a b Hk)
                 (prioritized_indices bops nodes) 0 (prioritized_indices bops nodes) vds (seq 0 (length bops)) Wvds).
        -- rewrite seq_length, Lvds. exact Hlen.
        -- apply seq_NoDup.
        -- exact NDs.
        -- intros j Hj. apply Hin. exact Hj.
        -- intros t j Ht. exists j. split; [exact Ht|]. pose proof (proj1 (Hin j) (nth_error_In _ _ Ht)) as Hj.
           rewrite nth_error_nth' with (d := 0) by (rewrite seq_length; exact Hj). rewrite seq_nth by exact Hj. reflexivity.
      * intros final [Wf Lf]. unfold prioritized_indices in Lf. rewrite sort_len in Lf.
        destruct final as [|vd ft]; [cbn in Lf; lia|].
        inversion Wf as [|? ? Wvd1 _]; subst.
        eapply fine_bind; [exact (union_fine (vd_der vd) _ (proj2 Wvd1) We)|]. intros [r' e2] [H1 _]. exact H1.
Qed.
End PartialTotal.
