(* Model/Base.v — shared vocabulary of the executable model of exmex.
   No proofs here (so the model still runs when a proof breaks). *)
From Coq Require Export List ZArith NArith Bool Arith.
Export ListNotations.

(* Text = list of Unicode code points.  Rust `str` order (UTF-8 byte order) coincides with the
   lexicographic order on code points. *)
Definition str := list N.

(* Outcomes: Ok / ExError (code only for diagnostics) / a Rust panic (site = source line) *)
Inductive res (A : Type) := Ok (a : A) | Err (e : nat) | Panic (site : nat).
Arguments Ok {A}. Arguments Err {A}. Arguments Panic {A}.
Definition bind {A B} (r : res A) (f : A -> res B) : res B :=
  match r with Ok a => f a | Err e => Err e | Panic s => Panic s end.
Notation "'do' x <- r ; k" := (bind r (fun x => k)) (at level 200, x name, r at level 100, k at level 200).
Notation "'do' ' p <- r ; k" := (bind r (fun x => let p := x in k)) (at level 200, p pattern, r at level 100, k at level 200).

Fixpoint mapM {A B} (f : A -> res B) (l : list A) : res (list B) :=
  match l with [] => Ok [] | x :: tl => do y <- f x; do ys <- mapM f tl; Ok (y :: ys) end.

(* error codes (never compared between model and implementation; kinds only) *)
Definition E_TOKENIZE := 1%nat.   Definition E_COMMA := 2%nat.     Definition E_EMPTY := 3%nat.
Definition E_PAIR := 4%nat.       Definition E_PAREN := 5%nat.     Definition E_LASTOP := 6%nat.
Definition E_BINRIGHT := 7%nat.   Definition E_NOUNARY := 8%nat.   Definition E_NOBIN := 9%nat.
Definition E_UNCLOSE := 10%nat.   Definition E_NONODE := 11%nat.   Definition E_COUNT := 12%nat.
Definition E_ARITY := 13%nat.     Definition E_UNKNOWNOP := 14%nat. Definition E_INDEX := 15%nat.
Definition E_NORULE := 16%nat.    Definition E_LITERAL := 17%nat.  Definition E_TOKCFG := 18%nat.
Definition E_FUEL := 19%nat.      Definition E_POW00 := 20%nat.

(* operator table *)
Record binspec := { prio : Z; comm : bool }.
Record opspec := { repr : str; obin : option binspec; ounary : bool; oconst : bool }.
Definition optable := list opspec.

(* free term algebra: the correspondence carrier; Dflt = what mem::take leaves behind *)
Inductive term :=
| Lit (l : str) | Cst (k : nat) | V (i : nat)
| Un (k : nat) (a : term) | Bin (k : nat) (a b : term) | Dflt.

(* tokens, generic in the data type D of the parsed numbers *)
Inductive token (D : Type) := TNum (d : D) | TOpen | TClose | TOp (k : nat) | TVar (x : str).
Arguments TNum {D}. Arguments TOpen {D}. Arguments TClose {D}. Arguments TOp {D}. Arguments TVar {D}.

(* a data type as the generic code sees it: Default, FromStr, the constants and operator functions
   of the table (indexed by position in the table) *)
Record carrier (D : Type) := {
  dflt : D;                       (* Default::default(), what mem::take leaves behind *)
  lit : str -> option D;          (* FromStr on the matched literal text *)
  cst : nat -> D;                 (* value of the constant at table index k *)
  binf : nat -> D -> D -> D;      (* binary function of table index k *)
  unf : nat -> D -> D;            (* unary function of table index k *)
  show : D -> str                 (* the Debug text of a value (used by unparse) *)
}.
Arguments dflt {D}. Arguments lit {D}. Arguments cst {D}. Arguments binf {D}. Arguments unf {D}. Arguments show {D}.

(* Debug text of a term as the harness prints it: a literal prints its text, everything else
   prints something that is not a literal (the section sign U+00A7) *)
Definition show_term (t : term) : str := match t with Lit s => s | _ => [167%N] end.
Definition term_carrier : carrier term :=
  {| dflt := Dflt; lit := fun s => Some (Lit s); cst := Cst; binf := Bin; unf := Un; show := show_term |}.

(* list helpers *)
Fixpoint update_nth {A} (n : nat) (f : A -> A) (l : list A) {struct l} : list A :=
  match l, n with
  | [], _ => []
  | x :: tl, O => f x :: tl
  | x :: tl, S m => x :: update_nth m f tl
  end.
Fixpoint set_nth {A} (n : nat) (x : A) (l : list A) {struct l} : list A :=
  match l, n with
  | [], _ => []
  | _ :: tl, O => x :: tl
  | y :: tl, S m => y :: set_nth m x tl
  end.
Fixpoint remove_nth {A} (n : nat) (l : list A) {struct l} : list A :=
  match l, n with
  | [], _ => []
  | _ :: tl, O => tl
  | y :: tl, S m => y :: remove_nth m tl
  end.

(* strings *)
Fixpoint str_eqb (a b : str) : bool :=
  match a, b with
  | [], [] => true
  | x :: a', y :: b' => N.eqb x y && str_eqb a' b'
  | _, _ => false
  end.
Fixpoint str_ltb (a b : str) : bool :=      (* strict lexicographic order on code points *)
  match a, b with
  | [], [] => false
  | [], _ :: _ => true
  | _ :: _, [] => false
  | x :: a', y :: b' => if N.ltb x y then true else if N.eqb x y then str_ltb a' b' else false
  end.
Fixpoint is_prefix (p s : str) : bool :=
  match p, s with
  | [], _ => true
  | x :: p', y :: s' => N.eqb x y && is_prefix p' s'
  | _ :: _, [] => false
  end.

Fixpoint term_eqb (a b : term) : bool :=
  match a, b with
  | Lit x, Lit y => str_eqb x y
  | Cst i, Cst j => Nat.eqb i j
  | V i, V j => Nat.eqb i j
  | Un k x, Un l y => Nat.eqb k l && term_eqb x y
  | Bin k x1 x2, Bin l y1 y2 => Nat.eqb k l && term_eqb x1 y1 && term_eqb x2 y2
  | Dflt, Dflt => true
  | _, _ => false
  end.

(* insertion sort, stable, descending by key: position of x is after every y with key y >= key x.
   The key of every index is computed once. *)
Fixpoint insert_by (kx : Z * nat) (l : list (Z * nat)) : list (Z * nat) :=
  match l with [] => [kx] | y :: tl => if (fst y <? fst kx)%Z then kx :: l else y :: insert_by kx tl end.
Definition sort_desc (k : nat -> Z) (l : list nat) : list nat :=
  map snd (fold_left (fun acc i => insert_by (k i, i) acc) l []).

(* sorted insertion of strings without duplicates (sort_unstable on distinct names + dedup) *)
Fixpoint insert_str (x : str) (l : list str) : list str :=
  match l with
  | [] => [x]
  | y :: tl => if str_ltb x y then x :: l else if str_eqb x y then l else y :: insert_str x tl
  end.
Definition sort_strs (l : list str) : list str := fold_left (fun acc x => insert_str x acc) l [].

Fixpoint index_of (x : str) (l : list str) (i : nat) : option nat :=
  match l with [] => None | y :: tl => if str_eqb x y then Some i else index_of x tl (S i) end.
