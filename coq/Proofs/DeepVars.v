(* Proofs/DeepVars.v — variable lists: strictly sorted lists with the same elements are equal, hence sort_strs only
   depends on the set of names; the variable list DeepEx::compile returns. *)
From Coq Require Import List Arith Lia Bool NArith Sorting.Sorted.
Import ListNotations.
From Exmex.Model Require Import Base EvalBinary Lexer Flat Deep.
From Exmex.Proofs Require Import Vars DeepSem DeepCompile.

Lemma str_lt_asym a b : str_lt a b -> str_lt b a -> False.
Proof. intros H1 H2. pose proof (str_ltb_trans a b a H1 H2) as H. unfold str_lt in H. rewrite str_ltb_irrefl in H. discriminate. Qed.

Lemma sorted_unique : forall l l', StronglySorted str_lt l -> StronglySorted str_lt l' ->
  (forall y, In y l <-> In y l') -> l = l'.
Proof.
  induction l as [|x l IH]; intros l' HS HS' Hiff.
  - destruct l' as [|y l']; [reflexivity|]. exfalso. apply (proj2 (Hiff y)). left. reflexivity.
  - destruct l' as [|y l']; [exfalso; apply (proj1 (Hiff x)); left; reflexivity|].
    apply StronglySorted_inv in HS. destruct HS as [HS HF]. apply StronglySorted_inv in HS'. destruct HS' as [HS' HF'].
    rewrite Forall_forall in HF, HF'.
    assert (Exy : x = y).
    { destruct (proj1 (Hiff x) (or_introl eq_refl)) as [E|Hx]; [symmetry; exact E|].
      destruct (proj2 (Hiff y) (or_introl eq_refl)) as [E|Hy]; [exact E|].
      exfalso. exact (str_lt_asym x y (HF y Hy) (HF' x Hx)). }
    subst y. f_equal. apply IH; [exact HS|exact HS'|]. intros z. split; intros Hz.
    + destruct (proj1 (Hiff z) (or_intror Hz)) as [E|H]; [|exact H]. subst z. exfalso. specialize (HF x Hz). unfold str_lt in HF. rewrite str_ltb_irrefl in HF. discriminate.
    + destruct (proj2 (Hiff z) (or_intror Hz)) as [E|H]; [|exact H]. subst z. exfalso. specialize (HF' x Hz). unfold str_lt in HF'. rewrite str_ltb_irrefl in HF'. discriminate.
Qed.
Lemma sort_strs_ext l l' : (forall y, In y l <-> In y l') -> sort_strs l = sort_strs l'.
Proof.
  intros H. destruct (sort_strs_spec l) as (S1 & _ & I1). destruct (sort_strs_spec l') as (S2 & _ & I2).
  apply sorted_unique; [exact S1|exact S2|]. intros y. rewrite I1, I2. apply H.
Qed.
Lemma sort_strs_sorted_id l : StronglySorted str_lt l -> sort_strs l = l.
Proof.
  intros HS. destruct (sort_strs_spec l) as (S1 & _ & I1). apply sorted_unique; [exact S1|exact HS|exact I1].
Qed.
Lemma sort_strs_idem l : sort_strs (sort_strs l) = sort_strs l.
Proof. apply sort_strs_sorted_id. apply sort_strs_spec. Qed.

Section DeepVars.
Context {D : Type}.
Variable C : carrier D.

Lemma lift_nodes_vars (nodes : list (dnode D)) bops uop vars :
  dvars (lift_nodes (DE nodes bops uop vars)) =
  match nodes, uop with [DExpr e1], [] => dvars e1 | _, _ => vars end.
Proof.
  destruct nodes as [|n [|n' tl]]; destruct uop; try destruct n; reflexivity.
Qed.
Lemma dcompile_vars (e0 e' : deepex D) : dcompile C e0 = Ok e' -> dvars e' = dvars (lift_nodes e0).
Proof.
  unfold dcompile. destruct (lift_nodes e0) as [nodes bops uop vars].
  destruct (dcompile_loop C _ 0 _ nodes bops _ []) as [[nodes' used]| |]; try discriminate. cbn [bind].
  destruct nodes' as [|m [|m' mt]]; try destruct m; intros H; inversion H; reflexivity.
Qed.
End DeepVars.
