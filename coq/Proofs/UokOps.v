(* Proofs/UokOps.v — every unary operator recorded in an expression is a unary operator of the table: preserved by
   reset_vars, operator application and substitution (for what the parser builds see UnparseParsed). *)
From Coq Require Import List Arith Lia Bool.
Import ListNotations.
From Exmex.Model Require Import Base EvalBinary Lexer Flat Deep.
From Exmex.Spec Require Import RefSem.
From Exmex.Proofs Require Import Vars DeepSem DeepCompile DeepSubs Unparse UnparseParsed.
Open Scope nat_scope.

Section UokOps.
Context {D : Type}.
Variable C : carrier D.
Variable tb : optable.
Local Notation uok := (@uok D tb).
Local Notation nuok := (@nuok D tb).

Lemma reset_vars_uok all : forall (e e1 : deepex D), uok e -> reset_vars e all = Ok e1 -> uok e1.
Proof.
  induction e as [nodes bops uop vars IH] using deep_ind. intros e1 Hu H.
  rewrite reset_vars_unfold in H. destruct (mapM (rv_node all) nodes) as [nodes'| |] eqn:Em; cbn [bind] in H; try discriminate.
  inversion H; subst e1. clear H. rewrite uok_unfold in *. destruct Hu as [Hu Hn]. split; [exact Hu|].
  revert nodes' Em. induction nodes as [|n tl IHn]; intros nodes' Em; [cbn in Em; inversion Em; constructor|].
  cbn [mapM] in Em. destruct (rv_node all n) as [n'| |] eqn:En; cbn [bind] in Em; try discriminate.
  destruct (mapM (rv_node all) tl) as [tl'| |] eqn:Et; cbn [bind] in Em; try discriminate. inversion Em; subst nodes'.
  inversion Hn as [|? ? Hn1 Hn2]; subst. constructor; [|exact (IHn (fun e' H => IH e' (or_intror H)) Hn2 tl' eq_refl)].
  destruct n as [c|d|i x]; cbn [rv_node] in En.
  - destruct (reset_vars c all) as [c'| |] eqn:Ec; cbn [bind] in En; try discriminate. inversion En; subst n'.
    exact (IH c (or_introl eq_refl) c' Hn1 Ec).
  - inversion En; subst. exact I.
  - destruct (index_of x all 0); inversion En; subst. exact I.
Qed.
Lemma union_uok (a b a' b' : deepex D) : uok a -> uok b -> var_names_union a b = Ok (a', b') -> uok a' /\ uok b'.
Proof.
  intros Ha Hb H. unfold var_names_union in H.
  destruct (reset_vars a _) as [a1| |] eqn:Ea; cbn [bind] in H; try discriminate.
  destruct (reset_vars b _) as [b1| |] eqn:Eb; cbn [bind] in H; try discriminate. inversion H; subst.
  split; [exact (reset_vars_uok _ a a' Ha Ea)|exact (reset_vars_uok _ b b' Hb Eb)].
Qed.
Theorem operate_bin_uok (a b r : deepex D) name : uok a -> uok b -> operate_bin C tb a b name = Ok r -> uok r.
Proof.
  intros Ha Hb H. unfold operate_bin in H. destruct (find_op name tb 0) as [k|]; [|discriminate].
  destruct (mk_bop tb k) as [o| |]; cbn [bind] in H; try discriminate.
  destruct (var_names_union a b) as [[a' b']| |] eqn:Eu; cbn [bind] in H; try discriminate.
  destruct (union_uok a b a' b' Ha Hb Eu) as [Ha' Hb'].
  destruct (new_deepex C [DExpr a'; DExpr b'] [o] []) as [r0| |] eqn:En; cbn [bind] in H; try discriminate.
  assert (H0 : uok r0).
  { refine (new_deepex_uok C tb [DExpr a'; DExpr b'] [o] [] r0 eq_refl _ En). constructor; [exact Ha'|constructor; [exact Hb'|constructor]]. }
  exact (dcompile_uok C tb r0 r H0 H).
Qed.
Theorem operate_unary_uok (a r : deepex D) name : uok a -> operate_unary C tb a name = Ok r -> uok r.
Proof.
  intros Ha H. unfold operate_unary in H. destruct (find_op name tb 0) as [k|]; [|discriminate].
  destruct (has_un tb k) eqn:Ek; cbn [negb] in H; [|discriminate]. destruct a as [nodes bops uop vars].
  refine (dcompile_uok C tb _ r _ H). rewrite uok_unfold in *. destruct Ha as [Hu Hn]. split; [|exact Hn].
  cbn [forallb]. rewrite Hu. unfold has_un, op_of in Ek. unfold is_un. rewrite Ek. reflexivity.
Qed.
Theorem subs_uok (sub : str -> option (deepex D)) : (forall x r, sub x = Some r -> uok r) ->
  forall e e' : deepex D, uok e -> subs C sub e = Ok e' -> uok e'.
Proof.
  intros Hsub. induction e as [nodes bops uop vars IH] using deep_ind. intros e' Hu H.
  rewrite subs_unfold in H. destruct (mapM (subs_node C sub) nodes) as [ps| |] eqn:Em; cbn [bind] in H; try discriminate.
  destruct (reset_vars _ _) as [e1| |] eqn:Er; cbn [bind] in H; try discriminate.
  rewrite uok_unfold in Hu. destruct Hu as [Hu Hn].
  assert (Hps : Forall nuok (map fst ps)).
  { clear Er. revert ps Em. induction nodes as [|n tl IHn]; intros ps Em; [cbn in Em; inversion Em; constructor|].
    cbn [mapM] in Em. destruct (subs_node C sub n) as [p| |] eqn:En; cbn [bind] in Em; try discriminate.
    destruct (mapM (subs_node C sub) tl) as [pt| |] eqn:Et; cbn [bind] in Em; try discriminate. inversion Em; subst ps.
    inversion Hn as [|? ? Hn1 Hn2]; subst. cbn [map]. constructor; [|exact (IHn (fun e0 H0 => IH e0 (or_intror H0)) Hn2 pt eq_refl)].
    destruct n as [c|d|i x]; cbn [subs_node] in En.
    - destruct (subs C sub c) as [c'| |] eqn:Ec; cbn [bind] in En; try discriminate. inversion En; subst p. cbn [fst Unparse.nuok].
      exact (IH c (or_introl eq_refl) c' Hn1 Ec).
    - inversion En; subst. exact I.
    - destruct (sub x) as [rr|] eqn:Ex; inversion En; subst; cbn [fst Unparse.nuok]; [exact (Hsub x rr Ex)|exact I]. }
  assert (H0 : uok (DE (map fst ps) bops uop vars)) by (rewrite uok_unfold; split; assumption).
  exact (dcompile_uok C tb e1 e' (reset_vars_uok _ _ e1 H0 Er) H).
Qed.
End UokOps.
