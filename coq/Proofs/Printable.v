(* Proofs/Printable.v — `printable`: index-consistent with its sorted variable list, unary stacks of unary operators, and
   the listed variables are exactly the occurring ones.  Every deep expression parsed from an accepted token list is
   printable; operator application (by name) and substitution keep it; a printable expression prints the text of its
   tokens, and parsing these tokens gives the same variable list and the same value at every assignment.  (Derivatives
   and the neutral-element shortcuts of the overloaded operators can list variables that no longer occur: F6.) *)
From Coq Require Import List Arith Lia Bool ZArith Sorted.
Import ListNotations.
From Exmex.Model Require Import Base EvalBinary Lexer Flat Deep.
From Exmex.Spec Require Import RefSem.
From Exmex.Proofs Require Import Vars DeepVars DeepSem DeepCompile DeepSubs C11Main DeepParse DeepOps Unparse UnparseParsed UokOps ParseConsume Occurs OccursOps ParseBuilt ParseAny ConvertCompose.
Open Scope nat_scope.

Section Printable.
Context {D : Type}.
Variable C : carrier D.
Variable tb : optable.

Definition printable (e : deepex D) : Prop :=
  dindexed (flagged tb) (dvars e) e /\ uok tb e /\ same_names (dvars e) (occs e) /\ StronglySorted str_lt (dvars e).

Lemma printable_prints_its_variables (e : deepex D) : printable e -> dvars e = find_parsed_vars (utoks e).
Proof.
  intros ((Hw & _) & _ & Ho & HS).
  destruct (sort_strs_spec (vars_of (utoks e))) as (S1 & _ & I1).
  apply sorted_unique; [exact HS|exact S1|]. intros y. unfold find_parsed_vars. fold (vars_of (utoks e)). rewrite (I1 y).
  rewrite (utoks_vars e (dwf_counts _ _ _ e Hw)). exact (Ho y).
Qed.

Theorem parsed_printable (ts : list (token D)) e : parse_deep_tokens C tb ts = Ok e -> printable e.
Proof.
  intros H. destruct (parsed_any C tb ts e H) as (_ & Hw & _ & _ & Hu). destruct (parsed_any_deep_ok C tb ts e H) as [Hi _].
  split; [exact Hi|]. split; [exact Hu|]. split.
  - unfold parse_deep_tokens in H. destruct (check_preconditions tb ts) as [[]| |]; cbn [bind] in H; try discriminate.
    destruct (dparse C tb (S (length ts)) None ts (find_parsed_vars ts) [] [] []) as [[e0 rest]| |] eqn:Hp; cbn [bind] in H; try discriminate.
    inversion H; subst e0. exact (hocc_top e (dparse_hocc C tb _ _ _ _ _ _ _ e rest (Forall_nil _) Hp)).
  - destruct e as [nodes bops uop vars]. rewrite dwf_unfold in Hw. destruct Hw as (_ & [HS _] & _). exact HS.
Qed.

Let T (a b : D) : Prop := True.
Theorem operate_bin_printable (a b r : deepex D) name : printable a -> printable b -> operate_bin C tb a b name = Ok r -> printable r.
Proof.
  intros (Hia & Hua & Hoa & _) (Hib & Hub & Hob & _) H.
  assert (Hk : exists k, find_op name tb 0 = Some k /\ is_bin tb k = true).
  { unfold operate_bin in H. destruct (find_op name tb 0) as [k|]; [|discriminate]. exists k. split; [reflexivity|].
    unfold mk_bop in H. unfold is_bin. change (nth k tb _) with (op_of tb k). destruct (obin (op_of tb k)); [reflexivity|discriminate]. }
  destruct Hk as (k & Hf & Hb).
  destruct (operate_bin_ok C tb T (fun _ => I) (fun _ _ _ => I) (fun _ _ _ _ _ => I) (fun _ _ _ _ _ _ _ => I) (fun _ _ _ _ => I) (fun _ _ _ _ _ => I)
              a b name k Hf Hb (dindexed_closed _ _ _ Hia) (dindexed_closed _ _ _ Hib)) as (r' & Hr & Hc & _).
  rewrite H in Hr. inversion Hr; subst r'. pose proof (dconsistent_vars _ _ _ Hc) as Hv.
  split; [rewrite Hv; exact (dconsistent_indexed _ _ _ Hc)|]. split; [exact (operate_bin_uok C tb a b r name Hua Hub H)|].
  destruct (sort_strs_spec (dvars a ++ dvars b)) as (HS & _ & Hin). split; [|rewrite Hv; exact HS].
  intros y. rewrite Hv, (Hin y), (operate_bin_occs C tb a b r name H), !in_app_iff, (Hoa y), (Hob y). reflexivity.
Qed.
Theorem operate_unary_printable (a r : deepex D) name : printable a -> operate_unary C tb a name = Ok r -> printable r.
Proof.
  intros ((Hwa & Hva) & Hua & Hoa & HSa) H.
  assert (Hk : exists k, find_op name tb 0 = Some k /\ has_un tb k = true).
  { unfold operate_unary in H. destruct (find_op name tb 0) as [k|]; [|discriminate]. exists k. split; [reflexivity|]. destruct (has_un tb k); [reflexivity|discriminate]. }
  destruct Hk as (k & Hf & Hu).
  destruct (operate_unary_ok C tb T (fun _ => I) (fun _ _ _ => I) (fun _ _ _ _ _ => I) (fun _ _ _ _ _ _ _ => I) (fun _ _ _ _ => I) (fun _ _ _ _ _ => I)
              (fun _ _ => dflt C) _ _ a name k Hf Hu Hwa) as (r' & Hr & Hw & _).
  rewrite H in Hr. inversion Hr; subst r'.
  assert (Hv : dvars r = dvars a).
  { unfold operate_unary in H. rewrite Hf, Hu in H. cbn [negb] in H. destruct a as [nodes bops uop vars].
    rewrite (dcompile_vars C _ _ H), lift_nodes_vars. destruct nodes as [|n [|? ?]]; try reflexivity; destruct n; reflexivity. }
  split; [split; [rewrite Hv; exact Hw|reflexivity]|]. split; [exact (operate_unary_uok C tb a r name Hua H)|].
  split; [|rewrite Hv; exact HSa]. intros y. rewrite Hv, (operate_unary_occs C tb a r name H). exact (Hoa y).
Qed.
Theorem subs_printable (sub : str -> option (deepex D)) : (forall x r, sub x = Some r -> printable r) ->
  forall e e' : deepex D, printable e -> subs C sub e = Ok e' -> printable e'.
Proof.
  intros Hsub e e' ((Hwe & _) & Hue & _ & _) H.
  assert (Hcl : forall x r, sub x = Some r -> dclosed (flagged tb) (dvars r) r) by (intros x r Hx; exact (dindexed_closed _ _ _ (proj1 (Hsub x r Hx)))).
  assert (Hs : dstruct (flagged tb) e) by (revert Hwe; apply dwf_weaken; intros; exact I).
  destruct (subs_ok C T (fun _ => I) (fun _ _ _ => I) (fun _ _ _ _ _ => I) (fun _ _ _ _ _ _ _ => I) (fun _ _ _ _ => I) (flagged tb) (fun _ _ _ _ _ _ => I) sub Hcl e Hs) as (e1 & He & Hc & _).
  rewrite H in He. inversion He; subst e1. pose proof (dconsistent_vars _ _ _ Hc) as Hv.
  split; [rewrite Hv; exact (dconsistent_indexed _ _ _ Hc)|].
  split; [exact (subs_uok C tb sub (fun x r Hx => proj1 (proj2 (Hsub x r Hx))) e e' Hue H)|].
  destruct (sort_strs_spec (snames sub e)) as (HS & _ & Hin). split; [|rewrite Hv; exact HS].
  intros y. rewrite Hv, (Hin y), (subs_occs C sub e e' H).
  exact (soccs_snames sub (fun x r Hx => proj1 (proj2 (proj2 (Hsub x r Hx)))) e y).
Qed.

Section RoundTrip.
Variable R : D -> D -> Prop.
Hypothesis R_refl : forall a, R a a.
Hypothesis R_sym : forall a b, R a b -> R b a.
Hypothesis R_trans : forall a b c, R a b -> R b c -> R a c.
Hypothesis R_bin : forall k a a' b b', R a a' -> R b b' -> R (binf C k a b) (binf C k a' b').
Hypothesis R_un : forall k a a', R a a' -> R (unf C k a) (unf C k a').
Hypothesis table_assoc : forall o, comm_of tb o = true -> forall a b c, R (binf C o (binf C o a b) c) (binf C o a (binf C o b c)).
Theorem printable_round_trip (e : deepex D) : printable e ->
  unparse C tb e = Some (render C tb (utoks e)) /\
  exists e', parse_deep_tokens C tb (utoks e) = Ok e' /\ dvars e' = dvars e /\ printable e' /\
    forall vals, length vals = length (dvars e) ->
    exists v v', eval_deep C e vals = Ok v /\ eval_deep C e' vals = Ok v' /\ R v' v.
Proof.
  intros Hp. pose proof Hp as ((Hw & Hv) & Hu & _ & _).
  split; [exact (unparse_is_render C tb _ _ _ e Hw)|].
  destruct (print_parse_same C tb R R_refl R_sym R_trans R_bin R_un table_assoc e (conj Hw Hv) Hu (printable_prints_its_variables e Hp)) as (e' & He' & Hd & Hval).
  exists e'. split; [exact He'|]. split; [exact Hd|]. split; [exact (parsed_printable _ e' He')|exact Hval].
Qed.
End RoundTrip.
End Printable.
