(* Proofs/Vars.v — find_parsed_vars: the variables of an expression are the distinct names occurring in it,
   strictly increasing in Rust string order (lexicographic on code points); lookup by position (C04). *)
From Coq Require Import List Arith Lia Bool NArith Sorting.Sorted.
Import ListNotations.
From Exmex.Model Require Import Base Lexer.

Lemma str_eqb_eq (a b : str) : str_eqb a b = true <-> a = b.
Proof.
  revert b; induction a as [|x a IH]; intros [|y b]; cbn; try (split; [discriminate|discriminate]); [tauto|].
  rewrite andb_true_iff, N.eqb_eq, IH. split; [intros [-> ->]; reflexivity|intros H; inversion H; auto].
Qed.
Lemma str_eqb_refl a : str_eqb a a = true.
Proof. apply str_eqb_eq. reflexivity. Qed.

Definition str_lt (a b : str) : Prop := str_ltb a b = true.

Lemma str_ltb_irrefl a : str_ltb a a = false.
Proof. induction a as [|x a IH]; cbn; [reflexivity|]. rewrite N.ltb_irrefl, N.eqb_refl. exact IH. Qed.

Lemma str_ltb_trans a b c : str_lt a b -> str_lt b c -> str_lt a c.
Proof.
  unfold str_lt. revert b c; induction a as [|x a IH]; intros [|y b] [|z c]; cbn; try discriminate; try reflexivity.
  destruct (N.ltb_spec x y) as [Hxy|Hxy].
  - intros _. destruct (N.ltb_spec y z) as [Hyz|Hyz].
    + intros _. destruct (N.ltb_spec x z); [reflexivity|lia].
    + destruct (N.eqb_spec y z) as [->|]; [|discriminate]. intros _. destruct (N.ltb_spec x z); [reflexivity|lia].
  - destruct (N.eqb_spec x y) as [->|]; [|discriminate]. intros Hab.
    destruct (N.ltb_spec y z); [reflexivity|].
    destruct (N.eqb_spec y z) as [->|]; [|discriminate]. apply IH. exact Hab.
Qed.

Lemma str_trichotomy a b : str_ltb a b = true \/ a = b \/ str_ltb b a = true.
Proof.
  revert b; induction a as [|x a IH]; intros [|y b]; cbn; auto.
  destruct (N.ltb_spec x y); [auto|].
  destruct (N.eqb_spec x y) as [->|Hne].
  - rewrite N.ltb_irrefl, N.eqb_refl. destruct (IH b) as [?|[->|?]]; auto.
  - right; right. destruct (N.ltb_spec y x); [reflexivity|lia].
Qed.

Lemma insert_str_In x l y : In y (insert_str x l) <-> y = x \/ In y l.
Proof.
  induction l as [|z l IH]; cbn; [intuition|].
  destruct (str_ltb x z); cbn; [intuition|].
  destruct (str_eqb x z) eqn:E.
  - apply str_eqb_eq in E. subst. cbn. intuition.
  - cbn. rewrite IH. intuition.
Qed.

Lemma insert_str_sorted x l : StronglySorted str_lt l -> StronglySorted str_lt (insert_str x l).
Proof.
  induction 1 as [|z l HS IH HF]; cbn; [repeat constructor|].
  destruct (str_ltb x z) eqn:E1.
  - constructor; [constructor; assumption|]. constructor; [exact E1|].
    rewrite Forall_forall in *. intros y Hy. apply (str_ltb_trans x z y); [exact E1|apply HF; exact Hy].
  - destruct (str_eqb x z) eqn:E2; [constructor; assumption|].
    constructor; [exact IH|].
    rewrite Forall_forall in *. intros y Hy. apply insert_str_In in Hy. destruct Hy as [->|Hy]; [|apply HF; exact Hy].
    destruct (str_trichotomy z x) as [H|[H|H]]; [exact H| |unfold str_lt; congruence].
    subst. rewrite str_eqb_refl in E2. discriminate.
Qed.

Lemma sort_strs_spec_acc l : forall acc, StronglySorted str_lt acc ->
  StronglySorted str_lt (fold_left (fun acc x => insert_str x acc) l acc) /\
  (forall y, In y (fold_left (fun acc x => insert_str x acc) l acc) <-> In y acc \/ In y l).
Proof.
  induction l as [|x l IH]; intros acc HS; cbn; [split; [assumption|intuition]|].
  destruct (IH (insert_str x acc) (insert_str_sorted x acc HS)) as [H1 H2].
  split; [exact H1|]. intros y. rewrite H2, insert_str_In. intuition.
Qed.

Lemma sorted_lt_NoDup l : StronglySorted str_lt l -> NoDup l.
Proof.
  induction 1 as [|z l HS IH HF]; constructor; [|assumption].
  intro Hin. rewrite Forall_forall in HF. specialize (HF z Hin). unfold str_lt in HF. rewrite str_ltb_irrefl in HF. discriminate.
Qed.

(* sort_strs: strictly increasing, duplicate free, same elements *)
Theorem sort_strs_spec l :
  StronglySorted str_lt (sort_strs l) /\ NoDup (sort_strs l) /\ (forall y, In y (sort_strs l) <-> In y l).
Proof.
  unfold sort_strs. destruct (sort_strs_spec_acc l [] (SSorted_nil _)) as [H1 H2].
  split; [exact H1|]. split; [apply sorted_lt_NoDup; exact H1|]. intros y. rewrite H2. cbn. intuition.
Qed.

Section Vars.
Context {D : Type}.

Lemma var_names_In (ts : list (token D)) x :
  In x (fold_right (fun t acc => match t with TVar x => x :: acc | _ => acc end) [] ts) <-> In (TVar x) ts.
Proof.
  induction ts as [|t ts IH]; cbn; [tauto|].
  destruct t as [d| | |k|y]; cbn; rewrite ?IH.
  - split; [auto|intros [H|H]; [discriminate|exact H]].
  - split; [auto|intros [H|H]; [discriminate|exact H]].
  - split; [auto|intros [H|H]; [discriminate|exact H]].
  - split; [auto|intros [H|H]; [discriminate|exact H]].
  - split; [intros [->|H]; [left; reflexivity|right; exact H]|intros [H|H]; [left; inversion H; reflexivity|right; exact H]].
Qed.

(* find_parsed_vars: exactly the names of the variable tokens, each once, strictly increasing *)
Theorem find_parsed_vars_spec (ts : list (token D)) :
  StronglySorted str_lt (find_parsed_vars ts) /\ NoDup (find_parsed_vars ts) /\
  (forall x, In x (find_parsed_vars ts) <-> In (TVar x) ts).
Proof.
  unfold find_parsed_vars. destruct (sort_strs_spec (fold_right (fun t acc => match t with TVar x => x :: acc | _ => acc end) [] ts)) as (H1 & H2 & H3).
  split; [exact H1|]. split; [exact H2|]. intros x. rewrite H3. apply var_names_In.
Qed.
End Vars.

(* lookup by position *)
Lemma index_of_spec x : forall l i j, index_of x l i = Some j -> i <= j /\ nth_error l (j - i) = Some x.
Proof.
  induction l as [|y l IH]; intros i j; cbn; [discriminate|].
  destruct (str_eqb x y) eqn:E.
  - intros H; inversion H; subst. apply str_eqb_eq in E. subst. replace (j - j) with 0 by lia. split; [lia|reflexivity].
  - intros H. destruct (IH _ _ H) as [Hle Hn]. split; [lia|].
    replace (j - i) with (S (j - S i)) by lia. exact Hn.
Qed.
Lemma index_of_complete x : forall l i, In x l -> exists j, index_of x l i = Some j.
Proof.
  induction l as [|y l IH]; intros i Hin; [destruct Hin|]. cbn.
  destruct (str_eqb x y) eqn:E; [eauto|].
  destruct Hin as [->|Hin]; [rewrite str_eqb_refl in E; discriminate|]. apply IH. exact Hin.
Qed.
