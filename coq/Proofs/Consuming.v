(* Proofs/Consuming.v — eval_flatex_consuming_vars (eval_vec / eval_iter) feeds the operators exactly the values the
   borrowing evaluation feeds them: a slot is only taken at the last occurrence of its variable, a variable with k
   occurrences is cloned k-1 times and moved once (C15). *)
From Coq Require Import List Arith Lia Bool.
Import ListNotations.
From Exmex.Model Require Import Base EvalBinary Lexer Flat.
Open Scope nat_scope.

Section Consuming.
Context {D : Type}.
Variable C : carrier D.
Variable vals : list D.              (* the values as passed in *)

Definition is_var (i : nat) (n : fnode D) : bool := match nkind n with FVar j => Nat.eqb j i | FNum _ => false end.
Definition occ (i : nat) (nodes : list (fnode D)) : nat := length (filter (is_var i) nodes).
Definition is_some (i : nat) (o : option nat) : bool := match o with Some j => Nat.eqb j i | None => false end.
Definition cnt (i : nat) (vi : list (option nat)) : nat := length (filter (is_some i) vi).

Definition nval (n : fnode D) : D :=
  apply_un C (nun n) (match nkind n with FNum d => d | FVar i => nth i vals (dflt C) end).

(* count_and_last: the number of entries equal to idx and the position of the last one *)
Lemma count_and_last_spec idx : forall vi pos c f,
  fst (count_and_last vi idx pos c f) = c + cnt idx vi /\
  (1 <= cnt idx vi -> pos <= snd (count_and_last vi idx pos c f) /\ nth_error vi (snd (count_and_last vi idx pos c f) - pos) = Some (Some idx)) /\
  (cnt idx vi = 0 -> snd (count_and_last vi idx pos c f) = f).
Proof.
  induction vi as [|o vi IH]; intros pos c f; cbn [count_and_last cnt filter length].
  - repeat split; cbn; try lia.
  - destruct o as [j|]; cbn [is_some].
    + destruct (Nat.eqb_spec j idx) as [->|Hne].
      * destruct (IH (S pos) (S c) pos) as (H1 & H2 & H3). cbn [length]. fold (cnt idx vi). split; [lia|]. split; [|intros; lia].
        intros _. destruct (cnt idx vi) eqn:E.
        -- rewrite (H3 eq_refl). split; [lia|]. rewrite Nat.sub_diag. reflexivity.
        -- destruct (H2 ltac:(lia)) as [Hle Hn]. split; [lia|].
           replace (snd (count_and_last vi idx (S pos) (S c) pos) - pos) with (S (snd (count_and_last vi idx (S pos) (S c) pos) - S pos)) by lia. exact Hn.
      * destruct (IH (S pos) c f) as (H1 & H2 & H3). fold (cnt idx vi). split; [exact H1|]. split; [|exact H3].
        intros Hc. destruct (H2 Hc) as [Hle Hn]. split; [lia|].
        replace (snd (count_and_last vi idx (S pos) c f) - pos) with (S (snd (count_and_last vi idx (S pos) c f) - S pos)) by lia. exact Hn.
    + destruct (IH (S pos) c f) as (H1 & H2 & H3). fold (cnt idx vi). split; [exact H1|]. split; [|exact H3].
      intros Hc. destruct (H2 Hc) as [Hle Hn]. split; [lia|].
      replace (snd (count_and_last vi idx (S pos) c f) - pos) with (S (snd (count_and_last vi idx (S pos) c f) - S pos)) by lia. exact Hn.
Qed.

(* blanking one entry of idx *)
Lemma cnt_set_none idx : forall vi p, nth_error vi p = Some (Some idx) ->
  forall i, cnt i (set_nth p None vi) = if Nat.eqb i idx then cnt i vi - 1 else cnt i vi.
Proof.
  induction vi as [|o vi IH]; intros p Hp i; [destruct p; discriminate|].
  destruct p.
  - cbn in Hp. inversion Hp; subst. unfold cnt. cbn [set_nth filter is_some].
    destruct (Nat.eqb_spec idx i), (Nat.eqb_spec i idx); cbn [length]; try lia; congruence.
  - cbn in Hp. specialize (IH p Hp i). unfold cnt in *. cbn [set_nth filter].
    assert (Hge : Nat.eqb i idx = true -> 1 <= length (filter (is_some i) vi)).
    { intros E. apply Nat.eqb_eq in E. subst. clear - Hp. revert p Hp. induction vi as [|o' vi IHv]; intros p Hp; [destruct p; discriminate|].
      destruct p; cbn in Hp; [inversion Hp; subst; cbn; rewrite Nat.eqb_refl; cbn; lia|]. cbn. specialize (IHv p Hp). destruct (is_some idx o'); cbn; lia. }
    destruct (is_some i o); cbn [length]; rewrite IH; destruct (Nat.eqb i idx) eqn:E; try reflexivity.
    specialize (Hge eq_refl). lia.
Qed.

Lemma nth_set_nth {A} (d : A) : forall (l : list A) p x i, i <> p -> nth i (set_nth p x l) d = nth i l d.
Proof.
  induction l as [|a l IH]; intros p x i Hne; [destruct p; reflexivity|].
  destruct p, i; cbn [set_nth nth]; try reflexivity; [congruence|]. apply IH. congruence.
Qed.
Lemma set_nth_length {A} (x : A) : forall l n, length (set_nth n x l) = length l.
Proof. induction l as [|a l IH]; intros n; [reflexivity|]. destruct n; cbn; [reflexivity|]. rewrite IH. reflexivity. Qed.
Lemma update_nth_length {A} (f : A -> A) : forall l n, length (update_nth n f l) = length l.
Proof. induction l as [|a l IH]; intros n; [reflexivity|]. destruct n; cbn; [reflexivity|]. rewrite IH. reflexivity. Qed.

(* the invariant of the scan *)
Definition inv (nodes : list (fnode D)) (vars : list D) (vi : list (option nat)) : Prop :=
  forall i, occ i nodes = 0 \/ (cnt i vi = occ i nodes /\ nth i vars (dflt C) = nth i vals (dflt C)).

Lemma occ_cons i n nodes : occ i (n :: nodes) = (if is_var i n then 1 else 0) + occ i nodes.
Proof. unfold occ. cbn [filter]. destruct (is_var i n); reflexivity. Qed.

Lemma nth_update_nth_S : forall (l : list nat) idx i, nth i (update_nth idx S l) 0 = if Nat.eqb i idx && Nat.ltb idx (length l) then S (nth i l 0) else nth i l 0.
Proof.
  induction l as [|a l IH]; intros idx i; [destruct idx, i; cbn; rewrite ?andb_false_r; reflexivity|].
  destruct idx, i; cbn [update_nth nth length]; try reflexivity. rewrite IH. reflexivity.
Qed.

Definition nodes_ok (nodes : list (fnode D)) : Prop := forall n i, In n nodes -> nkind n = FVar i -> i < length vals.

Lemma consume_spec : forall nodes vars vi clones,
  inv nodes vars vi -> length vars = length vals -> nodes_ok nodes -> length clones = length vals ->
  exists cl, consume_nodes C nodes vars vi clones = Ok (map nval nodes, cl) /\ length cl = length clones /\
             forall i, nth i cl 0 = nth i clones 0 + (occ i nodes - 1).
Proof.
  induction nodes as [|n nodes IH]; intros vars vi clones Hinv Hlv Hok Hlc.
  - exists clones. cbn. repeat split; intros; unfold occ; cbn; lia.
  - assert (Hok' : nodes_ok nodes) by (intros m i Hin; apply Hok; right; exact Hin).
    cbn [consume_nodes]. destruct (nkind n) as [d|idx] eqn:Ek.
    + (* a literal *)
      assert (Hinv' : inv nodes vars vi).
      { intros i. specialize (Hinv i). rewrite occ_cons in Hinv. unfold is_var in Hinv. rewrite Ek in Hinv. cbn in Hinv. exact Hinv. }
      assert (Hnv : nval n = apply_un C (nun n) d) by (unfold nval; rewrite Ek; reflexivity).
      destruct (IH vars vi clones Hinv' Hlv Hok' Hlc) as (cl & Hc & Hl & Hn). rewrite Hc. cbn [bind]. exists cl.
      split; [cbn [map]; rewrite Hnv; reflexivity|]. split; [exact Hl|].
      intros i. rewrite Hn, occ_cons. unfold is_var. rewrite Ek. reflexivity.
    + (* a variable *)
      pose proof (Hok n idx (or_introl eq_refl) Ek) as Hidx.
      destruct (Hinv idx) as [H0|[Hcnt Hval]]; [rewrite occ_cons in H0; unfold is_var in H0; rewrite Ek, Nat.eqb_refl in H0; lia|].
      rewrite occ_cons in Hcnt. unfold is_var in Hcnt at 1. rewrite Ek, Nat.eqb_refl in Hcnt.
      destruct (count_and_last_spec idx vi 0 0 0) as (Hc1 & Hc2 & _).
      destruct (count_and_last vi idx 0 0 0) as [c found] eqn:Ecl. cbn [fst snd] in *.
      destruct (Hc2 ltac:(lia)) as [_ Hfound]. rewrite Nat.sub_0_r in Hfound.
      destruct (nth_error vars idx) as [v|] eqn:Ev; [|apply nth_error_None in Ev; lia].
      assert (Hv : v = nth idx vals (dflt C)) by (rewrite <- Hval; symmetry; apply nth_error_nth; exact Ev).
      assert (Hnv : nval n = apply_un C (nun n) v) by (unfold nval; rewrite Ek, Hv; reflexivity).
      destruct (Nat.ltb_spec 1 c) as [Hgt|Hle].
      * (* more occurrences follow: clone *)
        assert (Hinv' : inv nodes vars (set_nth found None vi)).
        { intros i. rewrite (cnt_set_none idx vi found Hfound i). destruct (Nat.eqb_spec i idx) as [->|Hne].
          - right. split; [lia|exact Hval].
          - specialize (Hinv i). rewrite occ_cons in Hinv. unfold is_var in Hinv. rewrite Ek in Hinv.
            destruct (Nat.eqb_spec idx i); [congruence|]. exact Hinv. }
        destruct (IH vars (set_nth found None vi) (update_nth idx S clones) Hinv' Hlv Hok') as (cl & Hc & Hl & Hn).
        { rewrite update_nth_length. exact Hlc. }
        rewrite Hc. cbn [bind]. exists cl. split; [cbn [map]; rewrite Hnv; reflexivity|]. split; [rewrite Hl; apply update_nth_length|].
        intros i. rewrite Hn, nth_update_nth_S, occ_cons. unfold is_var. rewrite Ek.
        destruct (Nat.eqb_spec i idx) as [->|Hne].
        -- rewrite Nat.eqb_refl. destruct (Nat.ltb_spec idx (length clones)); [cbn; lia|lia].
        -- destruct (Nat.eqb_spec idx i); [congruence|]. cbn. reflexivity.
      * (* the last occurrence: move *)
        assert (Hinv' : inv nodes (set_nth idx (dflt C) vars) vi).
        { intros i. destruct (Nat.eq_dec i idx) as [->|Hne]; [left; lia|].
          specialize (Hinv i). rewrite occ_cons in Hinv. unfold is_var in Hinv. rewrite Ek in Hinv.
          destruct (Nat.eqb_spec idx i); [congruence|]. cbn in Hinv.
          destruct Hinv as [H0|[H1 H2]]; [left; exact H0|right; split; [exact H1|]].
          rewrite nth_set_nth by exact Hne. exact H2. }
        destruct (IH (set_nth idx (dflt C) vars) vi clones Hinv') as (cl & Hc & Hl & Hn); [rewrite set_nth_length; exact Hlv|exact Hok'|exact Hlc|].
        rewrite Hc. cbn [bind]. exists cl. split; [cbn [map]; rewrite Hnv; reflexivity|]. split; [exact Hl|].
        intros i. rewrite Hn, occ_cons. unfold is_var. rewrite Ek.
        destruct (Nat.eqb_spec idx i) as [<-|Hne]; [|reflexivity]. replace (occ idx nodes) with 0 by lia. reflexivity.
Qed.

(* the initial occurrence list *)
Lemma cnt_initial i nodes :
  cnt i (flat_map (fun n : fnode D => match nkind n with FVar j => [Some j] | FNum _ => [] end) nodes) = occ i nodes.
Proof.
  induction nodes as [|n nodes IH]; [reflexivity|]. rewrite occ_cons. cbn [flat_map]. unfold cnt in *. rewrite filter_app, app_length, IH.
  unfold is_var. destruct (nkind n) as [d|j]; [reflexivity|]. cbn. destruct (Nat.eqb j i); reflexivity.
Qed.

Lemma mapM_node_val nodes : nodes_ok nodes -> mapM (node_val C vals) nodes = Ok (map nval nodes).
Proof.
  induction nodes as [|n nodes IH]; intros Hok; [reflexivity|]. cbn [mapM map].
  assert (Hn : node_val C vals n = Ok (nval n)).
  { unfold node_val, nval. destruct (nkind n) as [v|i] eqn:Ek; [reflexivity|].
    pose proof (Hok n i (or_introl eq_refl) Ek) as Hi. destruct (nth_error vals i) as [v|] eqn:En; [|apply nth_error_None in En; lia].
    rewrite (nth_error_nth _ _ (dflt C) En). reflexivity. }
  rewrite Hn. cbn [bind]. rewrite IH by (intros m i Hin; apply Hok; right; exact Hin). reflexivity.
Qed.

(* C15: the consuming evaluation returns the value of the borrowing evaluation, and each variable is cloned
   (occurrences - 1) times, i.e. not at all when it occurs once *)
Theorem consuming_eq_cloning (fx : flatex D) :
  nodes_ok (fnodes fx) -> length (fvars fx) = length vals ->
  exists cl, eval_consuming C fx vals = (do v <- eval_flat C fx vals; Ok (v, cl)) /\
             length cl = length vals /\ forall i, i < length vals -> nth i cl 0 = occ i (fnodes fx) - 1.
Proof.
  intros Hok Hlen. unfold eval_consuming, eval_flat, eval_cloning. rewrite Hlen, Nat.eqb_refl. cbn [negb].
  destruct (consume_spec (fnodes fx) vals (flat_map (fun n : fnode D => match nkind n with FVar i => [Some i] | FNum _ => [] end) (fnodes fx)) (repeat 0 (length vals))) as (cl & Hc & Hl & Hn).
  - intros i. right. split; [apply cnt_initial|reflexivity].
  - reflexivity.
  - exact Hok.
  - apply repeat_length.
  - rewrite Hc. cbn [bind]. rewrite (mapM_node_val _ Hok). cbn [bind]. exists cl.
    split; [destruct (eval_numbers C (map nval (fnodes fx)) (fops fx) (fprios fx)); reflexivity|].
    split; [rewrite Hl; apply repeat_length|]. intros i Hi. rewrite Hn. rewrite nth_repeat. reflexivity.
Qed.
End Consuming.
