(* Proofs/DeepSem.v — what a deep expression denotes, and that DeepEx::eval computes it.
   dden: at every level, the precedence evaluation (raw priorities, left to right among equals) of the operators over
   the denotations of the nodes, then the unary operators of the level.  For every well-formed deep expression
   evaluation succeeds with a value R-equivalent to the denotation. *)
From Coq Require Import List Arith Lia Bool ZArith.
Import ListNotations.
From Exmex.Model Require Import Base EvalBinary Lexer Flat Deep.
From Exmex.Proofs Require Import ChainMachine SortedRef SortDesc EvalBinaryCorrect Bump BumpInst Pev PevFold FlatPev LevelEval.
Open Scope nat_scope.

Section DeepInd.
Context {D : Type}.
Fixpoint dsize (e : deepex D) : nat :=
  match e with
  | DE nodes _ _ _ =>
      S ((fix go (l : list (dnode D)) : nat :=
            match l with [] => 0 | n :: tl => (match n with DExpr e' => dsize e' | _ => 1 end) + go tl end) nodes)
  end.
Lemma dsize_in nodes bops uop vars e' : In (DExpr e') nodes -> dsize e' < dsize (DE nodes bops uop vars).
Proof.
  cbn [dsize]. induction nodes as [|n tl IH]; intros H; [destruct H|]. destruct H as [->|H]; [lia|].
  specialize (IH H). destruct n; lia.
Qed.
Lemma deep_ind (P : deepex D -> Prop) :
  (forall nodes bops uop vars, (forall e', In (DExpr e') nodes -> P e') -> P (DE nodes bops uop vars)) -> forall e, P e.
Proof.
  intros H. assert (Hn : forall n e, dsize e <= n -> P e).
  { induction n as [|n IH]; intros e Hs; [destruct e; cbn in Hs; lia|].
    destruct e as [nodes bops uop vars]. apply H. intros e' Hin. apply IH.
    pose proof (dsize_in nodes bops uop vars e' Hin). lia. }
  intros e. exact (Hn (dsize e) e (le_n _)).
Qed.
End DeepInd.

Definition to_fop (o : dbop) : fop := {| fprio := bprio o; fidx := bidx o; fcomm := bcomm o; fun_ := [] |}.

Section GenericFind.
Context {A : Type}.
Lemma firstn_S_nth' : forall (l : list A) i x, nth_error l i = Some x -> firstn (S i) l = firstn i l ++ [x].
Proof.
  induction l as [|a l IH]; intros i x H; [destruct i; discriminate|].
  destruct i; [cbn in H; inversion H; reflexivity|]. cbn in H.
  change (firstn (S (S i)) (a :: l)) with (a :: firstn (S i) l). rewrite (IH i x H). reflexivity.
Qed.
Lemma find_rev_firstn' (P : A -> bool) (l : list A) : forall i j oj, j < i -> i <= length l ->
  nth_error l j = Some oj -> P oj = true ->
  (forall k ok, j < k < i -> nth_error l k = Some ok -> P ok = false) ->
  find P (rev (firstn i l)) = Some oj.
Proof.
  induction i as [|i IH]; intros j oj Hji Hi Hj HP Hbetween; [lia|].
  destruct (nth_error l i) as [oi|] eqn:Ei; [|apply nth_error_None in Ei; lia].
  rewrite (firstn_S_nth' l i oi Ei), rev_app_distr. cbn [rev app find].
  destruct (Nat.eq_dec i j) as [->|Hne].
  - rewrite Hj in Ei. inversion Ei; subst. rewrite HP. reflexivity.
  - rewrite (Hbetween i oi ltac:(lia) Ei). apply (IH j oj ltac:(lia) ltac:(lia) Hj HP).
    intros k ok Hk. apply Hbetween. lia.
Qed.
End GenericFind.

Section DeepKey.
Context {D : Type}.
Variable nodes : list (dnode D).
Variable bops : list dbop.
Local Notation fops := (map to_fop bops).

Lemma key0_map i : BumpInst.key0 fops i = match nth_error bops i with Some o => (bprio o * 10)%Z | None => 0%Z end.
Proof. unfold BumpInst.key0. rewrite nth_error_map. destruct (nth_error bops i); reflexivity. Qed.

Lemma dkey_cases i : dkey nodes bops i = BumpInst.key0 fops i \/ dkey nodes bops i = (BumpInst.key0 fops i + 5)%Z.
Proof.
  rewrite key0_map. unfold dkey. destruct (nth_error bops i) as [o|]; [|left; reflexivity].
  destruct (nth_error nodes i) as [a|]; [|left; reflexivity]. destruct (nth_error nodes (S i)) as [b|]; [|left; reflexivity].
  destruct (is_dnum a && is_dnum b && bcomm o && d_regrouping_is_invisible bops i && d_left_literal_is_free bops i); [right|left]; reflexivity.
Qed.

Lemma dkey_ok i : dkey nodes bops i = (BumpInst.key0 fops i + 5)%Z -> forall j, j < i ->
  (BumpInst.key0 fops j <= BumpInst.key0 fops i)%Z ->
  (forall k, j < k < i -> (BumpInst.key0 fops i < BumpInst.key0 fops k)%Z) ->
  (BumpInst.key0 fops j < BumpInst.key0 fops i)%Z \/ BumpInst.AP fops j i.
Proof.
  intros Hk j Hji Hle Hbetween. rewrite !key0_map in *.
  unfold dkey in Hk. destruct (nth_error bops i) as [o|] eqn:Ei; [|lia].
  destruct (nth_error nodes i) as [a|]; [|lia]. destruct (nth_error nodes (S i)) as [b|]; [|lia].
  destruct (is_dnum a && is_dnum b && bcomm o && d_regrouping_is_invisible bops i && d_left_literal_is_free bops i) eqn:Eb; [|lia].
  apply andb_prop in Eb. destruct Eb as [Eb _]. apply andb_prop in Eb. destruct Eb as [Eb Hinv]. apply andb_prop in Eb. destruct Eb as [_ Hcomm].
  unfold d_regrouping_is_invisible in Hinv. rewrite Ei in Hinv.
  assert (Hil : i < length bops) by (apply nth_error_Some; congruence).
  destruct (nth_error bops j) as [oj|] eqn:Ej; [|apply nth_error_None in Ej; lia].
  assert (Hfind : find (fun l => (bprio l <=? bprio o)%Z) (rev (firstn i bops)) = Some oj).
  { apply (find_rev_firstn' _ bops i j oj Hji ltac:(lia) Ej).
    - apply Z.leb_le. lia.
    - intros k ok Hkk Hnk. specialize (Hbetween k Hkk). rewrite key0_map, Hnk in Hbetween. apply Z.leb_gt. lia. }
  rewrite Hfind in Hinv. apply orb_prop in Hinv. destruct Hinv as [Hlt|Hsame].
  - left. apply Z.ltb_lt in Hlt. lia.
  - right. apply Nat.eqb_eq in Hsame. exists (to_fop oj), (to_fop o). rewrite !nth_error_map, Ej, Ei. cbn. repeat split; assumption.
Qed.

Lemma bop_at_op_at (C : carrier D) i a b : bop_at C bops i a b = op_at C fops i a b.
Proof. unfold bop_at, op_at. rewrite nth_error_map. destruct (nth_error bops i); reflexivity. Qed.
End DeepKey.

Section DeepSem.
Context {D : Type}.
Variable C : carrier D.
Variable R : D -> D -> Prop.
Hypothesis R_refl : forall a, R a a.
Hypothesis R_sym : forall a b, R a b -> R b a.
Hypothesis R_trans : forall a b c, R a b -> R b c -> R a c.
Hypothesis R_bin : forall k a a' b b', R a a' -> R b b' -> R (binf C k a b) (binf C k a' b').
Hypothesis R_un : forall k a a', R a a' -> R (unf C k a) (unf C k a').
(* what is required of every binary operator record; those flagged commutative are associative modulo R *)
Variable okop : dbop -> Prop.
Hypothesis okop_assoc : forall o, okop o -> bcomm o = true ->
  forall a b c, R (binf C (bidx o) (binf C (bidx o) a b) c) (binf C (bidx o) a (binf C (bidx o) b c)).

(* the value of a variable node (index, name): by position in an assignment (vlook), or by name *)
Variable look : nat -> str -> D.
(* what is required of every variable node and of the variable list of every level *)
Variable okvar : nat -> str -> Prop.
Variable okvars : list str -> Prop.

(* ---- denotation ---- *)
Fixpoint dden (e : deepex D) : D :=
  match e with
  | DE nodes bops uop _ =>
      apply_un C uop
        (match (fix go (l : list (dnode D)) : list D :=
                  match l with
                  | [] => []
                  | n :: tl => (match n with DNum d => d | DVar i x => look i x | DExpr e' => dden e' end) :: go tl
                  end) nodes with
         | [] => dflt C
         | x :: rest => pv C x (combine (map to_fop bops) rest)
         end)
  end.
Definition nden (n : dnode D) : D :=
  match n with DNum d => d | DVar i x => look i x | DExpr e' => dden e' end.
Definition level_val (xs : list D) (bops : list dbop) : D :=
  match xs with [] => dflt C | x :: rest => pv C x (combine (map to_fop bops) rest) end.
Lemma dden_unfold nodes bops uop vars :
  dden (DE nodes bops uop vars) = apply_un C uop (level_val (map nden nodes) bops).
Proof. reflexivity. Qed.

(* ---- well-formedness: operand counts, variable indices and arities at every level; flags ---- *)
Fixpoint dwf (e : deepex D) : Prop :=
  match e with
  | DE nodes bops uop vars =>
      length nodes = S (length bops) /\ okvars vars /\
      (forall o, In o bops -> okop o) /\
      (fix all (l : list (dnode D)) : Prop :=
         match l with
         | [] => True
         | n :: tl => (match n with DNum _ => True | DVar i x => okvar i x | DExpr e' => dwf e' end) /\ all tl
         end) nodes
  end.
Definition nwf (n : dnode D) : Prop :=
  match n with DNum _ => True | DVar i x => okvar i x | DExpr e' => dwf e' end.
Lemma dwf_unfold nodes bops uop vars :
  dwf (DE nodes bops uop vars) <->
  length nodes = S (length bops) /\ okvars vars /\
  (forall o, In o bops -> okop o) /\ Forall nwf nodes.
Proof.
  cbn [dwf].
  assert (H : (fix all (l : list (dnode D)) : Prop :=
                 match l with
                 | [] => True
                 | n :: tl => (match n with DNum _ => True | DVar i x => okvar i x | DExpr e' => dwf e' end) /\ all tl
                 end) nodes <-> Forall nwf nodes).
  { induction nodes as [|n tl IH]; [split; [constructor|trivial]|]. split.
    - intros [H1 H2]. constructor; [exact H1|apply IH; exact H2].
    - intros H. inversion H; subst. split; [assumption|apply IH; assumption]. }
  rewrite H. reflexivity.
Qed.

(* ---- evaluation, unfolded ---- *)
Variable vals : list D.
Definition neval (n : dnode D) : res D :=
  match n with
  | DNum d => Ok d
  | DVar i _ => match nth_error vals i with Some v => Ok v | None => Panic 994 end
  | DExpr e' => eval_deep_relaxed C e' vals
  end.
Lemma eval_deep_unfold nodes bops uop vars :
  eval_deep_relaxed C (DE nodes bops uop vars) vals =
  if Nat.ltb (length vals) (length vars) then Err E_ARITY else
  do nums <- mapM neval nodes;
  do v <- eval_binary (dflt C) (bop_at C bops) nums (length bops) (prioritized_indices bops nodes);
  Ok (apply_un C uop v).
Proof.
  cbn [eval_deep_relaxed]. destruct (Nat.ltb (length vals) (length vars)); [reflexivity|].
  match goal with |- bind (?F nodes) _ = _ =>
    replace (F nodes) with (mapM neval nodes) by (clear; induction nodes as [|n tl IH]; [reflexivity|]; cbn [mapM]; rewrite IH; reflexivity) end.
  reflexivity.
Qed.

(* ---- precedence evaluation respects R ---- *)
Lemma rm_pos_fst : forall (l l' : list (fop * D)) pos best bestk, map fst l = map fst l' -> rm_pos l pos best bestk = rm_pos l' pos best bestk.
Proof.
  induction l as [|[o y] l IH]; intros [|[o' y'] l'] pos best bestk H; try discriminate; [reflexivity|].
  cbn in H. inversion H; subst. cbn [rm_pos]. destruct (fprio o' <=? bestk)%Z; apply IH; assumption.
Qed.
Lemma root_idx_fst (l l' : list (fop * D)) : map fst l = map fst l' -> root_idx l = root_idx l'.
Proof.
  destruct l as [|[o y] l], l' as [|[o' y'] l']; intros H; try discriminate; [reflexivity|].
  cbn in H. inversion H; subst. unfold root_idx. apply rm_pos_fst. assumption.
Qed.
Lemma Forall2_len {A B} (P : A -> B -> Prop) l l' : Forall2 P l l' -> length l = length l'.
Proof. induction 1; cbn; congruence. Qed.
Definition Rl (l l' : list (fop * D)) : Prop := Forall2 (fun p q => fst p = fst q /\ R (snd p) (snd q)) l l'.
Lemma Rl_fst l l' : Rl l l' -> map fst l = map fst l'.
Proof. induction 1 as [|p q l l' [H1 _] _ IH]; [reflexivity|]. cbn. rewrite H1, IH. reflexivity. Qed.
Lemma Rl_firstn n : forall l l', Rl l l' -> Rl (firstn n l) (firstn n l').
Proof. induction n as [|n IH]; intros l l' H; [constructor|]. destruct H; [constructor|]. cbn. constructor; [assumption|apply IH; assumption]. Qed.
Lemma Rl_skipn n : forall l l', Rl l l' -> Rl (skipn n l) (skipn n l').
Proof. induction n as [|n IH]; intros l l' H; [exact H|]. destruct H; [constructor|]. cbn. apply IH. assumption. Qed.
Lemma Rl_nth l l' : Rl l l' -> forall r,
  match nth_error l r, nth_error l' r with
  | Some a, Some b => fst a = fst b /\ R (snd a) (snd b)
  | None, None => True
  | _, _ => False end.
Proof. induction 1 as [|a b l l' Hab _ IH]; intros r; [destruct r; exact I|]. destruct r; [exact Hab|apply IH]. Qed.
Lemma pev_R : forall n x x' l l', R x x' -> Rl l l' -> R (pev C n x l) (pev C n x' l').
Proof.
  induction n as [|n IH]; intros x x' l l' Hx Hl; [exact Hx|].
  destruct Hl as [|p q m m' Hpq Hm]; [exact Hx|].
  assert (Hall : Rl (p :: m) (q :: m')) by (constructor; assumption).
  rewrite (pev_S C n x (p :: m)) by discriminate. rewrite (pev_S C n x' (q :: m')) by discriminate.
  rewrite (root_idx_fst _ _ (Rl_fst _ _ Hall)).
  set (r := root_idx (q :: m')).
  pose proof (Rl_nth _ _ Hall r) as Hnth.
  destruct (nth_error (p :: m) r) as [[o y]|], (nth_error (q :: m') r) as [[o' y']|]; try contradiction; [|exact Hx].
  cbn in Hnth. destruct Hnth as [-> Hy].
  apply (R_apply_op C R R_bin R_un); apply IH; try assumption; [apply Rl_firstn|apply Rl_skipn]; exact Hall.
Qed.
Lemma Rl_combine ops : forall xs ys, Forall2 R xs ys -> Rl (combine ops xs) (combine ops ys).
Proof.
  induction ops as [|o ops IH]; intros xs ys H; [constructor|]. destruct H; [constructor|]. cbn. constructor; [split; [reflexivity|assumption]|apply IH; assumption].
Qed.
Lemma level_val_R xs ys bops : Forall2 R xs ys -> R (level_val xs bops) (level_val ys bops).
Proof.
  intros H. destruct H as [|x y xs ys Hxy H]; [apply R_refl|]. unfold level_val, pv.
  assert (length (combine (map to_fop bops) xs) = length (combine (map to_fop bops) ys)) as ->.
  { rewrite !combine_length. rewrite (Forall2_len _ _ _ H). reflexivity. }
  apply pev_R; [exact Hxy|apply Rl_combine; exact H].
Qed.
Lemma R_apply_un_ us a a' : R a a' -> R (apply_un C us a) (apply_un C us a').
Proof. intros H. induction us as [|u us IH]; cbn; [exact H|apply R_un; exact IH]. Qed.

(* ---- evaluation computes the denotation ---- *)
Hypothesis okvars_len : forall v, okvars v -> length v <= length vals.
Hypothesis okvar_look : forall i x, okvar i x -> i < length vals /\ look i x = nth i vals (dflt C).
Theorem eval_deep_is_dden : forall e, dwf e -> exists v, eval_deep_relaxed C e vals = Ok v /\ R v (dden e).
Proof.
  induction e as [nodes bops uop vars IH] using deep_ind. intros Hwf.
  apply dwf_unfold in Hwf. destruct Hwf as (Hlen & Har & Hfl & Hnodes).
  rewrite eval_deep_unfold, dden_unfold.
  destruct (Nat.ltb_spec (length vals) (length vars)) as [Hlt|_]; [pose proof (okvars_len _ Har); lia|].
  (* the nodes *)
  assert (Hnums : exists nums, mapM neval nodes = Ok nums /\ Forall2 R nums (map nden nodes)).
  { clear Hlen. induction nodes as [|n tl IHn]; [exists []; split; [reflexivity|constructor]|].
    inversion Hnodes as [|? ? Hn Htl]; subst.
    destruct (IHn (fun e' H => IH e' (or_intror H)) Htl) as (nums & E & HR).
    assert (Hn' : exists v, neval n = Ok v /\ R v (nden n)).
    { destruct n as [e'|d|i x]; cbn [neval nden nwf] in *.
      - apply (IH e' (or_introl eq_refl) Hn).
      - exists d. split; [reflexivity|apply R_refl].
      - destruct (okvar_look i x Hn) as [Hi Hl]. destruct (nth_error vals i) as [v|] eqn:En; [|apply nth_error_None in En; lia].
        exists v. split; [reflexivity|]. rewrite Hl, (nth_error_nth _ _ (dflt C) En). apply R_refl. }
    destruct Hn' as (v & Ev & Rv). exists (v :: nums). cbn [mapM map]. rewrite Ev. cbn [bind]. rewrite E. cbn [bind].
    split; [reflexivity|constructor; assumption]. }
  destruct Hnums as (nums & Enums & HR). rewrite Enums. cbn [bind].
  assert (Hnl : length nums = S (length bops)) by (rewrite (Forall2_len _ _ _ HR), map_length; exact Hlen).
  destruct nums as [|x rest]; [discriminate|].
  assert (Hlr : length rest = length (map to_fop bops)) by (rewrite map_length; cbn in Hnl; lia).
  assert (Hassoc : forall o, In o (map to_fop bops) -> fcomm o = true ->
            forall a b c, R (binf C (fidx o) (binf C (fidx o) a b) c) (binf C (fidx o) a (binf C (fidx o) b c))).
  { intros o Ho Hc. apply in_map_iff in Ho. destruct Ho as (o' & <- & Ho'). cbn in *. exact (okop_assoc o' (Hfl o' Ho') Hc). }
  destruct (eval_level_is_pv C R R_refl R_sym R_trans R_bin R_un (map to_fop bops) Hassoc (dkey nodes bops)
              (dkey_cases nodes bops) (dkey_ok nodes bops) (bop_at C bops) (bop_at_op_at bops C) x rest Hlr) as (v & Ev & Rv).
  unfold prioritized_indices. rewrite map_length in Ev. rewrite Ev. cbn [bind].
  eexists. split; [reflexivity|]. apply R_apply_un_.
  eapply R_trans; [exact Rv|]. exact (level_val_R (x :: rest) (map nden nodes) bops HR).
Qed.
End DeepSem.

(* an operator record as the library builds it from a table whose priorities lie in 0..99 *)
Definition table_op (comm_of : nat -> bool) (o : dbop) : Prop :=
  (bcomm o = true -> comm_of (bidx o) = true) /\ (0 <= bprio o <= 99)%Z.

(* an operator record built from its table entry: index of a binary operator, its priority and its flag *)
Definition from_table (tb : optable) (o : dbop) : Prop :=
  exists spec bs, nth_error tb (bidx o) = Some spec /\ obin spec = Some bs /\ bcomm o = comm bs /\ bprio o = prio bs.

(* variables valued by position in an assignment *)
Definition vlook {D} (C : carrier D) (vals : list D) : nat -> str -> D := fun i _ => nth i vals (dflt C).

