#!/bin/bash
# usage: confirm.sh <id>   (worktree /tmp/mut/<id> with the patch applied, deliverables in /tmp/mut/<id>.out)
id=$1; wt=/tmp/mut/$id; out=/tmp/mut/$id.out; log=/tmp/mut/$id.confirm.log
export CARGO_NET_OFFLINE=true
cd $wt || exit 1
git checkout -q -- . ; git clean -fdq tests/ 2>/dev/null
git apply $out/patch.diff || { echo "PATCH DOES NOT APPLY" > $log; exit 1; }
{
echo "## existing suite with the change (default features)"
cargo test --offline 2>&1 | grep -E "^test result|FAILED|error(\[|:)" 
echo "## existing suite with the change (all features)"
cargo test --offline --features "partial value serde" 2>&1 | grep -E "^test result|FAILED|error(\[|:)"
cp $out/demo.rs tests/verif_demo.rs
echo "## demo WITH the change (expected to fail)"
cargo test --offline --features "partial value serde" --test verif_demo 2>&1 | grep -E "^test |^test result|error(\[|:)" | head -20
git apply -R $out/patch.diff
echo "## demo WITHOUT the change (expected to pass)"
cargo test --offline --features "partial value serde" --test verif_demo 2>&1 | grep -E "^test |^test result|error(\[|:)" | head -20
rm -f tests/verif_demo.rs
} > $log 2>&1
echo done >> $log
