(* Model/Flat.v — expression/flat.rs: make_expression, prioritized_indices_flat, eval (borrowing and
   consuming), compile, parse, parse_wo_compile.  Mirrors the Rust function by function. *)
From Exmex.Model Require Import Base EvalBinary Lexer.
Open Scope Z_scope.

Inductive fkind (D : Type) := FNum (d : D) | FVar (i : nat).
Arguments FNum {D}. Arguments FVar {D}.
Record fnode (D : Type) := { nkind : fkind D; nun : list nat }.          (* FlatNode: kind + unary_op *)
Arguments nkind {D}. Arguments nun {D}. Arguments Build_fnode {D}.
Record fop := { fprio : Z; fidx : nat; fcomm : bool; fun_ : list nat }.  (* FlatOp: bin_op (prio, idx, is_commutative) + unary_op *)
Record flatex (D : Type) := { fnodes : list (fnode D); fops : list fop; fprios : list nat; fvars : list str; ftext : str }.
Arguments fnodes {D}. Arguments fops {D}. Arguments fprios {D}. Arguments fvars {D}. Arguments ftext {D}. Arguments Build_flatex {D}.

Definition DEPTH_PRIO_STEP : Z := 1000.

Section Flat.
Context {D : Type}.
Variable C : carrier D.
Variable tb : optable.
(* false = the pinned tree (+5 bump applied unconditionally, defect F1), true = current code *)
Variable fixed_bump : bool.

Local Notation has_bin := (has_bin tb).
Local Notation has_un := (has_un tb).
Local Notation is_operator_binary := (@is_operator_binary D tb).

(* UnaryOp::apply: the last function is applied first *)
Definition apply_un (us : list nat) (x : D) : D := fold_right (fun k acc => unf C k acc) x us.
(* FlatOp::apply *)
Definition apply_op (o : fop) (a b : D) : D := apply_un (fun_ o) (binf C (fidx o) a b).

(* flat.rs:432 unpack_unary, on the token and its left neighbour *)
Definition unpack_unary (t : token D) (left : option (token D)) : res (option nat) :=
  match t with
  | TOp k => do b <- is_operator_binary k left;
             if b then Ok None else (if has_un k then Ok (Some k) else Err E_NOUNARY)
  | _ => Ok None
  end.

(* flat.rs:471 iter_subsequent_unaries(end_idx); rp = tokens end_idx, end_idx-1, ..., 0 *)
Fixpoint subsequent_unaries (rp : list (token D)) (acc : list nat) : res (list nat) :=
  match rp with
  | [] => Ok acc
  | t :: rest =>
      do u <- unpack_unary t (hd_error rest);
      match u with
      | Some k => subsequent_unaries rest (k :: acc)
      | None => Ok acc
      end
  end.

(* flat.rs:491 create_node; rp = reversed tokens left of the node token *)
Definition create_node (rp : list (token D)) (kind : fkind D) : res (fnode D) :=
  match rp with
  | TOp k :: rest =>
      do b <- is_operator_binary k (hd_error rest);
      if b then Ok {| nkind := kind; nun := [] |}
      else do us <- subsequent_unaries rp []; Ok {| nkind := kind; nun := us |}
  | _ => Ok {| nkind := kind; nun := [] |}
  end.

(* position (in the reversed operator list) of the lowest-priority operator among the trailing
   operators with prio >= depth*1000; the rightmost among equals (min_by keeps the first minimum) *)
Fixpoint lowest_trailing (rops : list fop) (depth : Z) (pos : nat) (best : option (nat * Z)) : option nat :=
  match rops with
  | [] => option_map fst best
  | o :: rest =>
      if fprio o >=? depth * DEPTH_PRIO_STEP then
        let best' := match best with
                     | None => Some (pos, fprio o)
                     | Some (_, p) => if fprio o <? p then Some (pos, fprio o) else best
                     end in
        lowest_trailing rest depth (S pos) best'
      else option_map fst best
  end.

Definition add_un (us : list nat) (o : fop) : fop :=
  {| fprio := fprio o; fidx := fidx o; fcomm := fcomm o; fun_ := us ++ fun_ o |}.

Definition var_index (vars : list str) (x : str) : res nat :=
  match index_of x vars 0 with Some i => Ok i | None => Panic 47 end.

(* the main loop of make_expression.  rp: reversed consumed tokens; rnodes/rops reversed;
   ustack: (reversed prefix ending at the unary token, depth) *)
Fixpoint walk (fuel : nat) (rp rest : list (token D)) (vars : list str)
         (rnodes : list (fnode D)) (rops : list fop) (depth : Z) (ustack : list (list (token D) * Z))
  : res (list (fnode D) * list fop) :=
  match fuel with O => Err E_FUEL | S fuel' =>
  match rest with
  | [] => Ok (rev rnodes, rev rops)
  | t :: rest' =>
    match t with
    | TOp k =>
        do b <- is_operator_binary k (hd_error rp);
        if b then
          match obin (op_of tb k) with
          | None => Err E_NOBIN
          | Some bs => walk fuel' (t :: rp) rest' vars rnodes
                         ({| fprio := prio bs + depth * DEPTH_PRIO_STEP; fidx := k; fcomm := comm bs; fun_ := [] |} :: rops) depth ustack
          end
        else
          match rest' with
          | TClose :: _ => Err E_UNCLOSE
          | TOpen :: _ => walk fuel' (t :: rp) rest' vars rnodes rops depth ((t :: rp, depth) :: ustack)
          | [] => Panic 518
          | _ => walk fuel' (t :: rp) rest' vars rnodes rops depth ustack
          end
    | TNum d => do n <- create_node rp (FNum d); walk fuel' (t :: rp) rest' vars (n :: rnodes) rops depth ustack
    | TVar x => do i <- var_index vars x; do n <- create_node rp (FVar i);
                walk fuel' (t :: rp) rest' vars (n :: rnodes) rops depth ustack
    | TOpen => walk fuel' (t :: rp) rest' vars rnodes rops (depth + 1) ustack
    | TClose =>
        let popped := match ustack with
                      | (urp, d) :: tl => if d =? depth - 1 then Some (urp, tl) else None
                      | [] => None end in
        match lowest_trailing rops depth 0 None with
        | None =>
            match rnodes with
            | [] => Err E_NONODE
            | n :: ntl =>
                match popped with
                | None => walk fuel' (t :: rp) rest' vars rnodes rops (depth - 1) ustack
                | Some (urp, tl) => do us <- subsequent_unaries urp [];
                    walk fuel' (t :: rp) rest' vars ({| nkind := nkind n; nun := us ++ nun n |} :: ntl) rops (depth - 1) tl
                end
            end
        | Some pos =>
            match popped with
            | None => walk fuel' (t :: rp) rest' vars rnodes rops (depth - 1) ustack
            | Some (urp, tl) => do us <- subsequent_unaries urp [];
                walk fuel' (t :: rp) rest' vars rnodes (update_nth pos (add_un us) rops) (depth - 1) tl
            end
        end
    end
  end end.

(* flat.rs:636 prioritized_indices_flat *)
Definition is_num (n : fnode D) : bool := match nkind n with FNum _ => true | FVar _ => false end.
Definition regrouping_is_invisible (ops : list fop) (i : nat) : bool :=
  match nth_error ops i with
  | None => false
  | Some o =>
      match fun_ o with _ :: _ => false | [] =>
        match find (fun l => fprio l <=? fprio o) (rev (firstn i ops)) with
        | None => true
        | Some l => (fprio l <? fprio o) || (Nat.eqb (fidx l) (fidx o) && match fun_ l with [] => true | _ => false end)
        end
      end
  end.
Definition key (nodes : list (fnode D)) (ops : list fop) (i : nat) : Z :=
  match nth_error ops i, nth_error nodes i, nth_error nodes (S i) with
  | Some o, Some a, Some b =>
      if is_num a && is_num b && fcomm o && (negb fixed_bump || regrouping_is_invisible ops i)
      then fprio o * 10 + 5 else fprio o * 10
  | Some o, _, _ => fprio o * 10
  | _, _, _ => 0
  end.
Definition prioritized_indices_flat (ops : list fop) (nodes : list (fnode D)) : list nat :=
  sort_desc (key nodes ops) (seq 0 (length ops)).

(* flat.rs:454 make_expression *)
Definition make_expression (text : str) (ts : list (token D)) (vars : list str) : res (flatex D) :=
  do r <- walk (S (length ts)) [] ts vars [] [] 0 [];
  let '(nodes, ops) := r in
  if Nat.eqb (S (length ops)) (length nodes)
  then Ok {| fnodes := nodes; fops := ops; fprios := prioritized_indices_flat ops nodes; fvars := vars; ftext := text |}
  else Err E_COUNT.

(* evaluation *)
Definition node_val (vars : list D) (n : fnode D) : res D :=
  match nkind n with
  | FVar i => match nth_error vars i with Some v => Ok (apply_un (nun n) v) | None => Panic 319 end
  | FNum d => Ok (apply_un (nun n) d)
  end.
Definition op_at (ops : list fop) (i : nat) (a b : D) : D :=
  match nth_error ops i with Some o => apply_op o a b | None => dflt C end.
Definition eval_numbers (nums : list D) (ops : list fop) (sigma : list nat) : res D :=
  eval_binary (dflt C) (op_at ops) nums (length ops) sigma.
Definition eval_cloning (fx : flatex D) (vars : list D) : res D :=
  do nums <- mapM (node_val vars) (fnodes fx);
  eval_numbers nums (fops fx) (fprios fx).
Definition eval_flat (fx : flatex D) (vars : list D) : res D :=
  if negb (Nat.eqb (length (fvars fx)) (length vars)) then Err E_ARITY else eval_cloning fx vars.
Definition eval_flat_relaxed (fx : flatex D) (vars : list D) : res D :=
  if Nat.ltb (length vars) (length (fvars fx)) then Err E_ARITY else eval_cloning fx vars.

(* flat.rs:351 eval_flatex_consuming_vars.  var_indices: None = usize::MAX (already cloned once).
   Also returns how often each variable value was cloned. *)
Fixpoint count_and_last (vi : list (option nat)) (idx : nat) (pos : nat) (cnt : nat) (found : nat) : nat * nat :=
  match vi with
  | [] => (cnt, found)
  | Some j :: tl => if Nat.eqb j idx then count_and_last tl idx (S pos) (S cnt) pos
                    else count_and_last tl idx (S pos) cnt found
  | None :: tl => count_and_last tl idx (S pos) cnt found
  end.
Fixpoint consume_nodes (nodes : list (fnode D)) (vars : list D) (vi : list (option nat)) (clones : list nat)
  : res (list D * list nat) :=
  match nodes with
  | [] => Ok ([], clones)
  | n :: tl =>
      match nkind n with
      | FNum d => do ' (rest, cl) <- consume_nodes tl vars vi clones; Ok (apply_un (nun n) d :: rest, cl)
      | FVar idx =>
          let '(cnt, found) := count_and_last vi idx 0 0 0 in
          match nth_error vars idx with
          | None => Panic 386
          | Some v =>
              if Nat.ltb 1 cnt then
                do ' (rest, cl) <- consume_nodes tl vars (set_nth found None vi) (update_nth idx S clones);
                Ok (apply_un (nun n) v :: rest, cl)
              else
                do ' (rest, cl) <- consume_nodes tl (set_nth idx (dflt C) vars) vi clones;
                Ok (apply_un (nun n) v :: rest, cl)
          end
      end
  end.
Definition eval_consuming (fx : flatex D) (vars : list D) : res (D * list nat) :=
  if negb (Nat.eqb (length (fvars fx)) (length vars)) then Err E_ARITY else
  let vi := flat_map (fun n => match nkind n with FVar i => [Some i] | FNum _ => [] end) (fnodes fx) in
  do ' (nums, cl) <- consume_nodes (fnodes fx) vars vi (repeat O (length vars));
  do v <- eval_numbers nums (fops fx) (fprios fx);
  Ok (v, cl).

(* flat.rs:726 FlatEx::compile *)
Fixpoint compile_loop (sigma : list nat) (i : nat) (num_inds : list nat)
         (nodes : list (fnode D)) (ops : list fop) (declined : list bool) (used : list nat)
  : res (list (fnode D) * list nat) :=
  match sigma with
  | [] => Ok (nodes, used)
  | bin_op_idx :: stl =>
      match nth_error num_inds i with
      | None => Panic 739
      | Some num_idx =>
        match nth_error nodes num_idx, nth_error nodes (S num_idx) with
        | Some n1, Some n2 =>
            let decline := compile_loop stl (S i) num_inds nodes ops
                             (set_nth (S num_idx) true (set_nth num_idx true declined)) used in
            match nkind n1, nkind n2 with
            | FNum a, FNum b =>
                if negb (nth num_idx declined false || nth (S num_idx) declined false) then
                  match nth_error ops bin_op_idx with
                  | None => Panic 746
                  | Some o =>
                      let nodes' := remove_nth (S num_idx) (set_nth num_idx {| nkind := FNum (apply_op o a b); nun := [] |} nodes) in
                      let declined' := remove_nth (S num_idx) declined in
                      let num_inds' := map (fun j => if Nat.ltb num_idx j then pred j else j) num_inds in
                      compile_loop stl (S i) num_inds' nodes' ops declined' (used ++ [bin_op_idx])
                  end
                else decline
            | _, _ => decline
            end
        | _, _ => Panic 740
        end
      end
  end.
Definition compile (fx : flatex D) : res (flatex D) :=
  let nodes0 := map (fun n => match nkind n with
                              | FNum d => {| nkind := FNum (apply_un (nun n) d); nun := [] |}
                              | FVar _ => n end) (fnodes fx) in
  do ' (nodes, used) <- compile_loop (fprios fx) 0 (fprios fx) nodes0 (fops fx) (repeat false (length nodes0)) [];
  let ops := map snd (filter (fun p => negb (existsb (Nat.eqb (fst p)) used)) (combine (seq 0 (length (fops fx))) (fops fx))) in
  Ok {| fnodes := nodes; fops := ops; fprios := prioritized_indices_flat ops nodes; fvars := fvars fx; ftext := ftext fx |}.

(* flat.rs:608-634 parse / parse_wo_compile *)
Variable is_literal : str -> option nat.
Definition parse_tokens_wo (text : str) (ts : list (token D)) : res (flatex D) :=
  do _ <- check_preconditions tb ts;
  make_expression text ts (find_parsed_vars ts).
Definition parse_wo_compile (text : str) : res (flatex D) :=
  do ts <- tokenize C tb is_literal text;
  parse_tokens_wo text ts.
Definition parse (text : str) : res (flatex D) :=
  do fx <- parse_wo_compile text; compile fx.
End Flat.
