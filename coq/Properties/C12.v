(* C12 — printed expressions parse back to the same expression.  Property theorems only. *)
From Coq Require Import List Arith.
Import ListNotations.
From Exmex.Model Require Import Base EvalBinary Lexer Flat Deep Convert.
From Exmex.Spec Require Import RefSem.
From Exmex.Proofs Require Import DeepSem DeepSubs C11Main DeepParse C03Main DeepOps Unparse UnparseParsed UokOps ParseAny Printable LexLocal PrintedText.
Open Scope nat_scope.

(* `_partial`: a flat expression obtained by parsing prints exactly the text it was parsed from (for every text,
   table, data type and literal matcher; with and without constant folding).
   Deep expressions, at the level of tokens (2-4 below): what a structurally well-formed deep expression prints is the
   concatenation of the texts of a token list (numbers by their Debug text, variables in braces, operator names,
   parentheses; unary operators as calls); parsing that token list gives an expression over the names that occur in it,
   whose value at every assignment is the denotation of the printed expression under the same named values; when every
   listed variable occurs in the text these are the same variables and the same value at every assignment.  A flat
   expression derived from a deep one prints the text of the deep one (5).
   Missing: that the tokenizer maps the printed TEXT back to these tokens (names and numbers do not run together, the
   Debug text of a number is read back as that number) -- covered by the correspondence (print, parse again, compare
   against the reference interpreter); the known finding F6 (variables that vanish from the printed text) is reported
   there and is visible in 3 as the difference between the listed and the occurring names. *)
Lemma compile_keeps_text {D} (C : carrier D) fb (fx fx' : flatex D) : compile C fb fx = Ok fx' -> ftext fx' = ftext fx.
Proof.
  unfold compile. destruct (compile_loop C _ _ _ _ _ _ _) as [[nodes used]|e|s]; cbn [bind]; try discriminate.
  intros H; inversion H; reflexivity.
Qed.
Theorem C12_flat_unparse_is_source_text_partial :
  forall (D : Type) (C : carrier D) (tb : optable) (fb : bool) (is_literal : str -> option nat) (text : str) (fx : flatex D),
  (parse C tb fb is_literal text = Ok fx \/ parse_wo_compile C tb fb is_literal text = Ok fx) -> ftext fx = text.
Proof.
  intros D C tb fb is_literal text fx.
  assert (Hwo : forall f, parse_wo_compile C tb fb is_literal text = Ok f -> ftext f = text).
  { intros f. unfold parse_wo_compile, parse_tokens_wo, make_expression.
    destruct (tokenize C tb is_literal text) as [ts|e|s]; cbn [bind]; try discriminate.
    destruct (check_preconditions tb ts) as [u|e|s]; cbn [bind]; try discriminate.
    destruct (walk tb _ _ _ _ _ _ _ _) as [[nodes ops]|e|s]; cbn [bind]; try discriminate.
    destruct (Nat.eqb _ _); [|discriminate]. intros H; inversion H; reflexivity. }
  intros [H|H]; [|apply Hwo; exact H].
  unfold parse in H. destruct (parse_wo_compile C tb fb is_literal text) as [f|e|s] eqn:E; cbn [bind] in H; try discriminate.
  rewrite (compile_keeps_text C fb f fx H). apply Hwo. reflexivity.
Qed.

(* 2. what a deep expression prints *)
Theorem C12_deep_unparse_is_the_text_of_its_tokens :
  forall (D : Type) (C : carrier D) (tb : optable) (okop : dbop -> Prop) (okvar : nat -> str -> Prop) (okvars : list str -> Prop) (e : deepex D),
  dwf okop okvar okvars e -> unparse C tb e = Some (render C tb (utoks e)).
Proof. exact @unparse_is_render. Qed.

(* 3. parsing the printed tokens: an expression over the names that occur, with the value of the printed expression *)
Theorem C12_printed_tokens_parse_back :
  forall (D : Type) (C : carrier D) (tb : optable) (R : D -> D -> Prop),
  (forall a, R a a) -> (forall a b, R a b -> R b a) -> (forall a b c, R a b -> R b c -> R a c) ->
  (forall k a a' b b', R a a' -> R b b' -> R (binf C k a b) (binf C k a' b')) ->
  (forall k a a', R a a' -> R (unf C k a) (unf C k a')) ->
  (forall o, comm_of tb o = true -> forall a b c, R (binf C o (binf C o a b) c) (binf C o a (binf C o b c))) ->
  forall (okvar : nat -> str -> Prop) (okvars : list str -> Prop) (e : deepex D),
  dwf (flagged tb) okvar okvars e -> uok tb e ->
  unparse C tb e = Some (render C tb (utoks e)) /\
  forall vals, length vals = length (find_parsed_vars (utoks e)) ->
  exists e' v, parse_deep_tokens C tb (utoks e) = Ok e' /\ dvars e' = find_parsed_vars (utoks e) /\
               eval_deep C e' vals = Ok v /\ R v (dden C (look_name C (find_parsed_vars (utoks e)) vals) e).
Proof. exact @print_parse_tokens. Qed.

(* 4. the same variables and the same value everywhere, when every listed variable occurs in the printed text *)
Theorem C12_printed_tokens_parse_back_to_the_same_expression :
  forall (D : Type) (C : carrier D) (tb : optable) (R : D -> D -> Prop),
  (forall a, R a a) -> (forall a b, R a b -> R b a) -> (forall a b c, R a b -> R b c -> R a c) ->
  (forall k a a' b b', R a a' -> R b b' -> R (binf C k a b) (binf C k a' b')) ->
  (forall k a a', R a a' -> R (unf C k a) (unf C k a')) ->
  (forall o, comm_of tb o = true -> forall a b c, R (binf C o (binf C o a b) c) (binf C o a (binf C o b c))) ->
  forall e : deepex D,
  dindexed (flagged tb) (dvars e) e -> uok tb e -> dvars e = find_parsed_vars (utoks e) ->
  exists e', parse_deep_tokens C tb (utoks e) = Ok e' /\ dvars e' = dvars e /\
    forall vals, length vals = length (dvars e) ->
    exists v v', eval_deep C e vals = Ok v /\ eval_deep C e' vals = Ok v' /\ R v' v.
Proof. exact @print_parse_same. Qed.

(* the premise on unary operators holds for everything the deep parser builds, from any token list *)
Theorem C12_parsed_expressions_record_unary_operators :
  forall (D : Type) (C : carrier D) (tb : optable) (ts : list (token D)) (e : deepex D) (rest : list (token D)) (fuel : nat),
  dparse C tb fuel None ts (find_parsed_vars ts) [] [] [] = Ok (e, rest) -> uok tb e.
Proof. intros D C tb ts e rest fuel H. exact (dparse_uok C tb fuel None ts _ [] [] [] e rest eq_refl (Forall_nil _) H). Qed.

(* ... and it is kept by the operations that derive expressions, which also keep the structural well-formedness (C10, C11):
   so what operator application and substitution return prints and parses back by 3 and 4.  (Derivatives: C05's
   C05_differentiation_succeeds returns the same two facts for partial.) *)
Theorem C12_derived_expressions_meet_the_premises :
  forall (D : Type) (C : carrier D) (tb : optable),
  (forall (a b r : deepex D) (name : str), uok tb a -> uok tb b -> operate_bin C tb a b name = Ok r -> uok tb r) /\
  (forall (a r : deepex D) (name : str), uok tb a -> operate_unary C tb a name = Ok r -> uok tb r) /\
  (forall (sub : str -> option (deepex D)), (forall x r, sub x = Some r -> uok tb r) ->
     forall e e' : deepex D, uok tb e -> subs C sub e = Ok e' -> uok tb e').
Proof.
  intros D C tb. split; [exact (operate_bin_uok C tb)|]. split; [exact (operate_unary_uok C tb)|exact (subs_uok C tb)].
Qed.

(* 4b. ALL premises of 4 hold for every deep expression parsed from ANY accepted token list (also sloppy input, also after
   constant folding, which removes numbers only): it prints the text of its tokens, and parsing these tokens gives an
   expression with the same variable list and, at every assignment, the same value *)
Theorem C12_every_parsed_expression_prints_and_parses_back :
  forall (D : Type) (C : carrier D) (tb : optable) (R : D -> D -> Prop),
  (forall a, R a a) -> (forall a b, R a b -> R b a) -> (forall a b c, R a b -> R b c -> R a c) ->
  (forall k a a' b b', R a a' -> R b b' -> R (binf C k a b) (binf C k a' b')) ->
  (forall k a a', R a a' -> R (unf C k a) (unf C k a')) ->
  (forall o, comm_of tb o = true -> forall a b c, R (binf C o (binf C o a b) c) (binf C o a (binf C o b c))) ->
  forall (ts : list (token D)) (e : deepex D), parse_deep_tokens C tb ts = Ok e ->
  unparse C tb e = Some (render C tb (utoks e)) /\
  exists e', parse_deep_tokens C tb (utoks e) = Ok e' /\ dvars e' = dvars e /\
    forall vals, length vals = length (dvars e) ->
    exists v v', eval_deep C e vals = Ok v /\ eval_deep C e' vals = Ok v' /\ R v' v.
Proof. exact @parsed_any_round_trip. Qed.

(* 4c. DERIVED expressions.  `printable e` (Proofs/Printable.v): index-consistent with its sorted variable list, unary
   stacks of unary operators, and the listed variables are exactly the occurring ones.  Parsed expressions are printable;
   operator application by name and substitution (with printable replacements) keep it; every printable expression prints
   the text of its tokens, and parsing these tokens gives a printable expression with the same variable list and the same
   value at every assignment.  So expressions derived by any finite history of operator applications and substitutions
   from parsed ones print and parse back.  (Derivatives and the neutral-element shortcuts of the overloaded operators
   can list variables that no longer occur: known finding F6.) *)
Theorem C12_parsed_expressions_are_printable :
  forall (D : Type) (C : carrier D) (tb : optable) (ts : list (token D)) (e : deepex D),
  parse_deep_tokens C tb ts = Ok e -> printable tb e.
Proof. exact @parsed_printable. Qed.
Theorem C12_operator_application_and_substitution_keep_printable :
  forall (D : Type) (C : carrier D) (tb : optable),
  (forall (a b r : deepex D) (name : str), printable tb a -> printable tb b -> operate_bin C tb a b name = Ok r -> printable tb r) /\
  (forall (a r : deepex D) (name : str), printable tb a -> operate_unary C tb a name = Ok r -> printable tb r) /\
  (forall (sub : str -> option (deepex D)), (forall x r, sub x = Some r -> printable tb r) ->
     forall e e' : deepex D, printable tb e -> subs C sub e = Ok e' -> printable tb e').
Proof.
  intros D C tb. split; [exact (operate_bin_printable C tb)|]. split; [exact (operate_unary_printable C tb)|exact (subs_printable C tb)].
Qed.
Theorem C12_printable_expressions_print_and_parse_back :
  forall (D : Type) (C : carrier D) (tb : optable) (R : D -> D -> Prop),
  (forall a, R a a) -> (forall a b, R a b -> R b a) -> (forall a b c, R a b -> R b c -> R a c) ->
  (forall k a a' b b', R a a' -> R b b' -> R (binf C k a b) (binf C k a' b')) ->
  (forall k a a', R a a' -> R (unf C k a) (unf C k a')) ->
  (forall o, comm_of tb o = true -> forall a b c, R (binf C o (binf C o a b) c) (binf C o a (binf C o b c))) ->
  forall e : deepex D, printable tb e ->
  unparse C tb e = Some (render C tb (utoks e)) /\
  exists e', parse_deep_tokens C tb (utoks e) = Ok e' /\ dvars e' = dvars e /\ printable tb e' /\
    forall vals, length vals = length (dvars e) ->
    exists v v', eval_deep C e vals = Ok v /\ eval_deep C e' vals = Ok v' /\ R v' v.
Proof. exact @printable_round_trip. Qed.

(* 5. a flat expression made from a deep one prints what the deep one prints *)
Theorem C12_flat_from_deep_prints_the_deep_text :
  forall (D : Type) (C : carrier D) (tb : optable) (fb : bool) (e : deepex D) (fx : flatex D),
  from_deepex C tb fb e = Ok fx -> unparse C tb e = Some (ftext fx).
Proof.
  intros D C tb fb e fx H. unfold from_deepex in H.
  destruct (flatten_vecs e 0) as [[ns os]| |]; cbn [bind] in H; try discriminate.
  destruct (unparse C tb e) as [t|]; [|discriminate]. inversion H; subst. reflexivity.
Qed.

Print Assumptions C12_flat_unparse_is_source_text_partial.
Print Assumptions C12_deep_unparse_is_the_text_of_its_tokens.
Print Assumptions C12_printed_tokens_parse_back.
Print Assumptions C12_printed_tokens_parse_back_to_the_same_expression.
Print Assumptions C12_parsed_expressions_record_unary_operators.
Print Assumptions C12_every_parsed_expression_prints_and_parses_back.
Print Assumptions C12_parsed_expressions_are_printable.
Print Assumptions C12_operator_application_and_substitution_keep_printable.
Print Assumptions C12_printable_expressions_print_and_parse_back.
Print Assumptions C12_flat_from_deep_prints_the_deep_text.
Print Assumptions C12_derived_expressions_meet_the_premises.

(* 6. TEXT level (Proofs/LexLocal.v, Proofs/PrintedText.v).  unparse prints the tokens without any space.  Whenever every printed
   token is readable in front of the text that follows it -- the literal matcher takes exactly the Debug text of a number there
   and reads it back, it takes nothing of an operator name, and the operator search finds the operator by its name there (in a
   table with distinct names: it matches and no longer name does, C13) -- the tokenizer maps the printed text back to exactly
   these tokens, so DeepEx::parse (unparse e) succeeds, lists the same variables, is printable again and has the same value at
   every assignment.  What remains outside the theorems is only whether a concrete table and literal matcher meet the local
   conditions on a concrete printed text (`1.0--2.0` with a `--` operator does not) -- covered by the correspondence. *)
Theorem C12_printed_text_is_read_back_to_its_tokens :
  forall (D : Type) (C : carrier D) (tb : optable) (is_literal : str -> option nat) (ts : list (token D)),
  all_readable C tb is_literal (printed ts) [] -> tokenize C tb is_literal (render C tb ts) = Ok ts.
Proof. exact @printed_text_tokenizes. Qed.
Theorem C12_printable_expressions_print_text_that_parses_back :
  forall (D : Type) (C : carrier D) (tb : optable) (is_literal : str -> option nat) (R : D -> D -> Prop),
  (forall a, R a a) -> (forall a b, R a b -> R b a) -> (forall a b c, R a b -> R b c -> R a c) ->
  (forall k a a' b b', R a a' -> R b b' -> R (binf C k a b) (binf C k a' b')) ->
  (forall k a a', R a a' -> R (unf C k a) (unf C k a')) ->
  (forall o, comm_of tb o = true -> forall a b c, R (binf C o (binf C o a b) c) (binf C o a (binf C o b c))) ->
  forall e : deepex D, printable tb e ->
  all_readable C tb is_literal (printed (utoks e)) [] ->
  exists txt e', unparse C tb e = Some txt /\ parse_deep C tb is_literal txt = Ok e' /\
    dvars e' = dvars e /\ printable tb e' /\
    forall vals, length vals = length (dvars e) ->
    exists v v', eval_deep C e vals = Ok v /\ eval_deep C e' vals = Ok v' /\ R v' v.
Proof. exact @printed_text_round_trip. Qed.
Print Assumptions C12_printed_text_is_read_back_to_its_tokens.
Print Assumptions C12_printable_expressions_print_text_that_parses_back.
