(* C06 — no input text can crash the library.  Property theorems only. *)
From Coq Require Import List.
From Exmex.Model Require Import Base Lexer Flat Deep Convert.
From Exmex.Proofs Require Import Totality FlatTotal DeepTotal CompileCorrect ConvertCompose.

(* In the model every panic site of the Rust code (index out of bounds, unwrap on None, usize underflow) is an explicit
   `Panic site` outcome.  The theorems say that no text reaches one. *)

(* 1. tokenizer and precondition check: every text, operator table, data type and literal matcher *)
Theorem C06_tokenizer_total_partial :
  forall (D : Type) (C : carrier D) (tb : optable) (is_literal : str -> option nat) (text : str) (site : nat),
  tokenize C tb is_literal text <> Panic site.
Proof. exact @tokenize_total. Qed.
Theorem C06_preconditions_total_partial :
  forall (D : Type) (tb : optable) (ts : list (token D)) (site : nat), check_preconditions tb ts <> Panic site.
Proof. exact @check_preconditions_total. Qed.

(* 2. the flat parsing entry points, with and without constant folding *)
Theorem C06_flat_parse_never_panics :
  forall (D : Type) (C : carrier D) (tb : optable) (is_literal : str -> option nat) (text : str) (site : nat),
  parse C tb true is_literal text <> Panic site /\ parse_wo_compile C tb true is_literal text <> Panic site.
Proof. intros. split; [apply parse_no_panic|apply parse_wo_compile_no_panic]. Qed.

(* 3. every flat expression obtained this way evaluates to a value on every slice of the right length: no index out of
   bounds in the tracker loop for any application order, no missing variable *)
Theorem C06_parsed_flat_expressions_evaluate :
  forall (D : Type) (C : carrier D) (tb : optable) (is_literal : str -> option nat) (text : str) (fx : flatex D) (vals : list D),
  parse C tb true is_literal text = Ok fx \/ parse_wo_compile C tb true is_literal text = Ok fx ->
  length vals = length (fvars fx) -> exists v, eval_flat C fx vals = Ok v.
Proof. exact @parsed_evaluates. Qed.

(* 4. the deep parsing entry point *)
Theorem C06_deep_parse_never_panics :
  forall (D : Type) (C : carrier D) (tb : optable) (is_literal : str -> option nat) (text : str) (site : nat),
  parse_deep C tb is_literal text <> Panic site.
Proof. exact @parse_deep_no_panic. Qed.

(* `_partial` in the names above and outside these theorems: conversion, unparse, operator listings and partial of
   SLOPPY parsed expressions (for well-formed trees and for every flat expression the parser accepts the conversions
   are in C03's theorems), the value-typed and statement entry points, and stack depth, which is a runtime fact
   (child processes with an 8 MiB stack, DESIGN.md C06, known finding F10).  All of them are exercised by the
   correspondence under catch_unwind, exhaustively for short strings over the piece alphabets. *)
Print Assumptions C06_tokenizer_total_partial.
Print Assumptions C06_preconditions_total_partial.
Print Assumptions C06_flat_parse_never_panics.
Print Assumptions C06_parsed_flat_expressions_evaluate.
Print Assumptions C06_deep_parse_never_panics.
