(* C13 — operator names match exactly; numbers, signs and braces tokenise as documented.  Property theorems only. *)
From Coq Require Import List Arith NArith.
Import ListNotations.
From Coq Require Import Lia.
From Exmex.Model Require Import Base Lexer.
From Exmex.Proofs Require Import LexerFacts LongestMatch LexSpaced LexFlex LexLocal.
Open Scope nat_scope.

(* For EVERY operator table (so also tables whose names are prefixes of each other), data type and literal matcher. *)

(* An identifier w followed by a non-identifier character is read as ONE variable whenever no binary-capable
   operator name is a prefix of the text there (for those the implementation skips the look-ahead: `minx` is
   `min x`; the property only speaks about unary operators and constants) and every unary-operator or constant
   name that matches is a proper prefix of w: sin4, PI5, Erwin, expx are variables. *)
Theorem C13_extended_name_is_variable :
  forall (D : Type) (C : carrier D) (tb : optable) (is_literal : str -> option nat)
         (w : str) (c : N) (rest : str) (fuel : nat) rres pending depth,
  ident w -> is_ident_char c = false ->
  is_literal (w ++ c :: rest) = None ->
  (forall k, has_bin tb k = true -> is_prefix (repr (op_of tb k)) (w ++ c :: rest) = false) ->
  (forall k, has_bin tb k = false -> is_prefix (repr (op_of tb k)) (w ++ c :: rest) = true ->
             exists x y, w = repr (op_of tb k) ++ x :: y /\ repr (op_of tb k) <> []) ->
  tokenize_go C tb is_literal (S fuel) (w ++ c :: rest) rres pending depth
  = tokenize_go C tb is_literal fuel (c :: rest) (TVar w :: rres) pending depth.
Proof. exact @extended_name_is_variable. Qed.

(* a sign is unary exactly when it starts the text or follows an operator or an opening parenthesis *)
Theorem C13_sign_unary_iff : forall (D : Type) (tb : optable) (k : nat) (left : option (token D)),
  has_bin tb k = true -> has_un tb k = true ->
  is_operator_binary tb k left =
    Ok (match left with
        | None | Some (TOp _) | Some TOpen => false
        | Some (TNum _) | Some (TVar _) | Some TClose => true
        end).
Proof. exact @sign_unary_iff. Qed.

(* number literals: the maximal run of digits and dots, accepted iff it has at most one dot and is not a lone dot *)
Theorem C13_numeric_literal : forall (lit rest : str),
  lit <> [] -> forallb num_char lit = true -> (match rest with [] => True | c :: _ => num_char c = false end) ->
  is_numeric_text (lit ++ rest) =
    if (Nat.ltb 1 (length lit) && Nat.ltb (count_dots lit) 2) || (Nat.eqb (length lit) 1 && Nat.eqb (count_dots lit) 0)
    then Some (length lit) else None.
Proof. exact is_numeric_text_spec. Qed.

(* anything in curly braces is one variable *)
Theorem C13_brace_is_one_var :
  forall (D : Type) (C : carrier D) (tb : optable) (is_literal : str -> option nat) (name rest : str) (fuel : nat) rres pending depth,
  forallb (fun c => negb (N.eqb c RBRACE)) name = true ->
  tokenize_go C tb is_literal (S fuel) (LBRACE :: name ++ RBRACE :: rest) rres pending depth
  = tokenize_go C tb is_literal fuel rest (TVar name :: rres) pending depth.
Proof. exact @brace_is_one_var. Qed.

(* the longest matching operator name wins: for EVERY table (names that are prefixes of each other, any number of
   them) and every position of a text, the operator the tokenizer finds matches there, and no operator that matches
   there has a longer name (`log2`/`log10` over `log`, `<=` over `<`, `atan2` over `atan`) *)
Theorem C13_longest_operator_name_wins :
  forall (tb : optable) (rest : str) (k : nat), find_ops tb rest = Some k ->
  op_matches tb rest k = true /\
  forall k', k' < length tb -> op_matches tb rest k' = true ->
             length (repr (op_of tb k')) <= length (repr (op_of tb k)).
Proof. exact find_ops_longest. Qed.

(* non-vacuity on a concrete table with names that are prefixes of each other *)
Definition ex_tb : optable :=
  [ {| repr := [43]%N; obin := Some {| prio := 0; comm := true |}; ounary := true; oconst := false |};
    {| repr := [115;105;110]%N; obin := None; ounary := true; oconst := false |};           (* sin *)
    {| repr := [108;111;103]%N; obin := None; ounary := true; oconst := false |};           (* log *)
    {| repr := [108;111;103;50]%N; obin := None; ounary := true; oconst := false |};        (* log2 *)
    {| repr := [80;73]%N; obin := None; ounary := false; oconst := true |} ].               (* PI *)
Example C13_sin4_PI5_log2x :
  tokenize term_carrier ex_tb is_numeric_text [115;105;110;52;43;80;73;53;43;108;111;103;50;120;43;108;111;103;50;32;120]%N  (* sin4+PI5+log2x+log2 x *)
  = Ok [TVar [115;105;110;52]%N; TOp 0; TVar [80;73;53]%N; TOp 0; TVar [108;111;103;50;120]%N; TOp 0; TOp 3; TVar [120]%N].
Proof. vm_compute. reflexivity. Qed.

(* Composition into whole texts, for the canonical rendering of a token list (every token followed by one space, numbers
   by their Debug text, variables in braces, operators by name): when every token is readable in front of a space, the
   tokenizer returns exactly the token list; an operator is found by its name in front of a space in every table with
   distinct names that contain no space. *)
Theorem C13_canonical_text_tokenizes :
  forall (D : Type) (C : carrier D) (tb : optable) (is_literal : str -> option nat) (ts : list (token D)),
  Forall (lexable C tb is_literal) ts -> tokenize C tb is_literal (stext C tb ts) = Ok ts.
Proof. exact @tokenize_spaced. Qed.
Theorem C13_operator_found_by_its_name :
  forall (tb : optable) (k : nat) (rest : str),
  (forall i j, i < length tb -> j < length tb -> repr (op_of tb i) = repr (op_of tb j) -> i = j) ->
  (forall i, i < length tb -> forallb (fun c => negb (N.eqb c SPACE)) (repr (op_of tb i)) = true) ->
  k < length tb -> find_ops tb (repr (op_of tb k) ++ SPACE :: rest) = Some k.
Proof. exact find_ops_spaced. Qed.

(* ... and with FREE spacing (Proofs/LexFlex.v): every token followed by any number of spaces, also none, provided a number
   or an operator name is followed by a terminator (a space, a parenthesis, an opening brace) or by the end of the text --
   `sin({x})+{y}`, `( {x}  + 12 )*sin {y}`; an operator is found by its name in front of a terminator or the end of the
   text in every table with distinct names that contain no terminator character. *)
Theorem C13_free_spacing_text_tokenizes :
  forall (D : Type) (C : carrier D) (tb : optable) (is_literal : str -> option nat) (items : list (token D * nat)),
  Forall (flexable C tb is_literal) (map fst items) -> gaps_ok C tb items ->
  tokenize C tb is_literal (ftext C tb items) = Ok (map fst items).
Proof. exact @tokenize_flex. Qed.
Theorem C13_operator_found_in_front_of_a_terminator :
  forall (tb : optable) (k : nat) (rest : str),
  (forall i j, i < length tb -> j < length tb -> repr (op_of tb i) = repr (op_of tb j) -> i = j) ->
  (forall i, i < length tb -> forallb (fun c => negb (terminator c)) (repr (op_of tb i)) = true) ->
  k < length tb -> tstart rest -> find_ops tb (repr (op_of tb k) ++ rest) = Some k.
Proof. exact find_ops_flex. Qed.

Print Assumptions C13_extended_name_is_variable.
Print Assumptions C13_sign_unary_iff.
Print Assumptions C13_numeric_literal.
Print Assumptions C13_brace_is_one_var.
Print Assumptions C13_longest_operator_name_wins.
(* non-vacuity: the tokens of  ( {x} + 12 ) * sin {y}  over the free term algebra, with the number pattern of the model as
   literal matcher, are readable in front of a space, and the text is tokenized back *)
Definition ex13_tb : optable :=
  [ {| repr := [43]%N; obin := Some {| prio := 0; comm := true |}; ounary := true; oconst := false |};
    {| repr := [42]%N; obin := Some {| prio := 2; comm := true |}; ounary := false; oconst := false |};
    {| repr := [115;105;110]%N; obin := None; ounary := true; oconst := false |} ].
Definition ex13_ts : list (token term) := [TOpen; TVar [120%N]; TOp 0; TNum (Lit [49;50]%N); TClose; TOp 1; TOp 2; TVar [121%N]].
Example C13_example_lexable : Forall (lexable term_carrier ex13_tb is_numeric_text) ex13_ts /\
  tokenize term_carrier ex13_tb is_numeric_text (stext term_carrier ex13_tb ex13_ts) = Ok ex13_ts.
Proof.
  assert (H : Forall (lexable term_carrier ex13_tb is_numeric_text) ex13_ts).
  { repeat constructor; cbn; try reflexivity; try (eexists _, _; split; reflexivity); intros rest; reflexivity. }
  split; [exact H|exact (tokenize_spaced term_carrier ex13_tb is_numeric_text ex13_ts H)].
Qed.


(* non-vacuity with free spacing:  sin({x})+{y}* 12  (one space: behind an operator that a digit would follow) and  sin ( {x} )  +{y} * 12   *)
Definition ex13_flex (gaps : list nat) : list (token term * nat) := combine [TOp 2; TOpen; TVar [120%N]; TClose; TOp 0; TVar [121%N]; TOp 1; TNum (Lit [49;50]%N)] gaps.
Example C13_example_free_spacing :
  tokenize term_carrier ex13_tb is_numeric_text (ftext term_carrier ex13_tb (ex13_flex [0;0;0;0;0;0;1;0])) = Ok (map fst (ex13_flex [0;0;0;0;0;0;1;0])) /\
  tokenize term_carrier ex13_tb is_numeric_text (ftext term_carrier ex13_tb (ex13_flex [1;1;1;2;0;1;1;3])) = Ok (map fst (ex13_flex [1;1;1;2;0;1;1;3])) /\
  ftext term_carrier ex13_tb (ex13_flex [0;0;0;0;0;0;1;0]) = [115;105;110;40;123;120;125;41;43;123;121;125;42;32;49;50]%N.
Proof.
  assert (Hops : forall k rest, k < 3 -> tstart rest -> find_ops ex13_tb (repr (op_of ex13_tb k) ++ rest) = Some k).
  { intros k rest Hk Hr. apply find_ops_flex; [| |exact Hk|exact Hr].
    - intros i j Hi Hj. cbn in Hi, Hj. destruct i as [|[|[|i]]]; try lia; destruct j as [|[|[|j]]]; try lia; cbn; intros E; try reflexivity; discriminate.
    - intros i Hi. cbn in Hi. destruct i as [|[|[|i]]]; try lia; reflexivity. }
  assert (Hlit : forall rest, tstart rest -> is_numeric_text ([49;50]%N ++ rest) = Some 2).
  { intros rest [->|(c & r & -> & Hc)]; [reflexivity|]. destruct (term_cases c Hc) as [E|[E|[E|E]]]; subst c; reflexivity. }
  assert (Hnolit : forall k rest, k < 3 -> tstart rest -> is_numeric_text (repr (op_of ex13_tb k) ++ rest) = None).
  { intros k rest Hk Hr. destruct k as [|[|[|k]]]; try lia; reflexivity. }
  assert (HF : forall g, Forall (flexable term_carrier ex13_tb is_numeric_text) (map fst (ex13_flex g)) ).
  { intros g. assert (HA : Forall (flexable term_carrier ex13_tb is_numeric_text) [TOp 2; TOpen; TVar [120%N]; TClose; TOp 0; TVar [121%N]; TOp 1; TNum (Lit [49;50]%N)]).
    { repeat constructor; cbn [flexable]; try reflexivity; try (eexists _, _; split; reflexivity);
        try (intros rest Hr; first [apply Hops; [lia|exact Hr]|apply Hnolit; [lia|exact Hr]|exact (Hlit rest Hr)]). }
    unfold ex13_flex. rewrite Forall_forall in *. intros t Ht. apply HA. apply in_map_iff in Ht. destruct Ht as ([t' n] & <- & Hin). exact (in_combine_l _ _ _ _ Hin). }
  split; [|split; [|reflexivity]].
  - apply tokenize_flex; [apply HF|]. cbn. repeat split; intros Hn; try discriminate Hn; try (left; reflexivity); right; eexists _, _; split; reflexivity.
  - apply tokenize_flex; [apply HF|]. cbn. repeat split; intros Hn; try discriminate Hn; try (left; reflexivity); right; eexists _, _; split; reflexivity.
Qed.

Print Assumptions C13_canonical_text_tokenizes.
Print Assumptions C13_operator_found_by_its_name.
Print Assumptions C13_free_spacing_text_tokenizes.
Print Assumptions C13_operator_found_in_front_of_a_terminator.

(* ... and with NO terminator asked for (Proofs/LexLocal.v): the tokenizer is decided locally.  A text cut into pieces -- numbers,
   parentheses, braced variables, operator names, names of constants, BARE variable names -- with any number of spaces behind
   each (also none) is tokenized to the tokens of the pieces whenever every piece is readable in front of the text that
   actually follows it: `2*x-sin(y)+PI`.  Sufficient local conditions: a bare name is readable in front of a character that
   cannot continue a name when the literal matcher and the operator search find nothing there; in a table with distinct names
   an operator is readable wherever it matches and no operator with a longer name does. *)
Theorem C13_locally_readable_text_tokenizes :
  forall (D : Type) (C : carrier D) (tb : optable) (is_literal : str -> option nat) (items : list (piece (D:=D) * nat)),
  all_readable C tb is_literal items [] ->
  tokenize C tb is_literal (ptexts C tb items) = Ok (map (ptok C) (map fst items)).
Proof. exact @tokenize_local. Qed.
Theorem C13_bare_variable_is_readable :
  forall (D : Type) (C : carrier D) (tb : optable) (is_literal : str -> option nat) (x rest : str),
  is_exact_var_name x = true -> name_end rest ->
  is_literal (x ++ rest) = None -> find_ops tb (x ++ rest) = None ->
  readable C tb is_literal (PBare x) rest.
Proof. exact @bare_variable_readable. Qed.
Theorem C13_operator_is_readable_where_it_is_the_longest_match :
  forall (D : Type) (C : carrier D) (tb : optable) (is_literal : str -> option nat) (k : nat) (rest : str),
  (forall i j, i < length tb -> j < length tb -> repr (op_of tb i) = repr (op_of tb j) -> i = j) ->
  k < length tb -> starts_plain (repr (op_of tb k)) -> oconst (op_of tb k) = false ->
  is_literal (repr (op_of tb k) ++ rest) = None ->
  op_matches tb (repr (op_of tb k) ++ rest) k = true ->
  (forall k', k' < length tb -> op_matches tb (repr (op_of tb k) ++ rest) k' = true ->
              length (repr (op_of tb k')) <= length (repr (op_of tb k))) ->
  readable C tb is_literal (PT (TOp k)) rest.
Proof. exact @operator_readable. Qed.
Theorem C13_longest_matching_operator_is_found :
  forall (tb : optable) (rest : str) (k : nat),
  (forall i j, i < length tb -> j < length tb -> repr (op_of tb i) = repr (op_of tb j) -> i = j) ->
  k < length tb -> op_matches tb rest k = true ->
  (forall k', k' < length tb -> op_matches tb rest k' = true -> length (repr (op_of tb k')) <= length (repr (op_of tb k))) ->
  find_ops tb rest = Some k.
Proof. exact find_ops_unique_longest. Qed.

(* with the default number pattern as literal matcher: a number whose Debug text is digits with at most one dot and reads back
   as that number is readable in front of anything that does not continue it with a digit or a dot; names that do not start
   with a digit or a dot are not taken for numbers *)
Theorem C13_number_is_readable_by_the_default_matcher :
  forall (D : Type) (C : carrier D) (tb : optable) (d : D) (rest : str),
  show C d <> [] -> forallb num_char (show C d) = true ->
  ((Nat.ltb 1 (length (show C d)) && Nat.ltb (count_dots (show C d)) 2) || (Nat.eqb (length (show C d)) 1 && Nat.eqb (count_dots (show C d)) 0)) = true ->
  (match rest with [] => True | c :: _ => num_char c = false end) ->
  lit C (show C d) = Some d ->
  readable C tb is_numeric_text (PT (TNum d)) rest.
Proof. exact @number_readable_default. Qed.
Theorem C13_names_are_not_numbers : forall (x rest : str) c tl, x = c :: tl -> num_char c = false -> is_numeric_text (x ++ rest) = None.
Proof. exact name_not_numeric. Qed.

(* non-vacuity:  2*x-sin(y)+PI  without a single space, bare variable names, a constant *)
Definition ex13_tb2 : optable :=
  [ {| repr := [43]%N; obin := Some {| prio := 0; comm := true |}; ounary := true; oconst := false |};
    {| repr := [42]%N; obin := Some {| prio := 2; comm := true |}; ounary := false; oconst := false |};
    {| repr := [45]%N; obin := Some {| prio := 0; comm := false |}; ounary := true; oconst := false |};
    {| repr := [115;105;110]%N; obin := None; ounary := true; oconst := false |};
    {| repr := [80;73]%N; obin := None; ounary := false; oconst := true |} ].
Definition ex13_pieces : list (piece (D:=term) * nat) :=
  [ (PT (TNum (Lit [50]%N)), 0); (PT (TOp 1), 0); (PBare [120]%N, 0); (PT (TOp 2), 0); (PT (TOp 3), 0); (PT TOpen, 0);
    (PBare [121]%N, 0); (PT TClose, 0); (PT (TOp 0), 0); (PConst 4, 0) ].
Example C13_example_no_spaces :
  ptexts term_carrier ex13_tb2 ex13_pieces = [50;42;120;45;115;105;110;40;121;41;43;80;73]%N /\
  all_readable term_carrier ex13_tb2 is_numeric_text ex13_pieces [] /\
  tokenize term_carrier ex13_tb2 is_numeric_text (ptexts term_carrier ex13_tb2 ex13_pieces)
    = Ok [TNum (Lit [50]%N); TOp 1; TVar [120]%N; TOp 2; TOp 3; TOpen; TVar [121]%N; TClose; TOp 0; TNum (cst term_carrier 4)].
Proof.
  assert (H : all_readable term_carrier ex13_tb2 is_numeric_text ex13_pieces []).
  { cbn [all_readable ex13_pieces readable]. repeat split; try reflexivity; eexists _, _; split; reflexivity. }
  split; [reflexivity|split; [exact H|]]. exact (tokenize_local term_carrier ex13_tb2 is_numeric_text ex13_pieces H).
Qed.

Print Assumptions C13_locally_readable_text_tokenizes.
Print Assumptions C13_bare_variable_is_readable.
Print Assumptions C13_operator_is_readable_where_it_is_the_longest_match.
Print Assumptions C13_longest_matching_operator_is_found.
Print Assumptions C13_number_is_readable_by_the_default_matcher.
Print Assumptions C13_names_are_not_numbers.
