(* Proofs/FlatCalc.v — Calculate::operate_binary / operate_unary / subs on FLAT expressions (calculate.rs): convert to the
   deep form, operate, convert back.  The three model functions of the pipeline compose: the result is again a flat
   expression the conversions accept, over the expected variable list, with the expected value at every assignment. *)
From Coq Require Import List Arith Lia Bool ZArith Sorting.Sorted.
Import ListNotations.
From Exmex.Model Require Import Base EvalBinary Lexer Flat Deep Convert.
From Exmex.Spec Require Import RefSem.
From Exmex.Proofs Require Import FlatPev CompileCorrect Vars DeepSem DeepVars DeepSubs C11Main DeepParse DeepOps ConvertMain ToDeep ConvertCompose.
Open Scope nat_scope.

Section FlatCalc.
Context {D : Type}.
Variable C : carrier D.
Variable tb : optable.
Hypothesis Hwf_tb : wf_table tb = true.
Variable R : D -> D -> Prop.
Hypothesis R_refl : forall a, R a a.
Hypothesis R_sym : forall a b, R a b -> R b a.
Hypothesis R_trans : forall a b c, R a b -> R b c -> R a c.
Hypothesis R_bin : forall k a a' b b', R a a' -> R b b' -> R (binf C k a b) (binf C k a' b').
Hypothesis R_un : forall k a a', R a a' -> R (unf C k a) (unf C k a').
Hypothesis table_assoc : forall k, comm_of tb k = true -> forall a b c, R (binf C k (binf C k a b) c) (binf C k a (binf C k b c)).

Local Notation flat_ok := (flat_ok C tb).
Local Notation deep_ok := (@deep_ok D tb).
Local Notation f2d := (flat_to_deep C tb R R_refl R_sym R_trans R_bin R_un table_assoc).
Local Notation d2f := (deep_to_flat C tb Hwf_tb R R_refl R_sym R_trans R_bin R_un table_assoc).

Lemma sorted_deep_ok all (e : deepex D) : dindexed (from_table tb) all e -> StronglySorted str_lt all -> deep_ok e.
Proof. intros [Hw Hv] HS. split; [split; [rewrite Hv; exact Hw|reflexivity]|rewrite Hv; apply sorted_lt_NoDup; exact HS]. Qed.

(* ---- operate_binary ---- *)
Theorem flat_operate_binary (fa fb : flatex D) (name : str) (k : nat) :
  find_op name tb 0 = Some k -> is_bin tb k = true -> flat_ok fa -> flat_ok fb ->
  let all := sort_strs (fvars fa ++ fvars fb) in
  exists da db r fx,
    to_deepex C tb true fa = Ok da /\ to_deepex C tb true fb = Ok db /\ operate_bin C tb da db name = Ok r /\
    from_deepex C tb true r = Ok fx /\ flat_ok fx /\ fvars fx = all /\
    forall vals', length vals' = length all ->
    exists v va vb, eval_flat C fx vals' = Ok v /\
                    eval_flat C fa (map (env_of C all vals') (fvars fa)) = Ok va /\
                    eval_flat C fb (map (env_of C all vals') (fvars fb)) = Ok vb /\ R v (binf C k va vb).
Proof.
  intros Hf Hb Ha Hbb all.
  destruct (f2d fa Ha) as (da & Eda & Hoka & Hva & Heqa). destruct (f2d fb Hbb) as (db & Edb & Hokb & Hvb & Heqb).
  destruct (operate_bin_eval C tb R R_refl R_sym R_trans R_bin R_un table_assoc da db name k Hf Hb (proj1 Hoka) (proj1 Hokb)) as (r & Er & Hir & Hevr).
  rewrite Hva, Hvb in Hir, Hevr. fold all in Hir, Hevr.
  assert (Hokr : deep_ok r) by (apply (sorted_deep_ok all r Hir); apply sort_strs_spec).
  destruct (d2f r Hokr) as (fx & Efx & Hokx & Hvx & Heqx).
  assert (Hvr : dvars r = all) by exact (proj2 Hir).
  exists da, db, r, fx. repeat (split; [assumption|]). split; [congruence|].
  intros vals' Hl.
  destruct (Hevr vals' Hl) as (v & va & vb & Ev & Eva & Evb & HR).
  destruct (Heqx vals' ltac:(congruence)) as (vx & w & Evx & Ew & HRx).
  destruct (Heqa (map (env_of C all vals') (fvars fa)) ltac:(apply map_length)) as (va' & wa & Eva' & Ewa & HRa).
  destruct (Heqb (map (env_of C all vals') (fvars fb)) ltac:(apply map_length)) as (vb' & wb & Evb' & Ewb & HRb).
  exists vx, va', vb'. split; [exact Evx|]. split; [exact Eva'|]. split; [exact Evb'|].
  assert (w = v) by congruence. assert (wa = va) by congruence. assert (wb = vb) by congruence. subst.
  eapply R_trans; [exact HRx|]. eapply R_trans; [exact HR|]. apply R_bin; assumption.
Qed.

(* ---- operate_unary ---- *)
Theorem flat_operate_unary (fa : flatex D) (name : str) (k : nat) :
  find_op name tb 0 = Some k -> has_un tb k = true -> flat_ok fa ->
  exists da r fx,
    to_deepex C tb true fa = Ok da /\ operate_unary C tb da name = Ok r /\ from_deepex C tb true r = Ok fx /\
    flat_ok fx /\ fvars fx = fvars fa /\
    forall vals, length vals = length (fvars fa) ->
    exists v va, eval_flat C fx vals = Ok v /\ eval_flat C fa vals = Ok va /\ R v (unf C k va).
Proof.
  intros Hf Hu Ha.
  destruct (f2d fa Ha) as (da & Eda & Hoka & Hva & Heqa).
  destruct (operate_unary_eval C tb R R_refl R_sym R_trans R_bin R_un table_assoc da name k Hf Hu (proj1 Hoka)) as (r & Er & Hir & Hevr).
  assert (Hokr : deep_ok r).
  { destruct Hir as [Hw Hv]. split; [split; [rewrite Hv; exact Hw|reflexivity]|rewrite Hv; exact (proj2 Hoka)]. }
  destruct (d2f r Hokr) as (fx & Efx & Hokx & Hvx & Heqx).
  assert (Hvr : dvars r = dvars da) by exact (proj2 Hir).
  exists da, r, fx. repeat (split; [assumption|]). split; [congruence|].
  intros vals Hl.
  destruct (Hevr vals ltac:(congruence)) as (v & va & Ev & Eva & HR).
  destruct (Heqx vals ltac:(congruence)) as (vx & w & Evx & Ew & HRx).
  destruct (Heqa vals Hl) as (va' & wa & Eva' & Ewa & HRa).
  exists vx, va'. split; [exact Evx|]. split; [exact Eva'|].
  assert (w = v) by congruence. assert (wa = va) by congruence. subst.
  eapply R_trans; [exact HRx|]. eapply R_trans; [exact HR|]. apply R_un. exact HRa.
Qed.

(* ---- subs ---- *)
Definition lift_sub (subf : str -> option (flatex D)) : str -> option (deepex D) :=
  fun x => match subf x with
           | Some f => match to_deepex C tb true f with Ok d => Some d | _ => None end
           | None => None
           end.

Theorem flat_subs (fa : flatex D) (subf : str -> option (flatex D)) :
  flat_ok fa -> (forall x f, subf x = Some f -> flat_ok f) ->
  exists da r fx,
    to_deepex C tb true fa = Ok da /\ subs C (lift_sub subf) da = Ok r /\ from_deepex C tb true r = Ok fx /\
    flat_ok fx /\ fvars fx = sort_strs (snames (lift_sub subf) da) /\
    forall vals', length vals' = length (fvars fx) ->
    exists v w, eval_flat C fx vals' = Ok v /\
                eval_flat C fa (map (senv C (lift_sub subf) (env_of C (fvars fx) vals')) (fvars fa)) = Ok w /\ R v w.
Proof.
  intros Ha Hsub.
  destruct (f2d fa Ha) as (da & Eda & Hoka & Hva & Heqa).
  assert (Hcl : forall x r, lift_sub subf x = Some r -> dclosed (from_table tb) (dvars r) r).
  { intros x r Hx. unfold lift_sub in Hx. destruct (subf x) as [f|] eqn:Ef; [|discriminate].
    destruct (f2d f (Hsub x f Ef)) as (d & Ed & Hokd & _). rewrite Ed in Hx. inversion Hx; subst. exact (dindexed_closed (from_table tb) _ _ (proj1 Hokd)). }
  destruct (subs_ok C R R_refl R_sym R_trans R_bin R_un (from_table tb) (flagged_op_assoc C tb R table_assoc) (lift_sub subf) Hcl da
              (dclosed_struct _ _ _ (dindexed_closed _ _ _ (proj1 Hoka)))) as (r & Er & Hcr & _).
  destruct (subs_eval_original C R R_refl R_sym R_trans R_bin R_un (from_table tb) (flagged_op_assoc C tb R table_assoc) (lift_sub subf) Hcl da (proj1 Hoka))
    as (r' & Er' & Hvr & Hevr).
  rewrite Er in Er'. inversion Er'; subst r'.
  assert (Hokr : deep_ok r).
  { apply (sorted_deep_ok (sort_strs (snames (lift_sub subf) da)) r); [apply dconsistent_indexed; exact Hcr|apply sort_strs_spec]. }
  destruct (d2f r Hokr) as (fx & Efx & Hokx & Hvx & Heqx).
  exists da, r, fx. repeat (split; [assumption|]). split; [congruence|].
  intros vals' Hl.
  destruct (Hevr vals' ltac:(congruence)) as (v & w & Ev & Ew & HR).
  destruct (Heqx vals' ltac:(congruence)) as (vx & w2 & Evx & Ew2 & HRx).
  rewrite Hva in Ew. rewrite <- Hvx in Ew.
  destruct (Heqa (map (senv C (lift_sub subf) (env_of C (fvars fx) vals')) (fvars fa)) ltac:(apply map_length)) as (va' & wa & Eva' & Ewa & HRa).
  exists vx, va'. split; [exact Evx|]. split; [exact Eva'|].
  assert (w2 = v) by congruence. assert (wa = w) by congruence. subst.
  eapply R_trans; [exact HRx|]. eapply R_trans; [exact HR|exact HRa].
Qed.
End FlatCalc.
