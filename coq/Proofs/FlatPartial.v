(* Proofs/FlatPartial.v — differentiation of FLAT expressions (Differentiate::partial on FlatEx: to_deepex, partial,
   compile, from_deepex) evaluates to the mathematical derivative: the deep form of a flat expression is an expression
   the deep theorem applies to, and both conversions keep variables and values (C03). *)
From Coq Require Import Reals Lra List NArith ZArith Lia Bool Sorted.
From Coquelicot Require Import Coquelicot.
Import ListNotations.
From Exmex.Model Require Import Base EvalBinary Lexer Flat Deep Convert Calc Partial.
From Exmex.Gen Require Import Tables.
From Exmex.Spec Require Import RefSem.
From Exmex.Proofs Require Import Vars DeepVars DeepSem DeepCompile DeepSubs C11Main DeepOps NormalForm Hereditary ParseBuilt ConvertCompose
  RuleAnalysis RealCarrier CalcSem Dual PartialCorrect PartialMain.
Open Scope nat_scope.

Local Notation tb := float_table.
Local Notation tfl := (tflagged tb).

Section Structure.
Context {D : Type}.
Variable C : carrier D.
Variable tbl : optable.

(* the replay loop keeps whatever the combining operation keeps *)
Lemma arun_m_forall (P : dnode D -> Prop) (dummy : dnode D) (opm : nat -> dnode D -> dnode D -> res (dnode D)) :
  P dummy -> (forall idx a b c, P a -> P b -> opm idx a b = Ok c -> P c) ->
  forall sigma nums ign nums' ign', Forall P nums -> arun_m dummy opm sigma (nums, ign) = Ok (nums', ign') -> Forall P nums'.
Proof.
  intros Pd Pop. induction sigma as [|i s IH]; intros nums ign nums' ign' HF H; [cbn in H; inversion H; subst; exact HF|].
  cbn [arun_m] in H. destruct (astep_m dummy opm i (nums, ign)) as [[n1 g1]| |] eqn:Es; cbn [bind] in H; try discriminate.
  refine (IH n1 g1 nums' ign' _ H). unfold astep_m in Es.
  destruct (i <? get_previous ign i); [discriminate|].
  destruct (nth_error nums (i - get_previous ign i)) as [a|] eqn:Ea; [|discriminate].
  destruct (nth_error nums (i + get_next_from ign (S i) (length ign))) as [b|] eqn:Eb; [|discriminate].
  destruct (opm i a b) as [v| |] eqn:Ev; cbn [bind] in Es; try discriminate. inversion Es; subst.
  rewrite Forall_forall in *. intros x Hx. apply In_set_nth in Hx. destruct Hx as [->|Hx].
  - exact (Pop i a b v (HF a (nth_error_In _ _ Ea)) (HF b (nth_error_In _ _ Eb)) Ev).
  - apply In_set_nth in Hx. destruct Hx as [->|Hx]; [exact Pd|exact (HF x Hx)].
Qed.

(* reset_vars gives every level the same list; the names of all variable nodes lie in it *)
Lemma reset_vars_struct (all : list str) : StronglySorted str_lt all -> forall e e1 : deepex D,
  reset_vars e all = Ok e1 -> vl all e1 /\ hc e1 /\ dvars e1 = all.
Proof.
  intros HS. induction e as [nodes bops uop vars IH] using deep_ind. intros e1 H.
  rewrite reset_vars_unfold in H. destruct (mapM (rv_node all) nodes) as [nodes'| |] eqn:Em; cbn [bind] in H; try discriminate.
  inversion H; subst e1. clear H.
  assert (Hn : Forall (nvl all) nodes' /\ Forall (nhc all) nodes').
  { revert nodes' Em. induction nodes as [|n tl IHn]; intros nodes' Em.
    - cbn in Em. inversion Em; subst. split; constructor.
    - cbn [mapM] in Em. destruct (rv_node all n) as [n'| |] eqn:En; cbn [bind] in Em; try discriminate.
      destruct (mapM (rv_node all) tl) as [tl'| |] eqn:Et; cbn [bind] in Em; try discriminate. inversion Em; subst nodes'.
      destruct (IHn (fun e' H => IH e' (or_intror H)) tl' eq_refl) as [F1 F2].
      assert (Hn' : nvl all n' /\ nhc all n').
      { destruct n as [c|d|i x]; cbn [rv_node] in En.
        - destruct (reset_vars c all) as [c'| |] eqn:Ec; cbn [bind] in En; try discriminate. inversion En; subst n'.
          destruct (IH c (or_introl eq_refl) c' Ec) as (G1 & G2 & G3). cbn [nvl nhc]. rewrite G3. split; [exact G1|split; [apply incl_refl|exact G2]].
        - inversion En; subst. split; exact I.
        - destruct (index_of x all 0) eqn:Ei; inversion En; subst. split; [exact I|]. cbn [nhc]. exact (index_of_In _ _ _ _ Ei). }
      split; constructor; tauto. }
  destruct Hn as [F1 F2]. split; [rewrite vl_unfold; split; [split; [exact HS|apply incl_refl]|exact F1]|]. split; [rewrite hc_unfold; exact F2|reflexivity].
Qed.

Theorem to_deepex_struct (fb : bool) (fx : flatex D) (e : deepex D) : StronglySorted str_lt (fvars fx) ->
  to_deepex C tbl fb fx = Ok e -> nf e /\ hc e /\ vl (fvars fx) e.
Proof.
  intros HS H. unfold to_deepex in H.
  destruct (mapM _ (fops fx)) as [orig_prios| |]; cbn [bind] in H; try discriminate.
  destruct (mapM (convert_node C (fvars fx)) (fnodes fx)) as [deep_nodes| |] eqn:Ec; cbn [bind] in H; try discriminate.
  match type of H with bind (arun_m ?d ?o ?s ?st) _ = _ => destruct (arun_m d o s st) as [[nodes' ign']| |] eqn:Er; cbn [bind] in H; try discriminate end.
  destruct nodes' as [|final rest]; [discriminate|].
  destruct (new_deepex C [final] [] []) as [e0| |] eqn:E0; cbn [bind] in H; try discriminate.
  destruct (reset_vars e0 (fvars fx)) as [e1| |] eqn:E1; cbn [bind] in H; try discriminate.
  (* every node is a literal, a variable or a sub-expression in normal form *)
  assert (Hconv : Forall (@nnfw D) deep_nodes).
  { clear -Ec. revert deep_nodes Ec. induction (fnodes fx) as [|n ns IH]; intros dn Ec; [cbn in Ec; inversion Ec; constructor|].
    cbn [mapM] in Ec. destruct (convert_node C (fvars fx) n) as [d| |] eqn:En; cbn [bind] in Ec; try discriminate.
    destruct (mapM (convert_node C (fvars fx)) ns) as [ds| |] eqn:Es; cbn [bind] in Ec; try discriminate. inversion Ec; subst dn.
    constructor; [|exact (IH ds eq_refl)]. unfold convert_node in En.
    match type of En with bind ?m _ = _ => destruct m as [base| |] eqn:Eb; cbn [bind] in En; try discriminate end.
    assert (Hb : nnfw base).
    { destruct (nkind n) as [dd|ii]; [inversion Eb; exact I|]. destruct (nth_error (fvars fx) ii); inversion Eb; exact I. }
    destruct (nun n) as [|u us]; [inversion En; subst; exact Hb|].
    destruct (new_deepex C [base] [] (u :: us)) as [ee| |] eqn:Ee; cbn [bind] in En; try discriminate. inversion En; subst d.
    cbn [nnfw]. exact (new_deepex_nf C [base] [] (u :: us) ee ltac:(constructor; [exact Hb|constructor]) Ee). }
  assert (Hall : Forall (@nnfw D) (final :: rest)).
  { refine (arun_m_forall (@nnfw D) (dummy_node) _ _ _ _ _ _ _ _ Hconv Er); [exact I|].
    intros idx a b c Pa Pb Hop. destruct (nth_error (fops fx) idx) as [o|]; [|discriminate]. destruct (nth_error orig_prios idx) as [p|]; [|discriminate].
    match type of Hop with bind ?m _ = _ => destruct m as [ee| |] eqn:Ee; cbn [bind] in Hop; try discriminate end. inversion Hop; subst c.
    cbn [nnfw]. refine (new_deepex_nf C [a; b] _ _ ee _ Ee). constructor; [exact Pa|constructor; [exact Pb|constructor]]. }
  inversion Hall as [|? ? Hf _]; subst.
  pose proof (new_deepex_nf C [final] [] [] e0 ltac:(constructor; [exact Hf|constructor]) E0) as N0.
  pose proof (proj1 (reset_vars_nf (fvars fx) e0 e1 N0 E1)) as N1.
  destruct (reset_vars_struct (fvars fx) HS e0 e1 E1) as (V1 & H1 & _).
  split; [exact (dcompile_nf C e1 e (nf_nfc e1 N1) H)|]. split; [exact (dcompile_hc C e1 e H1 H)|exact (dcompile_vl C (fvars fx) e1 e V1 H)].
Qed.
End Structure.

Lemma float_table_wf : wf_table tb = true.
Proof. vm_compute. reflexivity. Qed.

(* the deep form of a flat expression the conversions accept, with a sorted variable list, is built *)
Theorem to_deepex_built (fx : flatex R) : flat_ok Rc tb fx -> StronglySorted str_lt (fvars fx) ->
  exists e, to_deepex Rc tb true fx = Ok e /\ built e /\ dvars e = fvars fx /\
    forall vals, length vals = length (fvars fx) -> exists v, eval_flat Rc fx vals = Ok v /\ eval_deep Rc e vals = Ok v.
Proof.
  intros Hok HS.
  destruct (flat_to_deep Rc tb eq (@eq_refl R) (@eq_sym R) (@eq_trans R) eqR_bin eqR_un Rc_assoc fx Hok) as (e & He & [Hi ND] & Hv & Hval).
  exists e. split; [exact He|]. destruct (to_deepex_struct Rc tb true fx e HS He) as (Hn & Hh & Hl).
  split; [|split; [exact Hv|]].
  - split; [|split; assumption]. rewrite Hv. destruct Hi as [Hw _]. rewrite Hv in Hw. exact (dwf_okl (fvars fx) _ _ _ e Hw Hl).
  - intros vals Hlen. destruct (Hval vals Hlen) as (v & w & E1 & E2 & Evw). subst w. exists v. split; assumption.
Qed.

(* FlatEx::partial for one variable *)
Definition flat_partial (fx : flatex R) (idxs : list nat) : res (flatex R) :=
  do e <- to_deepex Rc tb true fx; do r <- partial_iter_deep Rc RDC tb e idxs MError; from_deepex Rc tb true r.

Theorem flat_partial_is_derivative (fx fx' : flatex R) (i : nat) (vals : list R) :
  flat_ok Rc tb fx -> StronglySorted str_lt (fvars fx) -> flat_partial fx [i] = Ok fx' -> length vals = length (fvars fx) ->
  (forall e, to_deepex Rc tb true fx = Ok e -> in_domain e i (env_of Rc (fvars fx) vals)) ->
  fvars fx' = fvars fx /\
  exists v, eval_flat Rc fx' vals = Ok v /\
    is_derive (fun t => match eval_flat Rc fx (set_nth i t vals) with Ok y => y | _ => 0%R end) (nth i vals 0%R) v.
Proof.
  intros Hok HS H Hl Hdom. unfold flat_partial in H.
  destruct (to_deepex_built fx Hok HS) as (e & He & Hb & Hv & Hval). rewrite He in H. cbn [bind] in H.
  destruct (partial_iter_deep Rc RDC tb e [i] MError) as [r| |] eqn:Er; cbn [bind] in H; try discriminate.
  destruct (partial_iter_chain e r i [] Hb Er) as (Vr & Hbr & Hch).
  cbn [deriv_chain] in Hch. destruct Hch as (d & Hbd & Vd & Hder & Hrd).
  assert (Hi : i < length (dvars e)).
  { unfold partial_iter_deep in Er. destruct (forallb (fun j => Nat.ltb j (length (dvars e))) [i]) eqn:Ef; cbn [negb] in Er; [|discriminate].
    cbn [forallb] in Ef. apply andb_prop in Ef. apply Nat.ltb_lt. exact (proj1 Ef). }
  (* back to the flat form *)
  assert (Hdok : deep_ok tb r).
  { split; [exact (built_indexed r Hbr)|]. apply sorted_lt_NoDup. destruct Hbr as (Hc & _). destruct r as [n b u v]. unfold Ix in Hc. rewrite dwf_unfold in Hc. exact (proj1 (proj1 (proj2 Hc))). }
  destruct (deep_to_flat Rc tb float_table_wf eq (@eq_refl R) (@eq_sym R) (@eq_trans R) eqR_bin eqR_un Rc_assoc r Hdok) as (fx2 & Hf2 & _ & Hv2 & Hval2).
  rewrite H in Hf2. inversion Hf2; subst fx2.
  split; [congruence|].
  destruct (Hval2 vals ltac:(rewrite Vr, Hv; exact Hl)) as (v & w & E1 & E2 & Evw). subst v.
  exists w. split; [exact E1|].
  pose proof (eval_is_den (dvars r) vals r (built_indexed r Hbr) ltac:(rewrite Vr, Hv; exact Hl)) as E3. rewrite E2 in E3. inversion E3 as [E4]. clear E3.
  specialize (Hder (env_of Rc (dvars e) vals)). rewrite Hv in Hder. specialize (Hder (Hdom e He)).
  try rewrite E4. rewrite Vr, Hv, (Hrd (env_of Rc (fvars fx) vals)).
  assert (ND : NoDup (fvars fx)) by (apply sorted_lt_NoDup; exact HS).
  assert (Ex : env_of Rc (fvars fx) vals (nth i (fvars fx) []) = nth i vals 0%R).
  { unfold env_of. rewrite Hv in Hi. destruct (index_of_complete (nth i (fvars fx) []) (fvars fx) 0 (nth_In _ [] Hi)) as [j Hj]. rewrite Hj.
    pose proof (var_link_of (fvars fx) i ND Hi j _ Hj) as E. rewrite str_eqb_refl in E. apply Nat.eqb_eq in E. subst j. reflexivity. }
  rewrite Ex in Hder. refine (is_derive_ext _ _ _ _ _ Hder). intros t.
  destruct (Hval (set_nth i t vals) ltac:(rewrite set_nth_length'; exact Hl)) as (y & Ey1 & Ey2). rewrite Ey1.
  rewrite (eval_is_den (fvars fx) (set_nth i t vals) e ltac:(rewrite <- Hv; exact (built_indexed e Hb)) ltac:(rewrite set_nth_length'; exact Hl)) in Ey2.
  inversion Ey2 as [Ey3]. apply (ddenN_ext_all Rc). intros x. rewrite Hv in Hi. apply line_env; assumption.
Qed.
