(* C10 — operator application on expressions is a homomorphism.  Property theorems only. *)
From Coq Require Import List Arith.
Import ListNotations.
From Exmex.Model Require Import Base EvalBinary Lexer Flat Deep Convert Calc.
From Exmex.Spec Require Import RefSem.
From Exmex.Proofs Require Import DeepSem DeepSubs C11Main DeepOps.
Open Scope nat_scope.

(* 1. Binary application by name on DEEP expressions is a homomorphism: for every table, every binary operator name and
   every two index-consistent operands (what the parser, subs and these operations themselves produce): it succeeds,
   the result is index-consistent with the SORTED UNION of the operands' variable lists (so it can be an operand
   again: any finite sequence of applications), and at every assignment of that list its value is, modulo R, the
   operator applied to the operands' values at the corresponding values of THEIR variables. *)
Theorem C10_deep_binary_application_is_a_homomorphism :
  forall (D : Type) (C : carrier D) (tb : optable) (R : D -> D -> Prop),
  (forall a, R a a) -> (forall a b, R a b -> R b a) -> (forall a b c, R a b -> R b c -> R a c) ->
  (forall k a a' b b', R a a' -> R b b' -> R (binf C k a b) (binf C k a' b')) ->
  (forall k a a', R a a' -> R (unf C k a) (unf C k a')) ->
  (forall k, comm_of tb k = true -> forall a b c, R (binf C k (binf C k a b) c) (binf C k a (binf C k b c))) ->
  forall (a b : deepex D) (name : str) (k : nat),
  find_op name tb 0 = Some k -> is_bin tb k = true ->
  dindexed (tflagged tb) (dvars a) a -> dindexed (tflagged tb) (dvars b) b ->
  let all := sort_strs (dvars a ++ dvars b) in
  exists e, operate_bin C tb a b name = Ok e /\ dindexed (tflagged tb) all e /\
    forall vals', length vals' = length all ->
    exists v va vb, eval_deep C e vals' = Ok v /\
                    eval_deep C a (map (env_of C all vals') (dvars a)) = Ok va /\
                    eval_deep C b (map (env_of C all vals') (dvars b)) = Ok vb /\ R v (binf C k va vb).
Proof. exact @operate_bin_eval. Qed.

(* 2. the same for unary application: same variable list, value = the operator applied to the operand's value *)
Theorem C10_deep_unary_application_is_a_homomorphism :
  forall (D : Type) (C : carrier D) (tb : optable) (R : D -> D -> Prop),
  (forall a, R a a) -> (forall a b, R a b -> R b a) -> (forall a b c, R a b -> R b c -> R a c) ->
  (forall k a a' b b', R a a' -> R b b' -> R (binf C k a b) (binf C k a' b')) ->
  (forall k a a', R a a' -> R (unf C k a) (unf C k a')) ->
  (forall k, comm_of tb k = true -> forall a b c, R (binf C k (binf C k a b) c) (binf C k a (binf C k b c))) ->
  forall (a : deepex D) (name : str) (k : nat),
  find_op name tb 0 = Some k -> has_un tb k = true -> dindexed (tflagged tb) (dvars a) a ->
  exists e, operate_unary C tb a name = Ok e /\ dindexed (tflagged tb) (dvars a) e /\
    forall vals, length vals = length (dvars a) ->
    exists v va, eval_deep C e vals = Ok v /\ eval_deep C a vals = Ok va /\ R v (unf C k va).
Proof. exact @operate_unary_eval. Qed.

(* 3. applying an unknown operator name is an error, for every table, data type and operands; applying a name that
   exists but has no unary function is an error too.
   Outside these theorems (covered by the correspondence: histories of applications against the reference interpreter;
   arithmetic histories against the unsimplified form): the same operations on FLAT expressions (which convert to the
   deep form and back) and the soundness of the neutral-element shortcuts of + - * / pow. *)
Theorem C10_unknown_binary_name_is_error_partial :
  forall (D : Type) (C : carrier D) (tb : optable) (a b : deepex D) (name : str),
  find_op name tb 0 = None -> operate_bin C tb a b name = Err E_UNKNOWNOP.
Proof. intros D C tb a b name H. unfold operate_bin. rewrite H. reflexivity. Qed.
Theorem C10_unknown_unary_name_is_error_partial :
  forall (D : Type) (C : carrier D) (tb : optable) (a : deepex D) (name : str),
  find_op name tb 0 = None -> operate_unary C tb a name = Err E_UNKNOWNOP.
Proof. intros D C tb a name H. unfold operate_unary. rewrite H. reflexivity. Qed.
Theorem C10_not_a_unary_operator_is_error_partial :
  forall (D : Type) (C : carrier D) (tb : optable) (a : deepex D) (name : str) (k : nat),
  find_op name tb 0 = Some k -> has_un tb k = false -> operate_unary C tb a name = Err E_NOUNARY.
Proof. intros D C tb a name k H Hu. unfold operate_unary. rewrite H, Hu. reflexivity. Qed.

Print Assumptions C10_deep_binary_application_is_a_homomorphism.
Print Assumptions C10_deep_unary_application_is_a_homomorphism.
Print Assumptions C10_unknown_binary_name_is_error_partial.
