(* Model/EvalBinary.v — expression/mod.rs: eval_binary with the NumberTracker seen as a vector of
   booleans (bit j set = number j has been merged into its left neighbour).  The machine-word
   trackers of number_tracker.rs are modelled in Model/Tracker.v and proved to implement this one. *)
From Exmex.Model Require Import Base.

Section EvalBinary.
Context {D : Type}.
Variable dflt : D.
Variable opf : nat -> D -> D -> D.      (* binary_ops[idx].apply *)

(* NumberTracker::get_previous: number of consecutive ignored positions idx, idx-1, ... *)
Fixpoint get_previous (ign : list bool) (idx : nat) : nat :=
  match idx with
  | O => if nth 0 ign false then 1 else 0
  | S m => if nth idx ign false then S (get_previous ign m) else 0
  end.
(* NumberTracker::get_next(idx) = get_next_from ign (idx+1) _ : 1 + ignored positions idx+1, idx+2, ... *)
Fixpoint get_next_from (ign : list bool) (pos fuel : nat) : nat :=
  match fuel with O => 1 | S f => if nth pos ign false then S (get_next_from ign (S pos) f) else 1 end.

(* one iteration of the loop of eval_binary; None = a Rust panic (usize underflow or index out of bounds) *)
Definition astep (idx : nat) (st : list D * list bool) : option (list D * list bool) :=
  let '(nums, ign) := st in
  let sl := get_previous ign idx in
  let sr := get_next_from ign (S idx) (length ign) in
  if idx <? sl then None else
  let i1 := idx - sl in let i2 := idx + sr in
  match nth_error nums i1, nth_error nums i2 with
  | Some a, Some b => Some (set_nth i1 (opf idx a b) (set_nth i2 dflt nums), set_nth i2 true ign)
  | _, _ => None
  end.

Fixpoint arun (sigma : list nat) (st : list D * list bool) : option (list D * list bool) :=
  match sigma with [] => Some st | i :: s => match astep i st with Some st' => arun s st' | None => None end end.

Definition eval_binary (nums : list D) (n_ops : nat) (sigma : list nat) : res D :=
  if negb (forallb (fun i => i <? n_ops) sigma) then Panic 136 else
  match arun sigma (nums, repeat false (length nums)) with
  | Some (x :: _, _) => Ok x
  | Some ([], _) => Panic 140
  | None => Panic 132
  end.
End EvalBinary.

(* the same loop with an operator that may fail (used by flatex_to_deepex, which builds expressions) *)
Section EvalBinaryM.
Context {D : Type}.
Variable dflt : D.
Variable opm : nat -> D -> D -> res D.
Definition astep_m (idx : nat) (st : list D * list bool) : res (list D * list bool) :=
  let '(nums, ign) := st in
  let sl := get_previous ign idx in
  let sr := get_next_from ign (S idx) (length ign) in
  if idx <? sl then Panic 239 else
  let i1 := idx - sl in let i2 := idx + sr in
  match nth_error nums i1, nth_error nums i2 with
  | Some a, Some b => do v <- opm idx a b; Ok (set_nth i1 v (set_nth i2 dflt nums), set_nth i2 true ign)
  | _, _ => Panic 243
  end.
Fixpoint arun_m (sigma : list nat) (st : list D * list bool) : res (list D * list bool) :=
  match sigma with [] => Ok st | i :: s => do st' <- astep_m i st; arun_m s st' end.
End EvalBinaryM.
