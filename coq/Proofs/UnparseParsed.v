(* Proofs/UnparseParsed.v — every unary operator recorded in an expression the deep parser builds is a unary operator of
   the table (so what such an expression prints can be parsed back: Proofs/Unparse.v). *)
From Coq Require Import List Arith Lia Bool.
Import ListNotations.
From Exmex.Model Require Import Base EvalBinary Lexer Flat Deep.
From Exmex.Spec Require Import RefSem.
From Exmex.Proofs Require Import Vars DeepSem DeepCompile CompileRefine Unparse.
Open Scope nat_scope.

Section UnparseParsed.
Context {D : Type}.
Variable C : carrier D.
Variable tb : optable.
Local Notation uok := (@uok D tb).
Local Notation nuok := (@nuok D tb).

Lemma lift_uok : forall k (e : deepex D), dsize e <= k -> uok e -> uok (lift_nodes e).
Proof.
  induction k as [|k IH]; intros e Hs Hu; [destruct e; cbn in Hs; lia|].
  destruct e as [nodes bops uop vars]. rewrite uok_unfold in Hu. destruct Hu as [Hu Hn].
  assert (Hnode : forall n, In n nodes -> nuok n -> nuok (lift_node n)).
  { intros n Hin Hnn. destruct n as [c|d|i x]; try exact I.
    destruct c as [ns b1 u1 v1]. destruct ns as [|n1 [|n2 nt]]; try exact Hnn. destruct u1; [|exact Hnn].
    cbn [Unparse.nuok] in Hnn. rewrite uok_unfold in Hnn. destruct Hnn as [_ Hc]. inversion Hc as [|? ? Hn1 _]; subst.
    cbn [lift_node]. destruct n1 as [e_deeper|d|i x]; try exact I. cbn [Unparse.nuok] in Hn1.
    assert (Hsd : dsize e_deeper <= k).
    { pose proof (dsize_in nodes bops uop vars _ Hin) as H2. pose proof (dsize_in [DExpr e_deeper] b1 [] v1 e_deeper (or_introl eq_refl)) as H3. lia. }
    pose proof (IH e_deeper Hsd Hn1) as L1. cbn zeta.
    assert (Hwrap : nuok (DExpr (DE [DExpr (lift_nodes e_deeper)] b1 [] v1))).
    { cbn [Unparse.nuok]. rewrite uok_unfold. split; [reflexivity|]. constructor; [exact L1|constructor]. }
    destruct (dnodes (lift_nodes e_deeper)) as [|m [|? ?]]; destruct (duop (lift_nodes e_deeper)); try exact Hwrap. exact L1. }
  assert (Hmap : uok (DE (map lift_node nodes) bops uop vars)).
  { rewrite uok_unfold. split; [exact Hu|]. apply Forall_forall. intros m Hm. apply in_map_iff in Hm. destruct Hm as (n & <- & Hin).
    rewrite Forall_forall in Hn. exact (Hnode n Hin (Hn n Hin)). }
  rewrite lift_nodes_unfold.
  destruct nodes as [|n [|n' tl]]; try exact Hmap. destruct uop; [|exact Hmap].
  destruct n as [e1|d|i x].
  - inversion Hn as [|? ? H1 _]; subst. exact H1.
  - rewrite uok_unfold. split; assumption.
  - rewrite uok_unfold. split; assumption.
Qed.
Lemma dcompile_loop_nuok : forall sigma i num_inds (nodes : list (dnode D)) bops declined used nodes' used',
  Forall nuok nodes -> dcompile_loop C sigma i num_inds nodes bops declined used = Ok (nodes', used') -> Forall nuok nodes'.
Proof.
  induction sigma as [|b stl IH]; intros i num_inds nodes bops declined used nodes' used' HF H; cbn [dcompile_loop] in H.
  - inversion H; subst. exact HF.
  - destruct (nth_error num_inds i) as [num_idx|]; [|discriminate].
    destruct (nth_error nodes num_idx) as [n1|]; [|discriminate]. destruct (nth_error nodes (S num_idx)) as [n2|]; [|discriminate].
    destruct n1 as [?|a|? ?]; try exact (IH _ _ _ _ _ _ _ _ HF H).
    destruct n2 as [?|b'|? ?]; try exact (IH _ _ _ _ _ _ _ _ HF H).
    destruct (negb _); [|exact (IH _ _ _ _ _ _ _ _ HF H)].
    destruct (nth_error bops b) as [o|]; [|discriminate].
    refine (IH _ _ _ _ _ _ _ _ _ H). rewrite Forall_forall in *. intros x Hx.
    apply In_remove_nth in Hx. apply In_set_nth in Hx. destruct Hx as [->|Hx]; [exact I|exact (HF x Hx)].
Qed.
Theorem dcompile_uok e0 e' : uok e0 -> dcompile C e0 = Ok e' -> uok e'.
Proof.
  intros Hv H. pose proof (lift_uok (dsize e0) e0 (le_n _) Hv) as Hl. unfold dcompile in H.
  destruct (lift_nodes e0) as [nodes bops uop vars]. rewrite uok_unfold in Hl. destruct Hl as [Hok Hn0].
  destruct (dcompile_loop C _ 0 _ nodes bops _ []) as [[nodes' used]| |] eqn:El; cbn [bind] in H; try discriminate.
  pose proof (dcompile_loop_nuok _ _ _ _ _ _ _ _ _ Hn0 El) as Hn.
  destruct nodes' as [|m [|m' mt]].
  - inversion H; subst. rewrite uok_unfold. split; assumption.
  - destruct m as [c|d|i x]; inversion H; subst; rewrite uok_unfold; try (split; assumption). split; [reflexivity|constructor; [exact I|constructor]].
  - destruct m; inversion H; subst; rewrite uok_unfold; split; assumption.
Qed.
Lemma new_deepex_uok nodes bops uop e : forallb (is_un tb) uop = true -> Forall nuok nodes -> new_deepex C nodes bops uop = Ok e -> uok e.
Proof.
  intros Hu Hn H. unfold new_deepex in H.
  assert (H0 : uok (DE nodes bops uop (sort_strs (flat_map node_var_names nodes)))) by (rewrite uok_unfold; split; assumption).
  destruct nodes as [|n nt].
  - destruct bops; [destruct uop|].
    + inversion H; subst. rewrite uok_unfold. split; [reflexivity|constructor].
    + cbn in H. discriminate.
    + destruct (negb _); [discriminate|]. exact (dcompile_uok _ e H0 H).
  - destruct (negb _); [discriminate|]. exact (dcompile_uok _ e H0 H).
Qed.
Lemma more_unaries_un (ts : list (token D)) : forallb (is_un tb) (more_unaries tb ts) = true.
Proof.
  induction ts as [|t tl IH]; [reflexivity|]. destruct t as [d| | |k|x]; try reflexivity. cbn [more_unaries].
  destruct (has_un tb k) eqn:E; [|reflexivity]. cbn [forallb]. rewrite IH. unfold has_un, op_of in E. unfold is_un. rewrite E. reflexivity.
Qed.
Theorem dparse_uok : forall fuel left ts vars rnodes rbops uop e rest,
  forallb (is_un tb) uop = true -> Forall nuok rnodes -> dparse C tb fuel left ts vars rnodes rbops uop = Ok (e, rest) -> uok e.
Proof.
  induction fuel as [|fuel IH]; intros left ts vars rnodes rbops uop e rest Hu Hg H; [discriminate|].
  cbn [dparse] in H.
  assert (Hfin : forall r, (do e0 <- new_deepex C (rev rnodes) (rev rbops) uop; Ok (e0, r)) = Ok (e, rest) -> uok e).
  { intros r Hr. destruct (new_deepex C (rev rnodes) (rev rbops) uop) as [e0| |] eqn:En; cbn [bind] in Hr; try discriminate. inversion Hr; subst.
    apply (new_deepex_uok (rev rnodes) (rev rbops) uop e Hu); [|exact En]. apply Forall_rev. exact Hg. }
  destruct ts as [|t tl]; [exact (Hfin _ H)|].
  destruct t as [d| | |k|x].
  - refine (IH _ _ _ _ _ _ _ _ Hu _ H); constructor; [exact I|exact Hg].
  - destruct (dparse C tb fuel None tl vars [] [] []) as [[e1 rest1]| |] eqn:E1; cbn [bind] in H; try discriminate.
    assert (G1 : uok e1) by (refine (IH _ _ _ _ _ _ _ _ _ _ E1); [reflexivity|constructor]).
    refine (IH _ _ _ _ _ _ _ _ Hu _ H); constructor; [exact G1|exact Hg].
  - exact (Hfin _ H).
  - destruct (is_operator_binary tb k left) as [b| |]; cbn [bind] in H; try discriminate.
    destruct b.
    + destruct (mk_bop tb k) as [o| |]; cbn [bind] in H; try discriminate. exact (IH _ _ _ _ _ _ _ _ Hu Hg H).
    + destruct (has_un tb k) eqn:Ek; cbn [negb] in H; [|discriminate].
      assert (Hus : forallb (is_un tb) (k :: more_unaries tb tl) = true).
      { cbn [forallb]. rewrite more_unaries_un. unfold has_un, op_of in Ek. unfold is_un. rewrite Ek. reflexivity. }
      destruct (skipn (length (k :: more_unaries tb tl) - 1) tl) as [|a tl2]; [discriminate|].
      destruct a as [d| | |k'|x]; try discriminate.
      * refine (IH _ _ _ _ _ _ _ _ Hu _ H); constructor; [exact I|exact Hg].
      * destruct (dparse C tb fuel None tl2 vars [] [] (k :: more_unaries tb tl)) as [[e1 rest1]| |] eqn:E1; cbn [bind] in H; try discriminate.
        assert (G1 : uok e1) by (refine (IH _ _ _ _ _ _ _ _ Hus _ E1); constructor).
        refine (IH _ _ _ _ _ _ _ _ Hu _ H); constructor; [exact G1|exact Hg].
      * destruct (dparse C tb fuel None tl2 vars [] [] (k :: more_unaries tb tl)) as [[e1 rest1]| |] eqn:E1; cbn [bind] in H; try discriminate.
        assert (G1 : uok e1) by (refine (IH _ _ _ _ _ _ _ _ Hus _ E1); constructor).
        refine (IH _ _ _ _ _ _ _ _ Hu _ H); constructor; [exact G1|exact Hg].
      * destruct (var_index vars x) as [i| |] eqn:Ei; cbn [bind] in H; try discriminate.
        destruct (new_deepex C [DVar i x] [] (k :: more_unaries tb tl)) as [e1| |] eqn:E1; cbn [bind] in H; try discriminate.
        assert (G1 : uok e1) by (refine (new_deepex_uok [DVar i x] [] _ e1 Hus _ E1); constructor; [exact I|constructor]).
        refine (IH _ _ _ _ _ _ _ _ Hu _ H); constructor; [exact G1|exact Hg].
  - destruct (var_index vars x) as [i| |] eqn:Ei; cbn [bind] in H; try discriminate.
    refine (IH _ _ _ _ _ _ _ _ Hu _ H); constructor; [exact I|exact Hg].
Qed.
End UnparseParsed.
