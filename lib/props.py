"""Per-property configuration of ./check: which theorems pin the property, which axioms they may use,
which harness modes provide the correspondence cases."""

REAL_AXIOMS = ["ClassicalDedekindReals.sig_forall_dec", "ClassicalDedekindReals.sig_not_dec",
               "FunctionalExtensionality.functional_extensionality_dep", "Classical_Prop.classic"]

PROPS = {
    "C14": {
        "theorems": ["C14_any_schedule", "C14_each_operand_once", "C14_machine_word_trackers_flat", "C14_machine_word_trackers_deep",
                     "C14_slice_tracker_is_the_boolean_vector"],
        "axioms": [],
        "extra_vo": ["Corr/TrackerDriver.vo"],
        "modes": [{"name": "c14", "quick_n": 2, "thorough_n": 10, "shard": 60},
                  {"name": "c14t", "quick_n": 12, "thorough_n": 120, "shard": 30}],
        "rule": "chains v0 o v1 o ... over a 32-operator table with pairwise distinct priorities: all application orders of up to 6 (quick) / 7 (thorough) operators exhaustively, structured (ascending, descending, runs, alternating, inside-out) and random orders at lengths around 32/64/128/192(/257/513); evaluated through FlatEx (single-word tracker <= 64 operands, slice tracker above), DeepEx (always slice tracker), flat->deep (tracker inside flatex_to_deepex) and deep->flat; non-trivial = at least 2 operands; distinct = distinct (program text)",
        "assumptions": ["the word-level model coq/Model/Tracker.v mirrors number_tracker.rs (rotate_right, leading_ones, trailing_ones, the loops over words): tied to the code by the operation histories of mode c14t"],
    },

    "C01": {"theorems": ["C01_eval_is_reference", "C01_token_entry_point", "C01_text_entry_point", "C01_exact_when_flags_are_sound", "C01_free_terms", "C01_any_flat_expression_is_precedence"], "axioms": [],
            "modes": [{"name": "c01", "quick_n": 1500, "thorough_n": 12000, "shard": 120}]},
    "C02": {"theorems": ["C02_folding_is_invisible", "C02_refolding_is_invisible", "C02_parse_vs_parse_wo_compile", "C02_folded_parse_is_reference", "C02_deep_folding_is_invisible", "C02_deep_parse_is_reference"], "modes": [{"name": "c02", "quick_n": 500, "thorough_n": 4000, "shard": 120}]},
    "C03": {"theorems": ["C03_deep_parse_is_reference", "C03_deep_token_entry_point", "C03_deep_text_entry_point", "C03_flat_and_deep_agree", "C03_deep_eval_is_denotation", "C03_flat_to_deep", "C03_deep_to_flat", "C03_any_number_of_round_trips", "C03_every_parsed_flat_expression_converts", "C03_listings_sorted_duplicate_free", "C03_listings_are_the_operators_of_the_expression", "C03_deep_to_flat_keeps_the_listings", "C03_unfolded_parse_lists_the_operators_of_the_text", "C03_folding_only_removes_names_partial"], "modes": [{"name": "c03", "quick_n": 500, "thorough_n": 4000, "shard": 150}]},
    "C04": {"theorems": ["C04_vars_sorted_distinct_complete", "C04_binding_is_position", "C04_every_variable_has_an_index", "C04_arity_flat", "C04_arity_flat_relaxed", "C04_arity_deep", "C04_relaxed_ignores_surplus", "C04_binary_application_lists_the_sorted_union", "C04_substitution_lists_the_sorted_names"], "modes": [{"name": "c04", "quick_n": 250, "thorough_n": 2000, "shard": 25}]},
    "C07": {"theorems": ["C07_unbalanced_rejected", "C07_empty_rejected", "C07_trailing_operator_rejected", "C07_bad_pair_rejected", "C07_operand_count"], "modes": [{"name": "c07", "quick_n": 250, "thorough_n": 2500, "shard": 250}]},
    "C08": {"theorems": ["C08_tokenizer_is_lexer_then_rewrite", "C08_call_form_is_infix_at_any_nesting", "C08_same_tokens_as_infix_text"], "modes": [{"name": "c08", "quick_n": 800, "thorough_n": 6000, "shard": 120}]},
    "C10": {"theorems": ["C10_deep_binary_application_is_a_homomorphism", "C10_deep_unary_application_is_a_homomorphism", "C10_flat_binary_application_is_a_homomorphism", "C10_flat_unary_application_is_a_homomorphism", "C10_unknown_binary_name_is_error_partial", "C10_unknown_unary_name_is_error_partial", "C10_not_a_unary_operator_is_error_partial", "C10_shortcuts_are_sound_over_the_reals", "C10_is_num_is_sound_on_normal_forms"], "axioms": REAL_AXIOMS, "modes": [{"name": "c10", "quick_n": 400, "thorough_n": 3000, "shard": 40}, {"name": "c10s", "quick_n": 400, "thorough_n": 3000, "shard": 40}]},
    "C11": {"theorems": ["C11_substitution_is_simultaneous", "C11_replacement_evaluated_on_its_own_variables", "C11_named_denotation", "C11_parsed_expressions_qualify", "C11_flat_substitution"], "modes": [{"name": "c11", "quick_n": 400, "thorough_n": 3000, "shard": 40}]},
    "C12": {"theorems": ["C12_flat_unparse_is_source_text_partial", "C12_deep_unparse_is_the_text_of_its_tokens", "C12_printed_tokens_parse_back", "C12_printed_tokens_parse_back_to_the_same_expression", "C12_parsed_expressions_record_unary_operators", "C12_flat_from_deep_prints_the_deep_text"], "modes": [{"name": "c12", "quick_n": 400, "thorough_n": 3000, "shard": 60}, {"name": "c12d", "quick_n": 150, "thorough_n": 1500, "shard": 20}]},
    "C13": {"theorems": ["C13_extended_name_is_variable", "C13_sign_unary_iff", "C13_numeric_literal", "C13_brace_is_one_var", "C13_longest_operator_name_wins", "C13_canonical_text_tokenizes", "C13_operator_found_by_its_name"], "modes": [{"name": "c13", "quick_n": 3, "thorough_n": 12, "shard": 120}]},
    "C15": {"theorems": ["C15_consuming_eq_cloning", "C15_arity"], "modes": [{"name": "c15", "quick_n": 150, "thorough_n": 1500, "shard": 60}]},
    "C05": {"theorems": ["C05_partial_is_the_derivative", "C05_partial_evaluates_to_the_derivative", "C05_parsed_expressions_qualify", "C05_consistent_expressions_qualify", "C05_derivatives_qualify", "C05_flat_partial_is_the_derivative", "C05_rule_names_match_code_partial", "C05_no_rule_for_nondifferentiable_partial", "C05_missing_binary_rule_is_error_partial", "C05_unary_rules_are_derivatives_partial", "C05_binary_rules_are_derivatives_partial"], "axioms": REAL_AXIOMS, "modes": [{"name": "c05", "quick_n": 400, "thorough_n": 3000, "shard": 30}]},
    "C09": {"theorems": ["C09_index_checked_first_partial", "C09_order_zero_partial", "C09_derivative_keeps_the_variable_list", "C09_same_values_evaluate_both", "C09_iterated_is_the_sequence_of_single_steps"], "axioms": REAL_AXIOMS, "modes": [{"name": "c09", "quick_n": 200, "thorough_n": 1500, "shard": 20}]},
    "C18": {"theorems": ["C18_condition_and_branch_rules_partial", "C18_rule_semantics_partial"], "modes": [{"name": "c18", "quick_n": 300, "thorough_n": 2500, "shard": 30}]},
    "C06": {"theorems": ["C06_tokenizer_total_partial", "C06_preconditions_total_partial", "C06_flat_parse_never_panics", "C06_parsed_flat_expressions_evaluate", "C06_deep_parse_never_panics"], "nesting": True, "modes": [{"name": "c06", "quick_n": 1500, "thorough_n": 12000, "shard": 150, "profiles": ["dev", "release"]}]},
    "C16": {"extra_vo": ["Corr/ValDriver.vo"], "theorems": ["C16_int_add_sub_mul", "C16_int_div_rem", "C16_int_shifts_and_powers", "C16_int_results_in_range", "C16_promotion", "C16_cross_kind_compare", "C16_error_propagates", "C16_error_propagates_unary", "C16_if_else"], "prim_floats": True, "modes": [{"name": "val", "quick_n": 1, "thorough_n": 1, "shard": 6500}]},
    "C17": {"extra_vo": ["Corr/ValDriver.vo"], "theorems": ["C17_binary_total", "C17_dangerous_points", "C17_neg_abs"], "prim_floats": True, "modes": [{"name": "val", "quick_n": 1, "thorough_n": 1, "shard": 6500, "profiles": ["dev", "release"]}]},
    "C19": {"theorems": ["C19_table_shape"], "prim_floats": True, "level": "other", "modes": [{"name": "c19", "quick_n": 1, "thorough_n": 1, "shard": 600}]},
    "C20": {"theorems": ["C20_history_independence", "C20_parse_deterministic"], "level": "other", "build_failure_is_violation": True, "modes": [{"name": "c20", "quick_n": 3, "thorough_n": 25, "coq": False}]},
}
