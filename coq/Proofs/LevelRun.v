(* Proofs/LevelRun.v — the chain machine run under the schedule of prioritized_indices (any admissible key function):
   it consumes the whole chain and its value is, modulo R, the precedence evaluation of the operator records.
   (The evaluation loops refine this machine; so does the reduction loop of the differentiation.) *)
From Coq Require Import List Arith Lia Bool ZArith.
Import ListNotations.
From Exmex.Model Require Import Base EvalBinary Lexer Flat.
From Exmex.Proofs Require Import ChainMachine SortedRef SortDesc EvalBinaryCorrect Bump BumpInst Pev PevFold FlatPev.
Open Scope nat_scope.

Section LevelRun.
Context {D : Type}.
Variable C : carrier D.
Variable R : D -> D -> Prop.
Hypothesis R_refl : forall a, R a a.
Hypothesis R_sym : forall a b, R a b -> R b a.
Hypothesis R_trans : forall a b c, R a b -> R b c -> R a c.
Hypothesis R_bin : forall k a a' b b', R a a' -> R b b' -> R (binf C k a b) (binf C k a' b').
Hypothesis R_un : forall k a a', R a a' -> R (unf C k a) (unf C k a').
Variable ops : list fop.
Hypothesis flagged_assoc : forall o, In o ops -> fcomm o = true ->
  forall a b c, R (binf C (fidx o) (binf C (fidx o) a b) c) (binf C (fidx o) a (binf C (fidx o) b c)).
Local Notation key0 := (BumpInst.key0 ops).
Variable keyb : nat -> Z.
Hypothesis kb_cases : forall i, keyb i = key0 i \/ keyb i = (key0 i + 5)%Z.
Hypothesis kb_ok : forall i, keyb i = (key0 i + 5)%Z -> forall j, j < i -> (key0 j <= key0 i)%Z ->
  (forall k, j < k < i -> (key0 i < key0 k)%Z) -> (key0 j < key0 i)%Z \/ BumpInst.AP ops j i.
Variable opf : nat -> D -> D -> D.
Hypothesis opf_eq : forall i a b, opf i a b = op_at C ops i a b.

Theorem run_level_is_pv (x : D) (rest : list D) : length rest = length ops ->
  exists v, @run D opf (sort_desc keyb (seq 0 (length ops))) x (chain_from D (EvalBinaryCorrect.vals_of D (dflt C) (x :: rest)) 0 (length ops)) = Some (v, []) /\
            R v (pv C x (combine ops rest)).
Proof.
  intros Hlr.
  destruct (sort_desc_spec keyb (length ops)) as (HS & ND & Hiff).
  eexists. split.
  - apply (run_sorted_is_ref D opf keyb (length ops) x _ 0).
    + unfold chain_from. rewrite map_length, seq_length. lia.
    + apply chain_from_inc.
    + exact HS.
    + intros i. rewrite Hiff, chain_from_ids, in_seq. lia.
  - rewrite (ref_val_ext opf (op_at C ops) keyb keyb) by (intros i _; split; [reflexivity|intros a b; apply opf_eq]).
    set (l := chain_from D (EvalBinaryCorrect.vals_of D (dflt C) (x :: rest)) 0 (length ops)).
    assert (Hcontig : @Bump.contig D 0 l).
    { unfold Bump.contig, l. rewrite chain_from_ids. unfold chain_from. rewrite map_length, seq_length. reflexivity. }
    assert (Hll : length l <= length ops) by (unfold l, chain_from; rewrite map_length, seq_length; lia).
    pose proof (bump_invisible D (op_at C ops) key0 keyb R R_refl R_sym R_trans
                  (BumpInst.R_op_at C R R_refl R_bin R_un ops) (BumpInst.AP ops) (BumpInst.AP_trans ops)
                  (BumpInst.AP_assoc C R ops flagged_assoc) kb_cases (BumpInst.key0_10 ops) kb_ok (length ops) x l 0 Hll Hcontig) as Hbump.
    eapply R_trans; [exact Hbump|].
    set (dummy := {| fprio := 0; fidx := 0; fcomm := false; fun_ := [] |}).
    rewrite (ref_val_ext (op_at C ops) (fun i a b => apply_op C (nth i ops dummy) a b) key0 (fun i => (fprio (nth i ops dummy) * 10)%Z)).
    2:{ intros i Hi. unfold l in Hi. change (map fst (chain_from D _ 0 (length ops))) with (ids (chain_from D (EvalBinaryCorrect.vals_of D (dflt C) (x :: rest)) 0 (length ops))) in Hi.
        rewrite chain_from_ids in Hi. apply in_seq in Hi.
        destruct (nth_error ops i) as [o|] eqn:En; [|apply nth_error_None in En; lia].
        unfold BumpInst.key0, op_at. rewrite En. rewrite (nth_error_nth _ _ dummy En). split; [reflexivity|reflexivity]. }
    rewrite (ref_val_is_pev C (fun i => nth i ops dummy) (length ops) x l 0) by (unfold l; apply chain_from_inc).
    unfold l. rewrite (to_recs_chain_from C ops x rest dummy Hlr).
    unfold pv. rewrite combine_length, Hlr, Nat.min_id. apply R_refl.
Qed.
End LevelRun.
