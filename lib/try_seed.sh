#!/bin/bash
# try_seed.sh <worktree-id> <property>... : applies /tmp/mut/<id>.out/patch.diff to /repo, runs the listed checks, undoes the change
wid=$1; shift
if [ -n "$(git -C /repo status --porcelain)" ]; then echo "repo not clean"; exit 2; fi
git -C /repo apply /tmp/mut/$wid.out/patch.diff || exit 2
for p in "$@"; do
  out=$(cd /verif && ./check $p 2>&1)
  nf=$(echo "$out" | grep -c "no-failing-input-found")
  echo "$wid $p: $(echo "$out" | tail -1) [no-failing-input lines: $nf]"
done
git -C /repo checkout -- .
git -C /repo status --porcelain | head -3
