(* Proofs/ParseConsume.v — what the deep parser consumes, for ANY token list without an operator or an opening
   parenthesis directly in front of a closing one (two of the pair rules): a call returns either at the end of its slice
   or directly behind the first closing parenthesis that is unmatched inside the slice, and the variable list of the
   expression it builds contains exactly the names of the nodes it was given and of the variables it consumed.
   Hence for every accepted token list the top-level call consumes everything and the variable list of the parsed deep
   expression is the list of parsed variables. *)
From Coq Require Import List Arith Lia Bool ZArith Sorted.
Import ListNotations.
From Exmex.Model Require Import Base EvalBinary Lexer Flat Deep.
From Exmex.Proofs Require Import Vars DeepVars DeepSem DeepCompile DeepTotal ParseBuilt.
Open Scope nat_scope.

Section ParseConsume.
Context {D : Type}.
Variable C : carrier D.
Variable tb : optable.

Definition vars_of (ts : list (token D)) : list str := fold_right (fun t acc => match t with TVar x => x :: acc | _ => acc end) [] ts.
Lemma vars_of_app a b : vars_of (a ++ b) = vars_of a ++ vars_of b.
Proof. unfold vars_of. induction a as [|t a IH]; [reflexivity|]. destruct t; simpl; rewrite ?IH; reflexivity. Qed.
Lemma vars_of_ops us : vars_of (map (@TOp D) us) = [].
Proof. induction us; [reflexivity|exact IHus]. Qed.

(* parenthesis balance *)
Definition nodip (ts : list (token D)) : Prop := forall c, (0 <= c)%Z -> exists c', paren_balance ts c = Some c' /\ (c <= c')%Z.
Definition balanced (ts : list (token D)) : Prop := forall c, (0 <= c)%Z -> paren_balance ts c = Some c.
Lemma pb_app : forall (a b : list (token D)) c, paren_balance (a ++ b) c = match paren_balance a c with Some c' => paren_balance b c' | None => None end.
Proof.
  induction a as [|t a IH]; intros b c; [reflexivity|]. destruct t; cbn [app paren_balance]; try apply IH.
  destruct (c - 1 <? 0)%Z; [reflexivity|apply IH].
Qed.
Lemma balanced_nil : balanced []. Proof. intros c _. reflexivity. Qed.
Lemma nodip_nil : nodip []. Proof. intros c Hc. exists c. split; [reflexivity|lia]. Qed.
Lemma balanced_nodip ts : balanced ts -> nodip ts.
Proof. intros H c Hc. exists c. split; [exact (H c Hc)|lia]. Qed.
Definition plain_tok (t : token D) : bool := match t with TOpen | TClose => false | _ => true end.
Lemma nodip_plain t ts : plain_tok t = true -> nodip ts -> nodip (t :: ts).
Proof. intros Ht H c Hc. destruct t; try discriminate; exact (H c Hc). Qed.
Lemma balanced_plain t ts : plain_tok t = true -> balanced ts -> balanced (t :: ts).
Proof. intros Ht H c Hc. destruct t; try discriminate; exact (H c Hc). Qed.
Lemma nodip_ops us ts : nodip ts -> nodip (map TOp us ++ ts).
Proof. intros H. induction us as [|u us IH]; [exact H|]. cbn [map app]. apply nodip_plain; [reflexivity|exact IH]. Qed.
Lemma balanced_ops us ts : balanced ts -> balanced (map TOp us ++ ts).
Proof. intros H. induction us as [|u us IH]; [exact H|]. cbn [map app]. apply balanced_plain; [reflexivity|exact IH]. Qed.
Lemma balanced_app a b : balanced a -> balanced b -> balanced (a ++ b).
Proof. intros Ha Hb c Hc. rewrite pb_app, (Ha c Hc). exact (Hb c Hc). Qed.
Lemma balanced_then_nodip a b : balanced a -> nodip b -> nodip (a ++ b).
Proof. intros Ha Hb c Hc. rewrite pb_app, (Ha c Hc). exact (Hb c Hc). Qed.
Lemma balanced_group pre : balanced pre -> balanced (TOpen :: pre ++ [TClose]).
Proof.
  intros H c Hc. cbn [paren_balance]. rewrite pb_app, (H (c + 1)%Z ltac:(lia)). cbn [paren_balance].
  destruct (Z.ltb_spec (c + 1 - 1) 0); [lia|]. f_equal. lia.
Qed.
Lemma nodip_open ts : nodip ts -> nodip (TOpen :: ts).
Proof. intros H c Hc. cbn [paren_balance]. destruct (H (c + 1)%Z ltac:(lia)) as (c' & E & Hl). exists c'. split; [exact E|lia]. Qed.

(* operator tokens in front of a closing parenthesis violate the pair rule *)
Lemma adj_ops_close k : forall (mu : list nat) (r : list (token D)), adj_ok (TOp k :: map TOp mu ++ TClose :: r) = false.
Proof.
  intros mu. revert k. induction mu as [|u mu IH]; intros k r; [reflexivity|].
  cbn [map app]. change (negb (@bad_pair D (TOp k) (TOp u)) && adj_ok (TOp u :: map TOp mu ++ TClose :: r) = false). rewrite (IH u r). apply andb_false_r.
Qed.
Lemma more_unaries_prefix : forall tl : list (token D), tl = map TOp (more_unaries tb tl) ++ skipn (length (more_unaries tb tl)) tl.
Proof.
  induction tl as [|t tl IH]; [reflexivity|]. destruct t as [d| | |k|x]; try reflexivity. cbn [more_unaries].
  destruct (has_un tb k); [|reflexivity]. cbn [map app length skipn]. f_equal. exact IH.
Qed.
Lemma adj_ok_app_r : forall (a b : list (token D)), adj_ok (a ++ b) = true -> adj_ok b = true.
Proof. exact adj_ok_suffix. Qed.

(* the variable list of what new_deepex returns: the names of its nodes *)
Lemma new_deepex_vars_set nodes bops uop (e : deepex D) : new_deepex C nodes bops uop = Ok e ->
  forall x, In x (dvars e) <-> In x (flat_map node_var_names nodes).
Proof.
  intros H x. unfold new_deepex in H.
  assert (G : forall e0 : deepex D, dcompile C (DE nodes bops uop (sort_strs (flat_map node_var_names nodes))) = Ok e0 ->
              (In x (dvars e0) <-> In x (flat_map node_var_names nodes))).
  { intros e0 H0. rewrite (dcompile_vars C _ _ H0), lift_nodes_vars.
    pose proof (proj2 (proj2 (sort_strs_spec (flat_map node_var_names nodes))) x) as S0.
    destruct nodes as [|n [|n' tl]]; try exact S0; [|destruct n; exact S0].
    destruct uop; [|destruct n; exact S0]. destruct n as [e1|d|i y]; try exact S0.
    cbn [flat_map node_var_names]. rewrite app_nil_r. reflexivity. }
  destruct nodes as [|n nt].
  - destruct bops as [|b bt].
    + destruct uop as [|u ut]; [inversion H; subst; cbn; tauto|]. cbn in H. discriminate.
    + destruct (negb _); [discriminate|exact (G e H)].
  - destruct (negb _); [discriminate|exact (G e H)].
Qed.

Ltac lists := repeat (rewrite <- app_assoc || (progress (cbn [app map]))); reflexivity.

Theorem dparse_consume (vars : list str) : forall fuel left ts rnodes rbops uop e rest,
  adj_ok ts = true -> dparse C tb fuel left ts vars rnodes rbops uop = Ok (e, rest) ->
  exists consumed, ts = consumed ++ rest /\
    (forall x, In x (dvars e) <-> In x (flat_map node_var_names rnodes) \/ In x (vars_of consumed)) /\
    ((rest = [] /\ nodip consumed) \/ (exists pre, consumed = pre ++ [TClose] /\ balanced pre)).
Proof.
  induction fuel as [|fuel IH]; intros left ts rnodes rbops uop e rest Hadj H; [discriminate|].
  cbn [dparse] in H.
  assert (Hfin : forall r, (do e0 <- new_deepex C (rev rnodes) (rev rbops) uop; Ok (e0, r)) = Ok (e, rest) ->
            r = rest /\ forall x, In x (dvars e) <-> In x (flat_map node_var_names rnodes)).
  { intros r Hr. destruct (new_deepex C (rev rnodes) (rev rbops) uop) as [e0| |] eqn:En; cbn [bind] in Hr; try discriminate. inversion Hr; subst.
    split; [reflexivity|]. intros x. rewrite (new_deepex_vars_set _ _ _ _ En x), !in_flat_map.
    split; intros (n & Hn & Hx); exists n; (split; [|exact Hx]); [apply in_rev; exact Hn|apply in_rev in Hn; exact Hn]. }
  (* one more plain token in front of what a recursive call consumed *)
  assert (Hplain : forall t tl n consumed', plain_tok t = true -> tl = consumed' ++ rest ->
            (forall x, In x (dvars e) <-> In x (flat_map node_var_names (n :: rnodes)) \/ In x (vars_of consumed')) ->
            (forall x, In x (node_var_names n) <-> In x (vars_of [t])) ->
            ((rest = [] /\ nodip consumed') \/ (exists pre, consumed' = pre ++ [TClose] /\ balanced pre)) ->
            exists consumed, t :: tl = consumed ++ rest /\
              (forall x, In x (dvars e) <-> In x (flat_map node_var_names rnodes) \/ In x (vars_of consumed)) /\
              ((rest = [] /\ nodip consumed) \/ (exists pre, consumed = pre ++ [TClose] /\ balanced pre))).
  { intros t tl n consumed' Ht Etl Hv Hn Hb. exists (t :: consumed'). split; [rewrite Etl; reflexivity|]. split.
    - intros x. rewrite (Hv x). cbn [flat_map]. rewrite in_app_iff, (Hn x). change (t :: consumed') with ([t] ++ consumed'). rewrite vars_of_app, in_app_iff. tauto.
    - destruct Hb as [[Hr Hnd]|(pre & Ep & Hbal)]; [left; split; [exact Hr|apply nodip_plain; assumption]|].
      right. exists (t :: pre). split; [rewrite Ep; reflexivity|apply balanced_plain; assumption]. }
  destruct ts as [|t tl].
  - destruct (Hfin [] H) as [<- Hv]. exists []. split; [reflexivity|]. split; [intros x; rewrite (Hv x); cbn; tauto|left; split; [reflexivity|apply nodip_nil]].
  - pose proof (adj_ok_tl t tl Hadj) as Hadj'.
    destruct t as [d| | |k|x].
    + (* number *)
      destruct (IH _ _ _ _ _ _ _ Hadj' H) as (c' & Ec & Hv & Hb).
      apply (Hplain (TNum d) tl (DNum d) c' eq_refl Ec Hv); [intros y; cbn; tauto|exact Hb].
    + (* ( *)
      destruct (dparse C tb fuel None tl vars [] [] []) as [[e1 rest1]| |] eqn:E1; cbn [bind] in H; try discriminate.
      destruct (IH _ _ _ _ _ _ _ Hadj' E1) as (c1 & Ec1 & Hv1 & Hb1).
      assert (Hadj1 : adj_ok rest1 = true) by (rewrite Ec1 in Hadj'; exact (adj_ok_app_r c1 rest1 Hadj')).
      destruct (IH _ _ _ _ _ _ _ Hadj1 H) as (c2 & Ec2 & Hv2 & Hb2).
      exists (TOpen :: c1 ++ c2). split; [rewrite Ec1, Ec2; lists|]. split.
      * intros y. rewrite (Hv2 y). cbn [flat_map node_var_names]. rewrite in_app_iff, (Hv1 y). cbn [flat_map].
        change (TOpen :: c1 ++ c2) with ([TOpen] ++ c1 ++ c2). rewrite !vars_of_app, !in_app_iff. cbn [vars_of fold_right In]. tauto.
      * destruct Hb1 as [[Hr1 Hn1]|(pre1 & Ep1 & Hbal1)].
        -- subst rest1. cbn [dparse] in H. destruct fuel as [|f]; [discriminate|]. 
           destruct Hb2 as [[Hr2 Hn2]|(pre2 & Ep2 & _)].
           ++ left. split; [exact Hr2|]. destruct c2; [|discriminate]. rewrite app_nil_r. apply nodip_open. exact Hn1.
           ++ exfalso. destruct c2 as [|? ?]; [destruct pre2; discriminate|discriminate].
        -- destruct Hb2 as [[Hr2 Hn2]|(pre2 & Ep2 & Hbal2)].
           ++ left. split; [exact Hr2|]. rewrite Ep1. change (TOpen :: (pre1 ++ [TClose]) ++ c2) with ((TOpen :: pre1 ++ [TClose]) ++ c2).
              apply balanced_then_nodip; [apply balanced_group; exact Hbal1|exact Hn2].
           ++ right. exists ((TOpen :: pre1 ++ [TClose]) ++ pre2). split; [rewrite Ep1, Ep2; lists|].
              apply balanced_app; [apply balanced_group; exact Hbal1|exact Hbal2].
    + (* ) *)
      destruct (Hfin tl H) as [<- Hv]. exists [TClose]. split; [reflexivity|]. split; [intros y; rewrite (Hv y); cbn; tauto|].
      right. exists []. split; [reflexivity|apply balanced_nil].
    + (* operator *)
      destruct (is_operator_binary tb k left) as [b| |]; cbn [bind] in H; try discriminate.
      destruct b.
      * destruct (mk_bop tb k) as [o| |]; cbn [bind] in H; try discriminate.
        destruct (IH _ _ _ _ _ _ _ Hadj' H) as (c' & Ec & Hv & Hb).
        exists (TOp k :: c'). split; [rewrite Ec; reflexivity|]. split; [intros y; rewrite (Hv y); change (TOp k :: c') with ([TOp k] ++ c'); rewrite vars_of_app, in_app_iff; cbn; tauto|].
        destruct Hb as [[Hr Hnd]|(pre & Ep & Hbal)]; [left; split; [exact Hr|apply nodip_plain; [reflexivity|exact Hnd]]|].
        right. exists (TOp k :: pre). split; [rewrite Ep; reflexivity|apply balanced_plain; [reflexivity|exact Hbal]].
      * destruct (negb (has_un tb k)); [discriminate|].
        set (mu := more_unaries tb tl) in *. cbv zeta in H. replace (length (k :: mu) - 1) with (length mu) in H by (cbn [length]; lia).
        pose proof (more_unaries_prefix tl) as Etl. fold mu in Etl.
        destruct (skipn (length mu) tl) as [|a tl2] eqn:Ea; [discriminate|].
        assert (Hadj2 : adj_ok tl2 = true).
        { rewrite Etl in Hadj'. apply adj_ok_app_r in Hadj'. exact (adj_ok_tl a tl2 Hadj'). }
        (* what the unary operators and the token behind them contribute *)
        assert (Hwrap : forall n consumed' (mid : list (token D)), tl2 = consumed' ++ rest -> vars_of mid = [] \/ True ->
                  (forall y, In y (dvars e) <-> In y (flat_map node_var_names (n :: rnodes)) \/ In y (vars_of consumed')) -> True) by (intros; exact I).
        clear Hwrap.
        destruct a as [d| | |k'|x]; try discriminate.
        -- (* number behind the unary operators *)
           destruct (IH _ _ _ _ _ _ _ Hadj2 H) as (c' & Ec & Hv & Hb).
           exists (TOp k :: map TOp mu ++ TNum d :: c'). split; [rewrite Etl, Ec; lists|]. split.
           ++ intros y. rewrite (Hv y). cbn [flat_map node_var_names app].
              change (TOp k :: map TOp mu ++ TNum d :: c') with ((TOp k :: map TOp mu) ++ TNum d :: c'). rewrite vars_of_app, in_app_iff.
              change (TOp k :: map TOp mu) with (map (@TOp D) (k :: mu)). rewrite vars_of_ops. cbn [In vars_of fold_right]. tauto.
           ++ destruct Hb as [[Hr Hnd]|(pre & Ep & Hbal)].
              ** left. split; [exact Hr|]. change (TOp k :: map TOp mu ++ TNum d :: c') with (map (@TOp D) (k :: mu) ++ TNum d :: c'). apply nodip_ops. apply nodip_plain; [reflexivity|exact Hnd].
              ** right. exists (map (@TOp D) (k :: mu) ++ TNum d :: pre). split; [rewrite Ep; lists|].
                 apply balanced_ops. apply balanced_plain; [reflexivity|exact Hbal].
        -- (* parenthesis group behind the unary operators *)
           destruct (dparse C tb fuel None tl2 vars [] [] (k :: mu)) as [[e1 rest1]| |] eqn:E1; cbn [bind] in H; try discriminate.
           destruct (IH _ _ _ _ _ _ _ Hadj2 E1) as (c1 & Ec1 & Hv1 & Hb1).
           assert (Hadj1 : adj_ok rest1 = true) by (rewrite Ec1 in Hadj2; exact (adj_ok_app_r c1 rest1 Hadj2)).
           destruct (IH _ _ _ _ _ _ _ Hadj1 H) as (c2 & Ec2 & Hv2 & Hb2).
           exists (map (@TOp D) (k :: mu) ++ TOpen :: c1 ++ c2). split; [rewrite Etl, Ec1, Ec2; lists|]. split.
           ++ intros y. rewrite (Hv2 y). cbn [flat_map node_var_names]. rewrite in_app_iff, (Hv1 y). cbn [flat_map].
              rewrite vars_of_app, vars_of_ops. change (TOpen :: c1 ++ c2) with ([TOpen] ++ c1 ++ c2). rewrite !vars_of_app, !in_app_iff. cbn [vars_of fold_right In app]. tauto.
           ++ destruct Hb1 as [[Hr1 Hn1]|(pre1 & Ep1 & Hbal1)].
              ** subst rest1. destruct Hb2 as [[Hr2 Hn2]|(pre2 & Ep2 & _)].
                 --- left. split; [exact Hr2|]. destruct c2; [|discriminate]. rewrite app_nil_r. apply nodip_ops. apply nodip_open. exact Hn1.
                 --- exfalso. destruct c2 as [|? ?]; [destruct pre2; discriminate|discriminate].
              ** destruct Hb2 as [[Hr2 Hn2]|(pre2 & Ep2 & Hbal2)].
                 --- left. split; [exact Hr2|]. apply nodip_ops. rewrite Ep1. change (TOpen :: (pre1 ++ [TClose]) ++ c2) with ((TOpen :: pre1 ++ [TClose]) ++ c2).
                     apply balanced_then_nodip; [apply balanced_group; exact Hbal1|exact Hn2].
                 --- right. exists (map (@TOp D) (k :: mu) ++ (TOpen :: pre1 ++ [TClose]) ++ pre2). split; [rewrite Ep1, Ep2; lists|].
                     apply balanced_ops. apply balanced_app; [apply balanced_group; exact Hbal1|exact Hbal2].
        -- (* a closing parenthesis behind an operator: excluded by the pair rule *)
           exfalso. rewrite Etl in Hadj. rewrite adj_ops_close in Hadj. discriminate.
        -- (* variable behind the unary operators *)
           destruct (var_index vars x) as [i| |] eqn:Ei; cbn [bind] in H; try discriminate.
           destruct (new_deepex C [DVar i x] [] (k :: mu)) as [e1| |] eqn:E1; cbn [bind] in H; try discriminate.
           destruct (IH _ _ _ _ _ _ _ Hadj2 H) as (c' & Ec & Hv & Hb).
           exists (map (@TOp D) (k :: mu) ++ TVar x :: c'). split; [rewrite Etl, Ec; lists|]. split.
           ++ intros y. rewrite (Hv y). cbn [flat_map node_var_names]. rewrite in_app_iff, (new_deepex_vars_set _ _ _ _ E1 y).
              rewrite vars_of_app, vars_of_ops. cbn [flat_map node_var_names app vars_of fold_right In]. tauto.
           ++ destruct Hb as [[Hr Hnd]|(pre & Ep & Hbal)].
              ** left. split; [exact Hr|]. apply nodip_ops. apply nodip_plain; [reflexivity|exact Hnd].
              ** right. exists (map (@TOp D) (k :: mu) ++ TVar x :: pre). split; [rewrite Ep; lists|].
                 apply balanced_ops. apply balanced_plain; [reflexivity|exact Hbal].
    + (* variable *)
      destruct (var_index vars x) as [i| |] eqn:Ei; cbn [bind] in H; try discriminate.
      destruct (IH _ _ _ _ _ _ _ Hadj' H) as (c' & Ec & Hv & Hb).
      apply (Hplain (TVar x) tl (DVar i x) c' eq_refl Ec Hv); [intros y; cbn; tauto|exact Hb].
Qed.
End ParseConsume.
