(* Proofs/FlVals.v -- the values of the structural flat image (FlStruct.fl_atom etc.) are the value-level image (FlSem.pv_atom etc.);
   shape and priority bounds of fl. *)
From Coq Require Import List Arith Lia Bool ZArith.
Import ListNotations.
From Exmex.Model Require Import Base EvalBinary Lexer Flat.
From Exmex.Spec Require Import RefSem.
From Exmex.Proofs Require Import Pev FlStruct FlSem.
Open Scope nat_scope.

Section FlVals.
Context {D : Type}.
Variable C : carrier D.
Variable tb : optable.
Variable vars : list str.
Variable vals : list D.
Hypothesis Hwf_tb : wf_table tb = true.

(* value of a flat node under an assignment (node_val without the bounds check) *)
Definition nval (n : fnode D) : D :=
  apply_un C (nun n) (match nkind n with FNum d => d | FVar i => nth i vals (dflt C) end).
Definition vals_of (no : list (fnode D) * list fop) : D * list (fop * D) :=
  match fst no with
  | n0 :: nt => (nval n0, combine (snd no) (map nval nt))
  | [] => (dflt C, [])
  end.
Definition shape (no : list (fnode D) * list fop) : Prop := length (fst no) = S (length (snd no)).

Lemma rmin_rm_pos : forall (ops : list fop) (ys : list D) pos best bestk, length ops <= length ys ->
  rmin ops pos best bestk = rm_pos (combine ops ys) pos best bestk.
Proof.
  induction ops as [|o ops IH]; intros ys pos best bestk Hl; [reflexivity|].
  destruct ys as [|y ys]; [cbn in Hl; lia|]. cbn [rmin combine rm_pos]. cbn in Hl.
  destruct (fprio o <=? bestk)%Z; apply IH; lia.
Qed.
Lemma rmin_idx_root_idx (ops : list fop) (ys : list D) : length ops <= length ys -> rmin_idx ops = root_idx (combine ops ys).
Proof.
  destruct ops as [|o ops]; [reflexivity|]. destruct ys as [|y ys]; [cbn; lia|]. cbn [rmin_idx combine root_idx length]. intros H.
  apply rmin_rm_pos. lia.
Qed.
Lemma combine_update_nth {A B} (f : A -> A) : forall (l : list A) (ys : list B) n,
  combine (update_nth n f l) ys = update_nth n (fun p => (f (fst p), snd p)) (combine l ys).
Proof.
  induction l as [|a l IH]; intros ys n; [reflexivity|]. destruct ys as [|y ys]; [destruct n; reflexivity|].
  destruct n; cbn; [reflexivity|]. rewrite IH. reflexivity.
Qed.
Lemma combine_app {A B} : forall (l1 l2 : list A) (m1 m2 : list B), length l1 = length m1 ->
  combine (l1 ++ l2) (m1 ++ m2) = combine l1 m1 ++ combine l2 m2.
Proof.
  induction l1 as [|a l1 IH]; intros l2 m1 m2 H; destruct m1 as [|b m1]; cbn in H; try discriminate; [reflexivity|].
  cbn. rewrite IH by lia. reflexivity.
Qed.

Lemma vals_of_attach us no : shape no ->
  vals_of (attach us no) = attach_p C us (vals_of no) /\ shape (attach us no).
Proof.
  destruct no as [nodes ops]. unfold shape, attach, vals_of, attach_p. cbn [fst snd]. intros Hs.
  destruct ops as [|o ops'] eqn:Eo.
  - destruct nodes as [|n [|n' nt]]; cbn in Hs; try lia. cbn [fst snd map combine]. split; [|reflexivity].
    unfold nval. cbn [nun nkind]. rewrite (apply_un_app C). reflexivity.
  - rewrite <- Eo in *. destruct nodes as [|n0 nt]; [cbn in Hs; lia|]. cbn [fst snd].
    assert (Hl : length ops = length (map nval nt)) by (rewrite map_length; cbn in Hs; lia).
    destruct (combine ops (map nval nt)) as [|p l] eqn:Ec.
    { exfalso. subst ops. destruct nt; [cbn in Hs; lia|]. discriminate. }
    rewrite <- Ec. split; [|cbn [fst snd length]; rewrite update_nth_length; exact Hs].
    cbn [fst snd]. f_equal. rewrite combine_update_nth. rewrite (rmin_idx_root_idx ops (map nval nt)) by lia. reflexivity.
Qed.

Theorem fl_vals : forall n,
  (forall a d, asize a <= n -> vals_of (fl_atom tb vars a d) = pv_atom C tb vars vals a d /\ shape (fl_atom tb vars a d)) /\
  (forall l d, rsize l <= n ->
     combine (snd (fl_rest tb vars l d)) (map nval (fst (fl_rest tb vars l d))) = pv_rest C tb vars vals l d /\
     length (fst (fl_rest tb vars l d)) = length (snd (fl_rest tb vars l d))).
Proof.
  induction n as [|n [IHa IHr]].
  - split; [intros a d H; pose proof (asize_pos a); lia|].
    intros l d H. destruct l as [|[o b] tl]; [split; reflexivity|]. cbn in H. pose proof (asize_pos b). lia.
  - assert (Hatom : forall a d, asize a <= S n -> vals_of (fl_atom tb vars a d) = pv_atom C tb vars vals a d /\ shape (fl_atom tb vars a d)).
    { intros a d Hs. destruct a as [us k|us a0 rest].
      - destruct k as [v|x]; split; reflexivity.
      - rewrite asize_group in Hs. rewrite fl_atom_group, pv_atom_group.
        destruct (IHa a0 (d + 1)%Z ltac:(lia)) as [Hv0 Hs0]. destruct (IHr rest (d + 1)%Z ltac:(lia)) as [Hvr Hlr].
        assert (Hc : vals_of (fl_chain tb vars (a0, rest) (d + 1)) = pv_chain C tb vars vals (a0, rest) (d + 1) /\ shape (fl_chain tb vars (a0, rest) (d + 1))).
        { unfold fl_chain, pv_chain. cbn [fst snd]. destruct (fl_atom tb vars a0 (d + 1)) as [n0 o0]. destruct (fl_rest tb vars rest (d + 1)) as [nr or].
          unfold shape in *. cbn [fst snd] in *. destruct n0 as [|h nt]; [cbn in Hs0; lia|].
          unfold vals_of in Hv0. cbn [fst snd] in Hv0. rewrite <- Hv0. unfold vals_of. cbn [fst snd app].
          split; [|cbn [length] in *; rewrite !app_length; lia].
          f_equal. rewrite map_app, combine_app by (rewrite map_length; cbn in Hs0; lia). rewrite Hvr. reflexivity. }
        destruct Hc as [Hcv Hcs]. destruct (vals_of_attach us _ Hcs) as [Hav Has]. rewrite Hav, Hcv. split; [reflexivity|exact Has]. }
    split; [exact Hatom|].
    intros l d Hs. destruct l as [|[o b] tl]; [split; reflexivity|]. cbn [rsize] in Hs. cbn [fl_rest pv_rest].
    pose proof (asize_pos b).
    destruct (Hatom b d ltac:(lia)) as [Hvb Hsb]. destruct (IHr tl d ltac:(lia)) as [Hvt Hlt].
    destruct (fl_atom tb vars b d) as [nb ob]. destruct (fl_rest tb vars tl d) as [nt ot]. cbn [fst snd] in *.
    unfold shape in Hsb. cbn [fst snd] in Hsb. destruct nb as [|hb nbt]; [cbn in Hsb; lia|].
    unfold vals_of in Hvb. cbn [fst snd] in Hvb. rewrite <- Hvb. cbn [app map combine].
    split; [|cbn [length] in *; rewrite !app_length; lia].
    f_equal. rewrite map_app, combine_app by (rewrite map_length; cbn in Hsb; lia). rewrite Hvt. reflexivity.
Qed.
End FlVals.
