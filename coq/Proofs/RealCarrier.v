(* Proofs/RealCarrier.v — the real numbers as a data type of the model: the operators of the default table (regenerated
   from the implementation on every run) interpreted BY NAME as the real functions they stand for.  `^` is the integer
   power when the exponent is a natural number and exp(y ln x) otherwise (f64::powf on its continuous domain). *)
From Coq Require Import Reals Lra List NArith ZArith Lia Bool.
From Coquelicot Require Import Coquelicot.
Import ListNotations.
From Exmex.Model Require Import Base EvalBinary Lexer Flat Deep Convert Calc Partial.
From Exmex.Gen Require Import Tables.
From Exmex.Spec Require Import RefSem.
From Exmex.Proofs Require Import RuleAnalysis.

Open Scope R_scope.
(* ---- the power function ---- *)
Definition is_nat (b : R) : option nat :=
  let n := Z.to_nat (Int_part b) in if Req_EM_T b (INR n) then Some n else None.
Lemma is_nat_INR n : is_nat (INR n) = Some n.
Proof.
  unfold is_nat. rewrite Int_part_INR, Nat2Z.id. destruct (Req_EM_T (INR n) (INR n)) as [_|H]; [reflexivity|exfalso; apply H; reflexivity].
Qed.
Lemma is_nat_some b n : is_nat b = Some n -> b = INR n.
Proof. unfold is_nat. destruct (Req_EM_T b _) as [E|_]; [|discriminate]. intros H. inversion H; subst. exact E. Qed.
Definition powR (a b : R) : R := match is_nat b with Some n => a ^ n | None => Rpower a b end.
Lemma powR_INR a n : powR a (INR n) = a ^ n.
Proof. unfold powR. rewrite is_nat_INR. reflexivity. Qed.
Lemma powR_pos a b : 0 < a -> powR a b = Rpower a b.
Proof.
  intros Ha. unfold powR. destruct (is_nat b) as [n|] eqn:E; [|reflexivity].
  rewrite (is_nat_some b n E). symmetry. apply Rpower_pow. exact Ha.
Qed.
Lemma powR_0 a : powR a 0 = 1.
Proof. change 0 with (INR 0). rewrite powR_INR. reflexivity. Qed.
Lemma powR_1 a : powR a 1 = a.
Proof. change 1 with (INR 1). rewrite powR_INR. simpl. ring. Qed.
Lemma powR_2 a : powR a 2 = a * a.
Proof. replace 2 with (INR 2) by (simpl; lra). rewrite powR_INR. simpl. ring. Qed.

(* ---- the carrier ---- *)
Definition bfun (c : bcode) : R -> R -> R :=
  match c with
  | BcPow => powR | BcMul => Rmult | BcDiv => Rdiv | BcAdd => Rplus | BcSub => Rminus | BcOther => fun _ _ => 0
  end.
Definition Rc : carrier R :=
  {| dflt := 0; lit := fun _ => None; cst := fun _ => 0; binf := fun k => bfun (bcode_of k); unf := fun k => rfun (ucode_of k);
     show := fun _ => [] |}.
Definition reqb (a b : R) : bool := if Req_EM_T a b then true else false.
Lemma reqb_eq a b : reqb a b = true -> a = b.
Proof. unfold reqb. destruct (Req_EM_T a b); [trivial|discriminate]. Qed.
Definition RDC : dcarrier R := {| dc_zero := 0; dc_one := 1; dc_two := 2; dc_ten := 10; dc_eqb := reqb |}.

Close Scope R_scope.
Open Scope nat_scope.
(* ---- facts of the default table, each checked over the whole (finite) table ---- *)
Local Notation tb := float_table.
Lemma table_forall (P : nat -> bool) :
  forallb P (seq 0 (length tb)) = true -> (forall k, length tb <= k -> P k = true) -> forall k, P k = true.
Proof.
  intros H1 H2 k. destruct (Nat.lt_ge_cases k (length tb)) as [Hlt|Hge]; [|exact (H2 k Hge)].
  rewrite forallb_forall in H1. apply H1. apply in_seq. lia.
Qed.
Lemma name_overflow k : length tb <= k -> name_of k = [].
Proof. intros H. unfold name_of. rewrite nth_overflow by exact H. reflexivity. Qed.
Lemma repr_overflow k : length tb <= k -> repr_of tb k = [].
Proof. intros H. unfold repr_of, op_of. rewrite nth_overflow by exact H. reflexivity. Qed.

Lemma comm_cases k : comm_of tb k = true -> k = 1 \/ k = 3.
Proof.
  intros H.
  pose proof (table_forall (fun j => implb (comm_of tb j) (Nat.eqb j 1 || Nat.eqb j 3))) as T.
  specialize (T ltac:(vm_compute; reflexivity)).
  assert (T2 : forall j, length tb <= j -> implb (comm_of tb j) (Nat.eqb j 1 || Nat.eqb j 3) = true).
  { intros j Hj. unfold comm_of. rewrite nth_overflow by exact Hj. reflexivity. }
  specialize (T T2 k). cbv beta in T. rewrite H in T. cbn [implb] in T. apply orb_prop in T. destruct T as [T|T]; apply Nat.eqb_eq in T; auto.
Qed.
Lemma Rc_assoc k : comm_of tb k = true -> forall a b c : R, binf Rc k (binf Rc k a b) c = binf Rc k a (binf Rc k b c).
Proof.
  intros H a b c. destruct (comm_cases k H) as [->| ->]; cbn [binf Rc].
  - change (bcode_of 1) with BcMul. cbn [bfun]. ring.
  - change (bcode_of 3) with BcAdd. cbn [bfun]. ring.
Qed.

(* the names the calculator operations look up *)
Lemma find_plus : find_op s_plus tb 0 = Some 3. Proof. vm_compute. reflexivity. Qed.
Lemma find_minus : find_op s_minus tb 0 = Some 4. Proof. vm_compute. reflexivity. Qed.
Lemma find_mul : find_op s_mul tb 0 = Some 1. Proof. vm_compute. reflexivity. Qed.
Lemma find_div : find_op s_div tb 0 = Some 2. Proof. vm_compute. reflexivity. Qed.
Lemma find_pow : find_op s_pow tb 0 = Some 0. Proof. vm_compute. reflexivity. Qed.

(* rule table and operator semantics agree on every name of the table *)
Definition ucode_rule (r : urule) : ucode :=
  match r with
  | UOne => CPos | UNegOne => CNeg | USqrt => CSqrt | ULn => CLn | ULog10 => CLog10 | ULog2 => CLog2 | UExp => CExp
  | USin => CSin | UCos => CCos | UTan => CTan | UAsin => CAsin | UAcos => CAcos | UAtan => CAtan
  | USinh => CSinh | UCosh => CCosh | UTanh => CTanh | UAsinh => CAsinh | UAcosh => CAcosh | UAtanh => CAtanh
  end.
Definition bcode_rule (r : brule) : bcode :=
  match r with BPow => BcPow | BAdd => BcAdd | BSub => BcSub | BMul => BcMul | BDiv => BcDiv | _ => BcOther end.
Scheme Equality for ucode.
Scheme Equality for bcode.
Lemma urule_code k b r : find_rule (repr_of tb k) = Some (b, Some r) -> ucode_of k = ucode_rule r.
Proof.
  intros H.
  pose proof (table_forall (fun j => match find_rule (repr_of tb j) with Some (_, Some r) => ucode_beq (ucode_of j) (ucode_rule r) | _ => true end)) as T.
  specialize (T ltac:(vm_compute; reflexivity)).
  assert (T2 : forall j, length tb <= j -> match find_rule (repr_of tb j) with Some (_, Some r) => ucode_beq (ucode_of j) (ucode_rule r) | _ => true end = true).
  { intros j Hj. rewrite (repr_overflow j Hj). reflexivity. }
  specialize (T T2 k). cbv beta in T. rewrite H in T. apply internal_ucode_dec_bl in T. exact T.
Qed.
Lemma brule_code k r u : find_rule (repr_of tb k) = Some (Some r, u) -> bcode_of k = bcode_rule r /\ bcode_rule r <> BcOther.
Proof.
  intros H.
  pose proof (table_forall (fun j => match find_rule (repr_of tb j) with Some (Some r, _) => bcode_beq (bcode_of j) (bcode_rule r) && negb (bcode_beq (bcode_rule r) BcOther) | _ => true end)) as T.
  specialize (T ltac:(vm_compute; reflexivity)).
  assert (T2 : forall j, length tb <= j -> match find_rule (repr_of tb j) with Some (Some r, _) => bcode_beq (bcode_of j) (bcode_rule r) && negb (bcode_beq (bcode_rule r) BcOther) | _ => true end = true).
  { intros j Hj. rewrite (repr_overflow j Hj). reflexivity. }
  specialize (T T2 k). cbv beta in T. rewrite H in T. apply andb_prop in T. destruct T as [T1 T3]. apply internal_bcode_dec_bl in T1. split; [exact T1|].
  intros E. rewrite E in T3. discriminate.
Qed.
(* the name a binary rule is filed under is the name its calculator operation looks up *)
Lemma brule_name k r u : find_rule (repr_of tb k) = Some (Some r, u) ->
  match r with BPow => k = 0 | BAdd => k = 3 | BSub => k = 4 | BMul => k = 1 | BDiv => k = 2 | _ => False end.
Proof.
  intros H.
  pose proof (table_forall (fun j => match find_rule (repr_of tb j) with
                                     | Some (Some r, _) => match r with BPow => Nat.eqb j 0 | BAdd => Nat.eqb j 3 | BSub => Nat.eqb j 4 | BMul => Nat.eqb j 1 | BDiv => Nat.eqb j 2 | _ => false end
                                     | _ => true end)) as T.
  specialize (T ltac:(vm_compute; reflexivity)).
  assert (T2 : forall j, length tb <= j -> match find_rule (repr_of tb j) with
                                     | Some (Some r, _) => match r with BPow => Nat.eqb j 0 | BAdd => Nat.eqb j 3 | BSub => Nat.eqb j 4 | BMul => Nat.eqb j 1 | BDiv => Nat.eqb j 2 | _ => false end
                                     | _ => true end = true).
  { intros j Hj. rewrite (repr_overflow j Hj). reflexivity. }
  specialize (T T2 k). cbv beta in T. rewrite H in T. destruct r; try discriminate; apply Nat.eqb_eq in T; exact T.
Qed.
(* the unary operators the rules apply by name *)
Lemma find_un_names :
  find_op n_ln tb 0 = Some 30 /\ find_op n_cos tb 0 = Some 11 /\ find_op n_sin tb 0 = Some 10 /\ find_op n_sqrt tb 0 = Some 28 /\
  find_op n_cosh tb 0 = Some 17 /\ find_op n_sinh tb 0 = Some 16 /\ find_op n_tanh tb 0 = Some 18.
Proof. vm_compute. repeat split; reflexivity. Qed.
