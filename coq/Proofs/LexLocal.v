(* Proofs/LexLocal.v — the tokenizer is decided locally.  A text is cut into pieces (a number, a parenthesis, a braced
   variable, an operator name, the name of a constant, a BARE variable name) with any number of spaces behind each, also
   none.  If every piece is readable in front of the text that actually follows it -- the literal matcher, the operator
   search and the variable pattern take exactly that piece there -- the tokenizer returns the tokens of the pieces.
   No terminator is asked for: `2*x`, `a-sin(b)`, `{x}+1.5` are covered, as is the text unparse prints (no spaces).
   LexFlex (terminators) and LexSpaced (one space) are sufficient conditions for the local ones. *)
From Coq Require Import List Arith Lia Bool ZArith NArith.
Import ListNotations.
From Exmex.Model Require Import Base Lexer.
From Exmex.Proofs Require Import Vars CommaRewrite LongestMatch LexerFacts LexSpaced LexFlex.
Open Scope nat_scope.

Section LexLocal.
Context {D : Type}.
Variable C : carrier D.
Variable tb : optable.
Variable is_literal : str -> option nat.
Local Notation ttext := (ttext C tb).
Local Notation lex := (lex C tb is_literal).

Inductive piece : Type :=
| PT (t : token D)      (* the token in its canonical spelling: Debug text, braces, operator name *)
| PConst (k : nat)      (* the name of operator k, which is a constant *)
| PBare (x : str).      (* a variable name without braces *)

Definition ptok (p : piece) : token D :=
  match p with PT t => t | PConst k => TNum (cst C k) | PBare x => TVar x end.
Definition ptext (p : piece) : str :=
  match p with PT t => ttext t | PConst k => repr (op_of tb k) | PBare x => x end.

Definition starts_plain (s : str) : Prop := exists c tl, s = c :: tl /\ special c = false.

(* the piece is what the tokenizer takes in front of `rest` *)
Definition readable (p : piece) (rest : str) : Prop :=
  match p with
  | PT TOpen | PT TClose => True
  | PT (TVar x) => forallb (fun c => negb (N.eqb c RBRACE)) x = true
  | PT (TNum d) =>
      starts_plain (show C d) /\ is_literal (show C d ++ rest) = Some (length (show C d)) /\ lit C (show C d) = Some d
  | PT (TOp k) =>
      starts_plain (repr (op_of tb k)) /\ is_literal (repr (op_of tb k) ++ rest) = None /\
      find_ops tb (repr (op_of tb k) ++ rest) = Some k /\ oconst (op_of tb k) = false
  | PConst k =>
      starts_plain (repr (op_of tb k)) /\ is_literal (repr (op_of tb k) ++ rest) = None /\
      find_ops tb (repr (op_of tb k) ++ rest) = Some k /\ oconst (op_of tb k) = true
  | PBare x =>
      starts_plain x /\ is_literal (x ++ rest) = None /\ find_ops tb (x ++ rest) = None /\
      match_var_name (x ++ rest) = Some x
  end.

Fixpoint ptexts (items : list (piece * nat)) : str :=
  match items with [] => [] | (p, n) :: tl => ptext p ++ spaces n ++ ptexts tl end.
Fixpoint all_readable (items : list (piece * nat)) (s' : str) : Prop :=
  match items with
  | [] => True
  | (p, n) :: tl => readable p (spaces n ++ ptexts tl ++ s') /\ all_readable tl s'
  end.
Definition pcost (items : list (piece * nat)) : nat := fold_right (fun p acc => S (snd p) + acc) 0 items.

Lemma lex_spaces' : forall n fuel s, lex (n + fuel) (spaces n ++ s) = lex fuel s.
Proof. exact (lex_spaces C tb is_literal). Qed.

Lemma lex_local (s' : str) : forall (items : list (piece * nat)) fuel,
  all_readable items s' ->
  lex (pcost items + fuel) (ptexts items ++ s') =
    (let '(evs, fin) := lex fuel s' in (map event_of_token (map ptok (map fst items)) ++ evs, fin)).
Proof.
  induction items as [|[p n] items IH]; intros fuel HR; [cbn [pcost fold_right ptexts map app Nat.add]; destruct (lex fuel s'); reflexivity|].
  cbn [all_readable] in HR. destruct HR as [Hp HR].
  assert (Hrest : lex (n + (pcost items + fuel)) (spaces n ++ (ptexts items ++ s')) =
                  (let '(evs, fin) := lex fuel s' in (map event_of_token (map ptok (map fst items)) ++ evs, fin))).
  { rewrite lex_spaces'. apply IH. exact HR. }
  cbn [pcost fold_right snd ptexts]. fold (pcost items). rewrite <- !app_assoc.
  replace (S n + pcost items + fuel) with (S (n + (pcost items + fuel))) by lia.
  destruct (lex fuel s') as [evs fin] eqn:El.
  destruct p as [[d| | |k|x]|k|x]; cbn [ptext ptok LexSpaced.ttext readable map fst event_of_token] in *.
  - destruct Hp as ((c & tl & Es & Hc) & Hl & Hlit). destruct (special_false c Hc) as (H1 & H2 & H3 & H4 & H5).
    rewrite Es. cbn [app]. rewrite lex_cons, H1, H2, H3, H4, H5.
    change (c :: tl ++ spaces n ++ ptexts items ++ s') with ((c :: tl) ++ spaces n ++ ptexts items ++ s'). rewrite <- Es, Hl, firstn_app_len, Hlit.
    destruct (length (show C d)) as [|m] eqn:En; [rewrite Es in En; discriminate|]. rewrite <- En, skipn_app_len, Hrest. reflexivity.
  - cbn [app]. rewrite lex_cons. change (N.eqb LPAR SPACE) with false. change (N.eqb LPAR LPAR) with true. cbn match. rewrite Hrest. reflexivity.
  - cbn [app]. rewrite lex_cons. change (N.eqb RPAR SPACE) with false. change (N.eqb RPAR LPAR) with false. change (N.eqb RPAR RPAR) with true. cbn match. rewrite Hrest. reflexivity.
  - destruct Hp as ((c & tl & Es & Hc) & Hl & Hf & Hconst). destruct (special_false c Hc) as (H1 & H2 & H3 & H4 & H5).
    rewrite Es. cbn [app]. rewrite lex_cons, H1, H2, H3, H4, H5.
    change (c :: tl ++ spaces n ++ ptexts items ++ s') with ((c :: tl) ++ spaces n ++ ptexts items ++ s'). rewrite <- Es, Hl, Hf, Hconst.
    destruct (length (repr (op_of tb k))) as [|m] eqn:En; [rewrite Es in En; discriminate|]. rewrite <- En, skipn_app_len, Hrest. reflexivity.
  - cbn [app]. rewrite lex_cons.
    change (N.eqb LBRACE SPACE) with false. change (N.eqb LBRACE LPAR) with false. change (N.eqb LBRACE RPAR) with false.
    change (N.eqb LBRACE COMMA) with false. change (N.eqb LBRACE LBRACE) with true. cbn match.
    rewrite <- app_assoc. cbn [app]. rewrite (take_until_brace x _ Hp).
    replace (skipn (S (length x)) (x ++ RBRACE :: spaces n ++ ptexts items ++ s')) with (spaces n ++ ptexts items ++ s').
    2:{ clear. induction x as [|c x IHx]; [reflexivity|exact IHx]. }
    rewrite Hrest. reflexivity.
  - destruct Hp as ((c & tl & Es & Hc) & Hl & Hf & Hconst). destruct (special_false c Hc) as (H1 & H2 & H3 & H4 & H5).
    rewrite Es. cbn [app]. rewrite lex_cons, H1, H2, H3, H4, H5.
    change (c :: tl ++ spaces n ++ ptexts items ++ s') with ((c :: tl) ++ spaces n ++ ptexts items ++ s'). rewrite <- Es, Hl, Hf, Hconst.
    destruct (length (repr (op_of tb k))) as [|m] eqn:En; [rewrite Es in En; discriminate|]. rewrite <- En, skipn_app_len, Hrest. reflexivity.
  - destruct Hp as ((c & tl & Es & Hc) & Hl & Hf & Hv). destruct (special_false c Hc) as (H1 & H2 & H3 & H4 & H5).
    rewrite Es. cbn [app]. rewrite lex_cons, H1, H2, H3, H4, H5.
    change (c :: tl ++ spaces n ++ ptexts items ++ s') with ((c :: tl) ++ spaces n ++ ptexts items ++ s'). rewrite <- Es, Hl, Hf, Hv.
    rewrite skipn_app_len, Hrest. reflexivity.
Qed.

Lemma ptexts_len (items : list (piece * nat)) s' : all_readable items s' -> pcost items <= length (ptexts items).
Proof.
  induction items as [|[p n] items IH]; intros HR; [cbn; lia|]. cbn [all_readable] in HR. destruct HR as [Hp HR].
  cbn [pcost fold_right snd ptexts]. fold (pcost items). rewrite !app_length. unfold spaces. rewrite repeat_length. specialize (IH HR).
  assert (1 <= length (ptext p)); [|lia].
  destruct p as [[d| | |k|x]|k|x]; cbn [ptext LexSpaced.ttext readable length] in *; try lia.
  - destruct Hp as ((c & tl & Es & _) & _). rewrite Es. cbn. lia.
  - destruct Hp as ((c & tl & Es & _) & _). rewrite Es. cbn. lia.
  - destruct Hp as ((c & tl & Es & _) & _). rewrite Es. cbn. lia.
  - destruct Hp as ((c & tl & Es & _) & _). rewrite Es. cbn. lia.
Qed.

(* the local conditions decide the whole text *)
Theorem tokenize_local (items : list (piece * nat)) : all_readable items [] ->
  tokenize C tb is_literal (ptexts items) = Ok (map ptok (map fst items)).
Proof.
  intros HR. rewrite (tokenize_factors C tb is_literal).
  pose proof (ptexts_len items [] HR) as Hlen.
  pose proof (lex_local [] items (S (length (ptexts items)) - pcost items) HR) as H. rewrite app_nil_r in H.
  replace (pcost items + (S (length (ptexts items)) - pcost items)) with (S (length (ptexts items))) in H by lia.
  rewrite H. destruct (S (length (ptexts items)) - pcost items) as [|f] eqn:Ef; [lia|]. cbn [CommaRewrite.lex]. rewrite app_nil_r. apply apply_plain_all.
Qed.

(* a character at which no token starts, behind locally readable pieces: an error, never a panic *)
Theorem tokenize_local_unknown_char (items : list (piece * nat)) (s : str) :
  all_readable items s -> unknown_start tb is_literal s ->
  tokenize C tb is_literal (ptexts items ++ s) = Err E_TOKENIZE.
Proof.
  intros HR Hs. rewrite (tokenize_factors C tb is_literal).
  destruct s as [|c tl]; [destruct Hs|]. destruct Hs as (Hc & Hlit & Hf & Hv). destruct (special_false c Hc) as (H1 & H2 & H3 & H4 & H5).
  pose proof (ptexts_len items _ HR) as Hlen.
  pose proof (lex_local (c :: tl) items (S (length (ptexts items ++ c :: tl)) - pcost items) HR) as H.
  replace (pcost items + (S (length (ptexts items ++ c :: tl)) - pcost items)) with (S (length (ptexts items ++ c :: tl))) in H by (rewrite app_length; lia).
  rewrite H. destruct (S (length (ptexts items ++ c :: tl)) - pcost items) as [|f] eqn:Ef; [rewrite app_length in Ef; cbn [length] in Ef; lia|].
  rewrite lex_cons, H1, H2, H3, H4, H5, Hlit, Hf, Hv. rewrite app_nil_r.
  destruct (apply_plain (map ptok (map fst items)) [] (Some E_TOKENIZE) [] 0%Z) as [d' Hp]. rewrite app_nil_r in Hp. rewrite Hp. reflexivity.
Qed.

(* ---------- sufficient conditions ---------- *)

(* a bare name: an exact variable name in front of a character that cannot continue a name (or the end), that the literal
   matcher does not take and at which no operator is found *)
Definition name_end (rest : str) : Prop := match rest with [] => True | c :: _ => is_ident_char c = false end.

Lemma take_while_all (f : N -> bool) (x rest : str) : forallb f x = true ->
  match rest with [] => True | c :: _ => f c = false end -> take_while f (x ++ rest) = x.
Proof.
  induction x as [|c x IH]; intros Hx Hr.
  - destruct rest as [|c r]; [reflexivity|]. cbn [app take_while]. rewrite Hr. reflexivity.
  - cbn [forallb] in Hx. apply andb_prop in Hx. destruct Hx as [H1 H2]. cbn [app take_while]. rewrite H1, (IH H2 Hr). reflexivity.
Qed.

Lemma bare_name_matched (x rest : str) : is_exact_var_name x = true -> name_end rest -> match_var_name (x ++ rest) = Some x.
Proof.
  destruct x as [|c x]; [discriminate|]. cbn [is_exact_var_name]. intros H Hr. apply andb_prop in H. destruct H as [H1 H2].
  cbn [app match_var_name]. rewrite H1. rewrite (take_while_all is_ident_char x rest H2 Hr). reflexivity.
Qed.

Theorem bare_variable_readable (x rest : str) :
  is_exact_var_name x = true -> name_end rest ->
  is_literal (x ++ rest) = None -> find_ops tb (x ++ rest) = None ->
  readable (PBare x) rest.
Proof.
  intros Hx Hr Hl Hf. cbn [readable]. split; [|split; [exact Hl|split; [exact Hf|exact (bare_name_matched x rest Hx Hr)]]].
  destruct x as [|c x]; [discriminate|]. exists c, x. split; [reflexivity|].
  cbn [is_exact_var_name] in Hx. apply andb_prop in Hx. destruct Hx as [H1 _].
  unfold special. destruct (N.eqb_spec c SPACE) as [->|_]; [discriminate H1|]. destruct (N.eqb_spec c LPAR) as [->|_]; [discriminate H1|].
  destruct (N.eqb_spec c RPAR) as [->|_]; [discriminate H1|]. destruct (N.eqb_spec c COMMA) as [->|_]; [discriminate H1|].
  destruct (N.eqb_spec c LBRACE) as [->|_]; [discriminate H1|]. reflexivity.
Qed.

(* the free-spacing rendering of LexFlex is locally readable *)
Lemma flexable_readable (t : token D) (rest : str) : flexable C tb is_literal t -> (needs_term t = true -> tstart rest) -> readable (PT t) rest.
Proof.
  destruct t as [d| | |k|x]; cbn [flexable readable needs_term]; intros H Hr; try exact I; try exact H.
  - destruct H as (Hs & Hl & Hlit). split; [exact Hs|split; [exact (Hl rest (Hr eq_refl))|exact Hlit]].
  - destruct H as (Hs & Hl & Hf & Hc). split; [exact Hs|split; [exact (Hl rest (Hr eq_refl))|split; [exact (Hf rest (Hr eq_refl))|exact Hc]]].
Qed.

End LexLocal.

(* ---------- operators in front of anything: the longest matching name ---------- *)
Section OpLocal.
Context {D : Type}.
Variable C : carrier D.
Variable tb : optable.
Variable is_literal : str -> option nat.

(* in a table with distinct names an operator name is readable wherever it matches (a binary-capable operator always does;
   a unary one or a constant in front of a character that does not continue it to a variable name), the literal matcher does
   not take the text and no operator with a longer name matches there *)
Theorem operator_readable (k : nat) (rest : str) :
  (forall i j, i < length tb -> j < length tb -> repr (op_of tb i) = repr (op_of tb j) -> i = j) ->
  k < length tb -> starts_plain (repr (op_of tb k)) -> oconst (op_of tb k) = false ->
  is_literal (repr (op_of tb k) ++ rest) = None ->
  op_matches tb (repr (op_of tb k) ++ rest) k = true ->
  (forall k', k' < length tb -> op_matches tb (repr (op_of tb k) ++ rest) k' = true ->
              length (repr (op_of tb k')) <= length (repr (op_of tb k))) ->
  readable C tb is_literal (PT (TOp k)) rest.
Proof.
  intros Hd Hk Hs Hc Hl Hm Hlong. cbn [readable]. split; [exact Hs|split; [exact Hl|split; [|exact Hc]]].
  exact (find_ops_unique_longest tb _ k Hd Hk Hm Hlong).
Qed.
End OpLocal.

(* ---------- call notation: pieces and commas ---------- *)
Section CallLocal.
Context {D : Type}.
Variable C : carrier D.
Variable tb : optable.
Variable is_literal : str -> option nat.
Local Notation lex := (lex C tb is_literal).

(* one piece in front of anything *)
Lemma lex_piece (p : piece (D:=D)) (n fuel : nat) (rest : str) :
  readable C tb is_literal p (spaces n ++ rest) ->
  lex (S n + fuel) (ptext C tb p ++ spaces n ++ rest) =
    (let '(evs, fin) := lex fuel rest in (event_of_token (ptok C p) :: evs, fin)).
Proof.
  intros H. pose proof (lex_local C tb is_literal rest [(p, n)] fuel) as L.
  cbn [all_readable ptexts pcost fold_right snd map fst app] in L. rewrite !app_nil_r in L.
  replace (S n + 0 + fuel) with (S n + fuel) in L by lia. rewrite <- !app_assoc in L.
  rewrite (L (conj H I)). destruct (lex fuel rest) as [evs fin]. reflexivity.
Qed.

Inductive cpiece : Type := CP (p : piece (D:=D)) | CComma.
Definition cevent (c : cpiece) : event := match c with CP p => event_of_token (ptok C p) | CComma => EComma end.
Definition ctext (c : cpiece) : str := match c with CP p => ptext C tb p | CComma => [COMMA] end.
Definition creadable (c : cpiece) (rest : str) : Prop := match c with CP p => readable C tb is_literal p rest | CComma => True end.
Fixpoint ctexts (items : list (cpiece * nat)) : str :=
  match items with [] => [] | (c, n) :: tl => ctext c ++ spaces n ++ ctexts tl end.
Fixpoint call_readable (items : list (cpiece * nat)) (s' : str) : Prop :=
  match items with
  | [] => True
  | (c, n) :: tl => creadable c (spaces n ++ ctexts tl ++ s') /\ call_readable tl s'
  end.
Definition ccost (items : list (cpiece * nat)) : nat := fold_right (fun p acc => S (snd p) + acc) 0 items.

Lemma lex_call_local (s' : str) : forall (items : list (cpiece * nat)) fuel,
  call_readable items s' ->
  lex (ccost items + fuel) (ctexts items ++ s') =
    (let '(evs, fin) := lex fuel s' in (map cevent (map fst items) ++ evs, fin)).
Proof.
  induction items as [|[c n] items IH]; intros fuel HR; [cbn [ccost fold_right ctexts map app Nat.add]; destruct (lex fuel s'); reflexivity|].
  cbn [call_readable] in HR. destruct HR as [Hc HR]. specialize (IH fuel HR).
  cbn [ccost fold_right snd ctexts map fst]. fold (ccost items). rewrite <- !app_assoc.
  replace (S n + ccost items + fuel) with (S n + (ccost items + fuel)) by lia.
  destruct c as [p|]; cbn [ctext cevent creadable] in *.
  - rewrite (lex_piece p n (ccost items + fuel) (ctexts items ++ s') Hc). rewrite IH. destruct (lex fuel s') as [evs fin]. reflexivity.
  - cbn [app Nat.add]. rewrite lex_cons.
    change (N.eqb COMMA SPACE) with false. change (N.eqb COMMA LPAR) with false. change (N.eqb COMMA RPAR) with false.
    change (N.eqb COMMA COMMA) with true. cbn match.
    rewrite (lex_spaces C tb is_literal n (ccost items + fuel) (ctexts items ++ s')), IH. destruct (lex fuel s') as [evs fin]. reflexivity.
Qed.

Lemma ctexts_len (items : list (cpiece * nat)) s' : call_readable items s' -> ccost items <= length (ctexts items).
Proof.
  induction items as [|[c n] items IH]; intros HR; [cbn; lia|]. cbn [call_readable] in HR. destruct HR as [Hc HR].
  cbn [ccost fold_right snd ctexts]. fold (ccost items). rewrite !app_length. unfold spaces. rewrite repeat_length. specialize (IH HR).
  assert (1 <= length (ctext c)); [|lia].
  destruct c as [p|]; cbn [ctext creadable length] in *; [|lia].
  pose proof (ptexts_len C tb is_literal [(p, 0)] (spaces n ++ ctexts items ++ s')) as L.
  cbn [all_readable ptexts pcost fold_right snd spaces repeat app] in L. rewrite !app_nil_r in L. cbn [app] in L. apply L. split; [exact Hc|exact I].
Qed.

(* a text in call notation: its pieces and commas spell the events of the items l; it is tokenized to the infix notation *)
Theorem tokenize_call_local (l : list (item (D:=D))) (items : list (cpiece * nat)) :
  lplain l = true -> map cevent (map fst items) = events_of_list l -> call_readable items [] ->
  tokenize C tb is_literal (ctexts items) = Ok (infix_of_list l).
Proof.
  intros Hp He HR. rewrite (tokenize_factors C tb is_literal).
  pose proof (ctexts_len items [] HR) as Hlen.
  pose proof (lex_call_local [] items (S (length (ctexts items)) - ccost items) HR) as H. rewrite app_nil_r in H.
  replace (ccost items + (S (length (ctexts items)) - ccost items)) with (S (length (ctexts items))) in H by lia.
  rewrite H. destruct (S (length (ctexts items)) - ccost items) as [|f] eqn:Ef; [lia|]. cbn [CommaRewrite.lex]. rewrite app_nil_r, He.
  apply rewrite_call_form. exact Hp.
Qed.
End CallLocal.

(* ---------- the default number pattern as literal matcher ---------- *)
Section DefaultMatcher.
Context {D : Type}.
Variable C : carrier D.
Variable tb : optable.

Lemma num_char_plain c : num_char c = true -> special c = false.
Proof.
  intros H. unfold special.
  destruct (N.eqb_spec c SPACE) as [->|_]; [discriminate H|]. destruct (N.eqb_spec c LPAR) as [->|_]; [discriminate H|].
  destruct (N.eqb_spec c RPAR) as [->|_]; [discriminate H|]. destruct (N.eqb_spec c COMMA) as [->|_]; [discriminate H|].
  destruct (N.eqb_spec c LBRACE) as [->|_]; [discriminate H|]. reflexivity.
Qed.

(* a text that does not start with a digit or a dot is no number *)
Lemma not_numeric c tl : num_char c = false -> is_numeric_text (c :: tl) = None.
Proof. intros H. unfold is_numeric_text. cbn [take_while]. unfold num_char in H. rewrite H. reflexivity. Qed.

(* a number whose Debug text is digits with at most one dot (not a lone dot) and reads back as that number is readable in
   front of anything that does not continue it with a digit or a dot *)
Theorem number_readable_default (d : D) (rest : str) :
  show C d <> [] -> forallb num_char (show C d) = true ->
  ((Nat.ltb 1 (length (show C d)) && Nat.ltb (count_dots (show C d)) 2) || (Nat.eqb (length (show C d)) 1 && Nat.eqb (count_dots (show C d)) 0)) = true ->
  (match rest with [] => True | c :: _ => num_char c = false end) ->
  lit C (show C d) = Some d ->
  readable C tb is_numeric_text (PT (TNum d)) rest.
Proof.
  intros Hne Hall Hshape Hrest Hlit. cbn [readable]. split; [|split; [|exact Hlit]].
  - destruct (show C d) as [|c tl]; [exfalso; apply Hne; reflexivity|]. exists c, tl. split; [reflexivity|].
    cbn [forallb] in Hall. apply andb_prop in Hall. exact (num_char_plain c (proj1 Hall)).
  - rewrite (is_numeric_text_spec (show C d) rest Hne Hall Hrest), Hshape. reflexivity.
Qed.

(* operator names and bare variable names that do not start with a digit or a dot are not taken by the number pattern *)
Lemma name_not_numeric (x rest : str) c tl : x = c :: tl -> num_char c = false -> is_numeric_text (x ++ rest) = None.
Proof. intros -> H. cbn [app]. exact (not_numeric c (tl ++ rest) H). Qed.
End DefaultMatcher.
