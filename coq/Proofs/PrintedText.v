(* Proofs/PrintedText.v — the TEXT level of print-and-parse-again.  unparse prints the tokens of the expression without any
   space; by Proofs/LexLocal.v the tokenizer reads that text back to exactly these tokens whenever every printed token is
   readable in front of the text that follows it (the literal matcher takes the Debug text of a number and nothing of an
   operator name, the operator search finds the operator by its name there).  Together with the token-level round trip
   (Proofs/Printable.v): DeepEx::parse (unparse e) succeeds, lists the same variables and evaluates to the same value. *)
From Coq Require Import List Arith Lia Bool ZArith NArith.
Import ListNotations.
From Exmex.Model Require Import Base EvalBinary Lexer Flat Deep.
From Exmex.Spec Require Import RefSem.
From Exmex.Proofs Require Import Vars CommaRewrite LongestMatch LexSpaced LexFlex LexLocal Unparse Printable.
Open Scope nat_scope.

Section PrintedText.
Context {D : Type}.
Variable C : carrier D.
Variable tb : optable.
Variable is_literal : str -> option nat.

Definition printed (ts : list (token D)) : list (piece (D:=D) * nat) := map (fun t => (PT t, 0)) ts.

Lemma render_is_ptexts (ts : list (token D)) : render C tb ts = ptexts C tb (printed ts).
Proof.
  induction ts as [|t ts IH]; [reflexivity|]. unfold render in *. cbn [flat_map printed map ptexts spaces repeat app]. rewrite IH.
  destruct t; reflexivity.
Qed.
Lemma printed_toks (ts : list (token D)) : map (ptok C) (map fst (printed ts)) = ts.
Proof. induction ts as [|t ts IH]; [reflexivity|]. cbn [printed map fst ptok]. f_equal. exact IH. Qed.

Theorem printed_text_tokenizes (ts : list (token D)) :
  all_readable C tb is_literal (printed ts) [] -> tokenize C tb is_literal (render C tb ts) = Ok ts.
Proof. intros H. rewrite render_is_ptexts, (tokenize_local C tb is_literal _ H). rewrite printed_toks. reflexivity. Qed.

Section RoundTrip.
Variable R : D -> D -> Prop.
Hypothesis R_refl : forall a, R a a.
Hypothesis R_sym : forall a b, R a b -> R b a.
Hypothesis R_trans : forall a b c, R a b -> R b c -> R a c.
Hypothesis R_bin : forall k a a' b b', R a a' -> R b b' -> R (binf C k a b) (binf C k a' b').
Hypothesis R_un : forall k a a', R a a' -> R (unf C k a) (unf C k a').
Hypothesis table_assoc : forall o, comm_of tb o = true -> forall a b c, R (binf C o (binf C o a b) c) (binf C o a (binf C o b c)).

Theorem printed_text_round_trip (e : deepex D) : printable tb e ->
  all_readable C tb is_literal (printed (utoks e)) [] ->
  exists txt e', unparse C tb e = Some txt /\ parse_deep C tb is_literal txt = Ok e' /\
    dvars e' = dvars e /\ printable tb e' /\
    forall vals, length vals = length (dvars e) ->
    exists v v', eval_deep C e vals = Ok v /\ eval_deep C e' vals = Ok v' /\ R v' v.
Proof.
  intros Hp Hr. destruct (printable_round_trip C tb R R_refl R_sym R_trans R_bin R_un table_assoc e Hp) as (Hu & e' & He' & Hd & Hp' & Hv).
  exists (render C tb (utoks e)), e'. split; [exact Hu|]. split; [|split; [exact Hd|split; [exact Hp'|exact Hv]]].
  unfold parse_deep. rewrite (printed_text_tokenizes _ Hr). cbn [bind]. exact He'.
Qed.
End RoundTrip.
End PrintedText.
