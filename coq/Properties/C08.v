(* C08 — function-call notation op(a, b) means ((a) op (b)) at any nesting.  Property theorems only. *)
From Coq Require Import List Arith ZArith NArith.
Import ListNotations.
From Exmex.Model Require Import Base Lexer.
From Exmex.Proofs Require Import CommaRewrite LexSpaced LexFlex LexLocal.
Open Scope nat_scope.

(* 1. The tokenizer IS a character-level lexer (which characters form an opening or closing parenthesis, a comma or a
   token; independent of what was read before) followed by the rewriting machine over those events (result list,
   stack of pending call depths, parenthesis depth) — for every text, table, literal matcher and data type. *)
Theorem C08_tokenizer_is_lexer_then_rewrite :
  forall (D : Type) (C : carrier D) (tb : optable) (is_literal : str -> option nat) (s : str),
  tokenize C tb is_literal s =
  let '(evs, fin) := lex C tb is_literal (S (length s)) s in apply_events evs fin [] [] 0.
Proof. exact @tokenize_factors. Qed.

(* 2. The machine, on the events of ANY sequence of items — tokens, parenthesised groups ( ... ), calls op( a , b )
   whose arguments are again such sequences, nested without bound, a call in the first or the second argument of
   another call, inside extra parentheses — started in any state whose pending depths do not exceed the current depth,
   emits exactly the tokens of the infix notation, where op(a, b) reads (( a ) op ( b )), and continues with its
   pending stack and depth restored. *)
Theorem C08_call_form_is_infix_at_any_nesting :
  forall (D : Type) (l : list (item (D:=D))), lplain l = true ->
  forall rest fin rres pending depth, (forall d, In d pending -> (d <= depth)%Z) ->
  apply_events (events_of_list l ++ rest) fin rres pending depth =
  apply_events rest fin (rev (infix_of_list l) ++ rres) pending depth.
Proof. intros D l Hp. exact (rewrite_items (lsize l) l (le_n _) Hp). Qed.

(* 3. Hence: a text whose characters lex to the call notation of l and a text whose characters lex to the infix
   notation of l are tokenized to the same token list, the infix one. *)
Theorem C08_same_tokens_as_infix_text :
  forall (D : Type) (C : carrier D) (tb : optable) (is_literal : str -> option nat) (l : list (item (D:=D))) (s s' : str),
  lplain l = true ->
  lex C tb is_literal (S (length s)) s = (events_of_list l, None) ->
  lex C tb is_literal (S (length s')) s' = (map event_of_token (infix_of_list l), None) ->
  tokenize C tb is_literal s = Ok (infix_of_list l) /\ tokenize C tb is_literal s' = Ok (infix_of_list l).
Proof.
  intros D C tb is_literal l s s' Hp H1 H2. rewrite !tokenize_factors, H1, H2. split.
  - apply rewrite_call_form. exact Hp.
  - apply apply_plain_all.
Qed.

(* non-vacuity: max(1, min(2,3)) + f(g(1,2),(3))  —  a call in the second argument, a call in the first, a group *)
Definition ex_tb : optable :=
  [ {| repr := [43]%N; obin := Some {| prio := 0; comm := true |}; ounary := true; oconst := false |};
    {| repr := [109;97;120]%N; obin := Some {| prio := 5; comm := false |}; ounary := false; oconst := false |};
    {| repr := [109;105;110]%N; obin := Some {| prio := 5; comm := false |}; ounary := false; oconst := false |} ].
Definition ex_call : str := [109;97;120;40;49;44;32;109;105;110;40;50;44;51;41;41;43;109;105;110;40;109;97;120;40;49;44;50;41;44;40;51;41;41]%N.
  (* max(1, min(2,3))+min(max(1,2),(3)) *)
Definition ex_infix : str := [40;40;49;41;109;97;120;40;40;40;50;41;109;105;110;40;51;41;41;41;41;43;40;40;40;40;49;41;109;97;120;40;50;41;41;41;109;105;110;40;40;51;41;41;41]%N.
  (* ((1)max(((2)min(3))))+((((1)max(2)))min((3))) *)
Example C08_example :
  tokenize term_carrier ex_tb is_numeric_text ex_call = tokenize term_carrier ex_tb is_numeric_text ex_infix /\
  exists ts, tokenize term_carrier ex_tb is_numeric_text ex_call = Ok ts /\ length ts = 37.
Proof. vm_compute. split; [reflexivity|eexists; split; reflexivity]. Qed.

(* 4. TEXT level (Proofs/LexLocal.v).  A text in call notation cut into pieces -- numbers, parentheses, braced or bare variables,
   operator names, constants -- and commas, any number of spaces behind each (also none): when the pieces and commas spell
   the call notation of the items l and every piece is readable in front of the text that actually follows it, the text is
   tokenized to the INFIX notation of l, where op(a, b) reads ((a) op (b)), at any nesting. *)
Theorem C08_call_text_is_tokenized_to_infix :
  forall (D : Type) (C : carrier D) (tb : optable) (is_literal : str -> option nat)
         (l : list (item (D:=D))) (items : list (cpiece (D:=D) * nat)),
  lplain l = true -> map (cevent C) (map fst items) = events_of_list l -> call_readable C tb is_literal items [] ->
  tokenize C tb is_literal (ctexts C tb items) = Ok (infix_of_list l).
Proof. exact @tokenize_call_local. Qed.

(* non-vacuity:  max(x,min(2, y))+z  with bare variables, one space *)
Definition ex_items : list (item (D:=term)) :=
  [ICall 1 [ITok (TVar [120]%N)] [ICall 2 [ITok (TNum (Lit [50]%N))] [ITok (TVar [121]%N)]]; ITok (TOp 0); ITok (TVar [122]%N)].
Definition ex_pieces : list (cpiece (D:=term) * nat) :=
  [ (CP (PT (TOp 1)), 0); (CP (PT TOpen), 0); (CP (PBare [120]%N), 0); (CComma, 0);
    (CP (PT (TOp 2)), 0); (CP (PT TOpen), 0); (CP (PT (TNum (Lit [50]%N))), 0); (CComma, 1); (CP (PBare [121]%N), 0); (CP (PT TClose), 0); (CP (PT TClose), 0);
    (CP (PT (TOp 0)), 0); (CP (PBare [122]%N), 0) ].
Example C08_example_text :
  ctexts term_carrier ex_tb ex_pieces = [109;97;120;40;120;44;109;105;110;40;50;44;32;121;41;41;43;122]%N /\
  tokenize term_carrier ex_tb is_numeric_text (ctexts term_carrier ex_tb ex_pieces) = Ok (infix_of_list ex_items) /\
  infix_of_list ex_items = [TOpen; TOpen; TVar [120]%N; TClose; TOp 1; TOpen; TOpen; TOpen; TNum (Lit [50]%N); TClose; TOp 2; TOpen; TVar [121]%N; TClose; TClose; TClose; TClose; TOp 0; TVar [122]%N].
Proof.
  split; [reflexivity|]. split; [|reflexivity].
  apply tokenize_call_local; [reflexivity|reflexivity|].
  cbn [call_readable ex_pieces creadable readable]. repeat split; try reflexivity; eexists _, _; split; reflexivity.
Qed.

(* Outside these theorems (covered by the correspondence of this check): whether a concrete table and literal matcher meet
   the local readability conditions on a concrete text, and the parsers downstream, which see identical token lists for
   the two notations. *)
Print Assumptions C08_tokenizer_is_lexer_then_rewrite.
Print Assumptions C08_call_form_is_infix_at_any_nesting.
Print Assumptions C08_same_tokens_as_infix_text.
Print Assumptions C08_call_text_is_tokenized_to_infix.
