(* Refinement: eval_binary on (numbers array, boolean tracker) implements the chain machine of CM2 *)
From Coq Require Import List Arith Lia Bool.
Import ListNotations.
From Exmex.Model Require Import Base EvalBinary.
From Exmex.Proofs Require Import ChainMachine.
Arguments ids {D} l. Arguments inc {D} lo l. Arguments step {D} opf i x l. Arguments run {D} opf sigma x l.

Section Refine.
Variable D : Type.
Variable dflt : D.
Variable opf : nat -> D -> D -> D.

Local Notation get_previous := (@get_previous).
Local Notation astep := (astep dflt opf).
Local Notation arun := (arun dflt opf).

(* abstraction: heads of segments; the pair for head h carries the operator h-1 *)
Fixpoint absl (pos : nat) (nums : list D) (ign : list bool) : pairs D :=
  match nums, ign with
  | v :: ntl, b :: itl => if b then absl (S pos) ntl itl else (pos - 1, v) :: absl (S pos) ntl itl
  | _, _ => []
  end.
Definition abs (st : list D * list bool) : option (D * pairs D) :=
  match st with
  | (x :: ntl, false :: itl) => Some (x, absl 1 ntl itl)
  | _ => None
  end.

(* ---- segment view of a state ---- *)
Local Notation seg := (D * nat)%type.     (* head value, number of merged (dead) slots after it *)
Definition seg_n (s : seg) : list D := fst s :: repeat dflt (snd s).
Definition seg_i (s : seg) : list bool := false :: repeat true (snd s).
Definition conc_n (ss : list seg) := flat_map seg_n ss.
Definition conc_i (ss : list seg) := flat_map seg_i ss.
Definition seg_len (s : seg) := S (snd s).
Definition total (ss : list seg) := fold_right (fun s a => seg_len s + a) 0 ss.

Lemma conc_n_length ss : length (conc_n ss) = total ss.
Proof. unfold conc_n. induction ss as [|[v k] tl IH]; cbn; [reflexivity|]. rewrite app_length, repeat_length, IH. reflexivity. Qed.
Lemma conc_i_length ss : length (conc_i ss) = total ss.
Proof. unfold conc_i. induction ss as [|[v k] tl IH]; cbn; [reflexivity|]. rewrite app_length, repeat_length, IH. reflexivity. Qed.

(* chain of a segment list whose first head sits at position off *)
Fixpoint chain_tl (off : nat) (ss : list seg) : pairs D :=
  match ss with [] => [] | (v, k) :: tl => (off - 1, v) :: chain_tl (off + S k) tl end.
Definition chain_of (ss : list seg) : option (D * pairs D) :=
  match ss with [] => None | (v, k) :: tl => Some (v, chain_tl (S k) tl) end.

(* merging the segment that ends at position idx with its right neighbour *)
Fixpoint merge_at (off idx : nat) (ss : list seg) : option (list seg) :=
  match ss with
  | (v, k) :: ((w, m) :: tl) as rest =>
      if Nat.eqb idx (off + k) then Some ((opf idx v w, k + S m) :: tl)
      else match merge_at (off + S k) idx rest with Some r => Some ((v, k) :: r) | None => None end
  | _ => None
  end.

Lemma merge_at_cons off idx v k w m tl : merge_at off idx ((v, k) :: (w, m) :: tl) =
  if Nat.eqb idx (off + k) then Some ((opf idx v w, k + S m) :: tl)
  else match merge_at (off + S k) idx ((w, m) :: tl) with Some r => Some ((v, k) :: r) | None => None end.
Proof. reflexivity. Qed.

Lemma nth_repeat_true k j : j < k -> nth j (repeat true k) false = true.
Proof. revert j; induction k; intros j H; [lia|]. destruct j; cbn; [reflexivity|apply IHk; lia]. Qed.

(* get_previous at the last slot of a segment: pre ++ (false :: repeat true k) ++ post *)
Lemma get_previous_seg (pre : list bool) k post :
  forall d, d <= k -> get_previous (pre ++ (false :: repeat true k) ++ post) (length pre + d) = d.
Proof.
  induction d as [|d IH]; intros Hd.
  - rewrite Nat.add_0_r. destruct (length pre) eqn:E.
    + destruct pre; [|discriminate]. reflexivity.
    + cbn [get_previous]. rewrite <- E. rewrite app_nth2 by lia. rewrite Nat.sub_diag. reflexivity.
  - replace (length pre + S d) with (S (length pre + d)) by lia. cbn [get_previous].
    rewrite app_nth2 by lia. replace (S (length pre + d) - length pre) with (S d) by lia.
    cbn [app nth]. rewrite app_nth1 by (rewrite repeat_length; lia). rewrite nth_repeat_true by lia.
    f_equal. apply IH. lia.
Qed.

Lemma get_next_false ign pos fuel : nth pos ign false = false -> get_next_from ign pos fuel = 1.
Proof. destruct fuel; cbn; [reflexivity|]. intros ->. reflexivity. Qed.

Lemma set_nth_app_l {A} n (x : A) l1 l2 : n < length l1 -> set_nth n x (l1 ++ l2) = set_nth n x l1 ++ l2.
Proof. revert n; induction l1 as [|a tl IH]; intros n H; cbn in *; [lia|]. destruct n; cbn; [reflexivity|]. f_equal. apply IH. lia. Qed.
Lemma set_nth_app_r {A} n (x : A) l1 l2 : length l1 <= n -> set_nth n x (l1 ++ l2) = l1 ++ set_nth (n - length l1) x l2.
Proof. revert n; induction l1 as [|a tl IH]; intros n H; cbn in *; [rewrite Nat.sub_0_r; reflexivity|]. destruct n; [lia|]. cbn. f_equal. apply IH. lia. Qed.
Lemma set_nth_length {A} n (x : A) l : length (set_nth n x l) = length l.
Proof. revert n; induction l; intros n; cbn; [reflexivity|]. destruct n; cbn; [reflexivity|]. f_equal. apply IHl. Qed.

Lemma set_mid {A} (a0 a1 d : A) k m (Rl : list A) :
  set_nth (S k) d ((a0 :: repeat d k) ++ (a1 :: repeat d m) ++ Rl) = (a0 :: repeat d (k + S m)) ++ Rl.
Proof.
  cbn [app set_nth]. f_equal.
  rewrite set_nth_app_r by (rewrite repeat_length; lia). rewrite repeat_length, Nat.sub_diag.
  cbn [app set_nth]. rewrite repeat_app. cbn [repeat]. rewrite <- app_assoc. reflexivity.
Qed.

(* main refinement lemma, generalised over the segments already passed (pre-state lists) *)
Lemma astep_merge : forall ss pn pi idx ss',
  length pn = length pi ->
  merge_at (length pn) idx ss = Some ss' ->
  astep idx (pn ++ conc_n ss, pi ++ conc_i ss) = Some (pn ++ conc_n ss', pi ++ conc_i ss').
Proof.
  induction ss as [|[v k] tl IH]; intros pn pi idx ss' Hlen Hm; [discriminate|].
  destruct tl as [|[w m] tl]; [discriminate|].
  rewrite merge_at_cons in Hm.
  destruct (Nat.eqb_spec idx (length pn + k)) as [->|Hne].
  - inversion Hm; subst ss'. clear Hm.
    unfold astep. cbv beta iota zeta.
    assert (Eprev : get_previous (pi ++ conc_i ((v, k) :: (w, m) :: tl)) (length pn + k) = k).
    { cbn [conc_i flat_map seg_i snd]. rewrite Hlen. apply (get_previous_seg pi k _ k). apply le_n. }
    rewrite Eprev.
    assert (Enext : get_next_from (pi ++ conc_i ((v, k) :: (w, m) :: tl)) (S (length pn + k)) (length (pi ++ conc_i ((v, k) :: (w, m) :: tl))) = 1).
    { apply get_next_false. rewrite app_nth2 by lia. rewrite <- Hlen.
      replace (S (length pn + k) - length pn) with (S k) by lia.
      cbn [conc_i flat_map seg_i snd app nth]. rewrite app_nth2 by (rewrite repeat_length; lia). rewrite repeat_length, Nat.sub_diag. reflexivity. }
    rewrite Enext.
    replace (length pn + k <? k) with false by (symmetry; apply Nat.ltb_ge; lia).
    replace (length pn + k - k) with (length pn) by lia.
    (* the two reads *)
    assert (R1 : nth_error (pn ++ conc_n ((v, k) :: (w, m) :: tl)) (length pn) = Some v).
    { rewrite nth_error_app2 by lia. rewrite Nat.sub_diag. reflexivity. }
    assert (R2 : nth_error (pn ++ conc_n ((v, k) :: (w, m) :: tl)) (length pn + k + 1) = Some w).
    { rewrite nth_error_app2 by lia. replace (length pn + k + 1 - length pn) with (S k) by lia.
      cbn [conc_n flat_map seg_n fst snd app nth_error]. rewrite nth_error_app2 by (rewrite repeat_length; lia). rewrite repeat_length, Nat.sub_diag. reflexivity. }
    rewrite R1, R2. f_equal. f_equal.
    + (* numbers *)
      rewrite (set_nth_app_r (length pn + k + 1)) by lia.
      replace (length pn + k + 1 - length pn) with (S k) by lia.
      rewrite (set_nth_app_r (length pn)) by lia. rewrite Nat.sub_diag.
      f_equal. unfold conc_n. cbn [flat_map]. unfold seg_n. cbn [fst snd].
      rewrite set_mid. reflexivity.
    + (* tracker *)
      rewrite (set_nth_app_r (length pn + k + 1)) by lia.
      replace (length pn + k + 1 - length pi) with (S k) by lia.
      f_equal. unfold conc_i. cbn [flat_map]. unfold seg_i. cbn [snd].
      rewrite set_mid. reflexivity.
  - (* the merge happens further right: push the first segment into the prefix *)
    destruct (merge_at (length pn + S k) idx ((w, m) :: tl)) as [r|] eqn:Em; [|discriminate].
    inversion Hm; subst ss'. clear Hm.
    specialize (IH (pn ++ seg_n (v, k)) (pi ++ seg_i (v, k)) idx r).
    assert (Hl : length (pn ++ seg_n (v, k)) = length (pi ++ seg_i (v, k))).
    { rewrite !app_length. cbn. rewrite !repeat_length. lia. }
    assert (Hl2 : length (pn ++ seg_n (v, k)) = length pn + S k).
    { rewrite app_length. cbn. rewrite repeat_length. reflexivity. }
    rewrite Hl2 in IH. rewrite Hl2 in Hl. specialize (IH Hl Em).
    unfold conc_n, conc_i in *. cbn [flat_map] in *.
    rewrite <- !app_assoc in IH. exact IH.
Qed.

(* the segment merge is the chain-machine step *)
Lemma merge_is_step : forall rest off idx v k ss',
  merge_at off idx ((v, k) :: rest) = Some ss' ->
  exists v' k' rest', ss' = (v', k') :: rest' /\
    step opf idx v (chain_tl (off + S k) rest) = Some (v', chain_tl (off + S k') rest').
Proof.
  induction rest as [|[w m] tl IH]; intros off idx v k ss' Hm; [discriminate|].
  rewrite merge_at_cons in Hm.
  cbn [chain_tl step].
  replace (off + S k - 1) with (off + k) by lia.
  destruct (Nat.eqb_spec idx (off + k)) as [->|Hne].
  - inversion Hm; subst. exists (opf (off + k) v w), (k + S m), tl. split; [reflexivity|].
    replace (off + S (k + S m)) with (off + S k + S m) by lia. reflexivity.
  - destruct (merge_at (off + S k) idx ((w, m) :: tl)) as [r|] eqn:Em; [|discriminate].
    inversion Hm; subst.
    destruct (IH (off + S k) idx w m r Em) as (w' & m' & tl' & -> & Hs).
    exists v, k, ((w', m') :: tl'). split; [reflexivity|].
    rewrite Hs. cbn [chain_tl]. replace (off + S k - 1) with (off + k) by lia. reflexivity.
Qed.

Lemma merge_defined : forall rest off idx v k,
  In idx (ids (chain_tl (off + S k) rest)) -> exists ss', merge_at off idx ((v, k) :: rest) = Some ss'.
Proof.
  induction rest as [|[w m] tl IH]; intros off idx v k Hin; [cbn in Hin; tauto|].
  rewrite merge_at_cons. cbn [chain_tl ids map fst] in Hin.
  destruct (Nat.eqb_spec idx (off + k)); [eauto|].
  destruct Hin as [Hin|Hin]; [lia|].
  destruct (IH (off + S k) idx w m Hin) as (r & ->). eauto.
Qed.

(* one step of the array machine on the concretisation of a segment list = one step of the chain machine *)
Theorem astep_refines : forall v k rest idx,
  In idx (ids (chain_tl (S k) rest)) ->
  exists v' k' rest',
    astep idx (conc_n ((v, k) :: rest), conc_i ((v, k) :: rest)) = Some (conc_n ((v', k') :: rest'), conc_i ((v', k') :: rest')) /\
    step opf idx v (chain_tl (S k) rest) = Some (v', chain_tl (S k') rest').
Proof.
  intros v k rest idx Hin.
  destruct (merge_defined rest 0 idx v k Hin) as (ss' & Hm).
  destruct (merge_is_step rest 0 idx v k ss' Hm) as (v' & k' & rest' & -> & Hs).
  exists v', k', rest'. split; [|exact Hs].
  exact (astep_merge ((v, k) :: rest) [] [] idx _ eq_refl Hm).
Qed.
End Refine.
Print Assumptions astep_refines.
