(* C01 — evaluation follows the documented operator semantics.
   Property theorems only; proofs are in Proofs/. *)
From Coq Require Import List Arith ZArith.
Import ListNotations.
From Exmex.Model Require Import Base EvalBinary Lexer Flat.
From Exmex.Proofs Require Import ChainMachine SortedRef EvalBinaryCorrect FlatEval.

(* "Binary operators apply in descending priority and left-to-right among equal priorities", for EVERY
   flat expression (any data type, any table, any number of operands, parsed or not): the value is the
   precedence reference of the keys (10 * depth-scaled priority, +5 for a bumped operator): the expression
   is split at the rightmost operator of minimal key, both sides are evaluated the same way, and the
   operator (followed by the unary functions attached to it) is applied to the two results.
   `_partial`: this is the evaluation half of C01.  What is still missing for the full statement
   (see DESIGN.md 3.2/3.3): that make_expression puts the unary functions of a parenthesis group on
   the operator applied last in the group and that depth scaling realises "parentheses first"
   (covered by the correspondence against the reference interpreter until proved), and the
   instantiation of Proofs/Bump.bump_invisible for regrouping_is_invisible. *)
Theorem C01_flat_eval_is_precedence_partial :
  forall (D : Type) (C : carrier D) (fixed_bump : bool)
         (nodes : list (fnode D)) (ops : list fop) (x : D) (rest : list D),
  length rest = length ops ->
  eval_numbers C (x :: rest) ops (prioritized_indices_flat fixed_bump ops nodes)
  = Ok (ref_val D (op_at C ops) (key fixed_bump nodes ops) (length ops) x
          (chain_from D (vals_of D (dflt C) (x :: rest)) 0 (length ops))).
Proof. exact @eval_numbers_is_ref. Qed.

Print Assumptions C01_flat_eval_is_precedence_partial.
