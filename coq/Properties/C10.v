(* C10 — operator application on expressions is a homomorphism.  Property theorems only. *)
From Coq Require Import List Arith.
Import ListNotations.
From Exmex.Model Require Import Base EvalBinary Lexer Flat Deep Convert Calc.
From Exmex.Spec Require Import RefSem.
From Exmex.Proofs Require Import DeepSem DeepSubs C11Main DeepOps ConvertCompose FlatCalc.
From Coq Require Import Reals.
From Exmex.Gen Require Import Tables.
From Exmex.Proofs Require Import NormalForm RealCarrier CalcSem CalcGen.
Open Scope nat_scope.

(* 1. Binary application by name on DEEP expressions is a homomorphism: for every table, every binary operator name and
   every two index-consistent operands (what the parser, subs and these operations themselves produce): it succeeds,
   the result is index-consistent with the SORTED UNION of the operands' variable lists (so it can be an operand
   again: any finite sequence of applications), and at every assignment of that list its value is, modulo R, the
   operator applied to the operands' values at the corresponding values of THEIR variables. *)
Theorem C10_deep_binary_application_is_a_homomorphism :
  forall (D : Type) (C : carrier D) (tb : optable) (R : D -> D -> Prop),
  (forall a, R a a) -> (forall a b, R a b -> R b a) -> (forall a b c, R a b -> R b c -> R a c) ->
  (forall k a a' b b', R a a' -> R b b' -> R (binf C k a b) (binf C k a' b')) ->
  (forall k a a', R a a' -> R (unf C k a) (unf C k a')) ->
  (forall k, comm_of tb k = true -> forall a b c, R (binf C k (binf C k a b) c) (binf C k a (binf C k b c))) ->
  forall (a b : deepex D) (name : str) (k : nat),
  find_op name tb 0 = Some k -> is_bin tb k = true ->
  dindexed (tflagged tb) (dvars a) a -> dindexed (tflagged tb) (dvars b) b ->
  let all := sort_strs (dvars a ++ dvars b) in
  exists e, operate_bin C tb a b name = Ok e /\ dindexed (tflagged tb) all e /\
    forall vals', length vals' = length all ->
    exists v va vb, eval_deep C e vals' = Ok v /\
                    eval_deep C a (map (env_of C all vals') (dvars a)) = Ok va /\
                    eval_deep C b (map (env_of C all vals') (dvars b)) = Ok vb /\ R v (binf C k va vb).
Proof. exact @operate_bin_eval. Qed.

(* 2. the same for unary application: same variable list, value = the operator applied to the operand's value *)
Theorem C10_deep_unary_application_is_a_homomorphism :
  forall (D : Type) (C : carrier D) (tb : optable) (R : D -> D -> Prop),
  (forall a, R a a) -> (forall a b, R a b -> R b a) -> (forall a b c, R a b -> R b c -> R a c) ->
  (forall k a a' b b', R a a' -> R b b' -> R (binf C k a b) (binf C k a' b')) ->
  (forall k a a', R a a' -> R (unf C k a) (unf C k a')) ->
  (forall k, comm_of tb k = true -> forall a b c, R (binf C k (binf C k a b) c) (binf C k a (binf C k b c))) ->
  forall (a : deepex D) (name : str) (k : nat),
  find_op name tb 0 = Some k -> has_un tb k = true -> dindexed (tflagged tb) (dvars a) a ->
  exists e, operate_unary C tb a name = Ok e /\ dindexed (tflagged tb) (dvars a) e /\
    forall vals, length vals = length (dvars a) ->
    exists v va, eval_deep C e vals = Ok v /\ eval_deep C a vals = Ok va /\ R v (unf C k va).
Proof. exact @operate_unary_eval. Qed.

(* 3. The same on FLAT expressions, as Calculate::operate_binary / operate_unary do it: convert both operands to the
   deep form, apply, convert back.  For flat expressions the conversions accept (flat_ok: what the flat parser builds
   from any accepted token list, and what these operations return) the pipeline succeeds, the result is flat_ok again
   (so any finite sequence of applications stays inside the theorem), its variable list is the sorted union, and its
   value at every assignment is the operator applied to the operands' values. *)
Theorem C10_flat_binary_application_is_a_homomorphism :
  forall (D : Type) (C : carrier D) (tb : optable), wf_table tb = true ->
  forall (R : D -> D -> Prop),
  (forall a, R a a) -> (forall a b, R a b -> R b a) -> (forall a b c, R a b -> R b c -> R a c) ->
  (forall k a a' b b', R a a' -> R b b' -> R (binf C k a b) (binf C k a' b')) ->
  (forall k a a', R a a' -> R (unf C k a) (unf C k a')) ->
  (forall k, comm_of tb k = true -> forall a b c, R (binf C k (binf C k a b) c) (binf C k a (binf C k b c))) ->
  forall (fa fb : flatex D) (name : str) (k : nat),
  find_op name tb 0 = Some k -> is_bin tb k = true -> flat_ok C tb fa -> flat_ok C tb fb ->
  let all := sort_strs (fvars fa ++ fvars fb) in
  exists da db r fx,
    to_deepex C tb true fa = Ok da /\ to_deepex C tb true fb = Ok db /\ operate_bin C tb da db name = Ok r /\
    from_deepex C tb true r = Ok fx /\ flat_ok C tb fx /\ fvars fx = all /\
    forall vals', length vals' = length all ->
    exists v va vb, eval_flat C fx vals' = Ok v /\
                    eval_flat C fa (map (env_of C all vals') (fvars fa)) = Ok va /\
                    eval_flat C fb (map (env_of C all vals') (fvars fb)) = Ok vb /\ R v (binf C k va vb).
Proof. exact @flat_operate_binary. Qed.

Theorem C10_flat_unary_application_is_a_homomorphism :
  forall (D : Type) (C : carrier D) (tb : optable), wf_table tb = true ->
  forall (R : D -> D -> Prop),
  (forall a, R a a) -> (forall a b, R a b -> R b a) -> (forall a b c, R a b -> R b c -> R a c) ->
  (forall k a a' b b', R a a' -> R b b' -> R (binf C k a b) (binf C k a' b')) ->
  (forall k a a', R a a' -> R (unf C k a) (unf C k a')) ->
  (forall k, comm_of tb k = true -> forall a b c, R (binf C k (binf C k a b) c) (binf C k a (binf C k b c))) ->
  forall (fa : flatex D) (name : str) (k : nat),
  find_op name tb 0 = Some k -> has_un tb k = true -> flat_ok C tb fa ->
  exists da r fx,
    to_deepex C tb true fa = Ok da /\ operate_unary C tb da name = Ok r /\ from_deepex C tb true r = Ok fx /\
    flat_ok C tb fx /\ fvars fx = fvars fa /\
    forall vals, length vals = length (fvars fa) ->
    exists v va, eval_flat C fx vals = Ok v /\ eval_flat C fa vals = Ok va /\ R v (unf C k va).
Proof. exact @flat_operate_unary. Qed.

(* 4. applying an unknown operator name is an error, for every table, data type and operands; applying a name that
   exists but has no unary function is an error too.
   Outside these theorems (covered by the correspondence: histories of applications against the reference interpreter;
   arithmetic histories against the unsimplified form): the neutral-element shortcuts on data types other than the reals (5 below
   proves them over the reals) and the named helper methods built on them. *)
Theorem C10_unknown_binary_name_is_error_partial :
  forall (D : Type) (C : carrier D) (tb : optable) (a b : deepex D) (name : str),
  find_op name tb 0 = None -> operate_bin C tb a b name = Err E_UNKNOWNOP.
Proof. intros D C tb a b name H. unfold operate_bin. rewrite H. reflexivity. Qed.
Theorem C10_unknown_unary_name_is_error_partial :
  forall (D : Type) (C : carrier D) (tb : optable) (a : deepex D) (name : str),
  find_op name tb 0 = None -> operate_unary C tb a name = Err E_UNKNOWNOP.
Proof. intros D C tb a name H. unfold operate_unary. rewrite H. reflexivity. Qed.
Theorem C10_not_a_unary_operator_is_error_partial :
  forall (D : Type) (C : carrier D) (tb : optable) (a : deepex D) (name : str) (k : nat),
  find_op name tb 0 = Some k -> has_un tb k = false -> operate_unary C tb a name = Err E_NOUNARY.
Proof. intros D C tb a name k H Hu. unfold operate_unary. rewrite H, Hu. reflexivity. Qed.

(* 5. The overloaded arithmetic operators of deep expressions WITH their neutral-element shortcuts (deep.rs:1138-1219:
   x+0, 0+x, x*1, 1*x, x*0, 0/x, x/1, x^0, x^1, 0^x), over the real numbers with the default table: on expressions in
   compile normal form whose names lie in their variable lists (W, Proofs/CalcSem.v) each of them, when it succeeds,
   yields such an expression again, over the sorted union of the variable lists, whose value at every assignment is the
   real operation applied to the operands' values.  For the power: unless the base is the literal zero, in which case
   the result is zero (0^y = 0 for every positive y; the theorem says nothing for 0^y with y <= 0).  The soundness of
   the shortcuts rests on DeepEx::is_num being sound on normal forms (Proofs/NormalForm.v). *)
Theorem C10_shortcuts_are_sound_over_the_reals :
  forall a b r : deepex R, W a -> W b ->
  (d_add Rc RDC float_table a b = Ok r ->
     W r /\ dvars r = sort_strs (dvars a ++ dvars b) /\ forall rho, ddenR rho r = (ddenR rho a + ddenR rho b)%R) /\
  (d_sub Rc float_table a b = Ok r ->
     W r /\ dvars r = sort_strs (dvars a ++ dvars b) /\ forall rho, ddenR rho r = (ddenR rho a - ddenR rho b)%R) /\
  (d_mul Rc RDC float_table a b = Ok r ->
     W r /\ dvars r = sort_strs (dvars a ++ dvars b) /\ forall rho, ddenR rho r = (ddenR rho a * ddenR rho b)%R) /\
  (d_div Rc RDC float_table a b = Ok r ->
     W r /\ dvars r = sort_strs (dvars a ++ dvars b) /\ forall rho, ddenR rho r = (ddenR rho a / ddenR rho b)%R) /\
  (d_pow Rc RDC float_table a b = Ok r ->
     W r /\ dvars r = sort_strs (dvars a ++ dvars b) /\
     ((forall rho, ddenR rho r = powR (ddenR rho a) (ddenR rho b)) \/
      ((forall rho, ddenR rho a = 0%R) /\ (forall rho, ddenR rho r = 0%R)))).
Proof.
  intros a b r Wa Wb.
  split; [intros H; exact (d_add_sem a b r Wa Wb H)|]. split; [intros H; exact (d_sub_sem a b r Wa Wb H)|].
  split; [intros H; exact (d_mul_sem a b r Wa Wb H)|]. split; [intros H; exact (d_div_sem a b r Wa Wb H)|].
  intros H; exact (d_pow_sem a b r Wa Wb H).
Qed.
(* 6. The same for EVERY data type and table: the table has + - * / ^ as binary operators; modulo R, zero is neutral for +,
   one is neutral and zero absorbing for *, 0/x = 0, x/1 = x, x^0 = 1, x^1 = x, and the equality test of the data type
   answers true only on R-related values.  (For floats these laws hold on finite values, which is the side condition of
   the property; for exact data types they hold outright.) *)
Theorem C10_shortcuts_are_sound_for_every_data_type :
  forall (D : Type) (C : carrier D) (DC : dcarrier D) (tb : optable) (R : D -> D -> Prop),
  (forall a, R a a) -> (forall a b, R a b -> R b a) -> (forall a b c, R a b -> R b c -> R a c) ->
  (forall k a a' b b', R a a' -> R b b' -> R (binf C k a b) (binf C k a' b')) ->
  (forall k a a', R a a' -> R (unf C k a) (unf C k a')) ->
  (forall k, comm_of tb k = true -> forall a b c, R (binf C k (binf C k a b) c) (binf C k a (binf C k b c))) ->
  forall kadd ksub kmul kdiv kpow : nat,
  find_op s_plus tb 0 = Some kadd -> is_bin tb kadd = true -> find_op s_minus tb 0 = Some ksub -> is_bin tb ksub = true ->
  find_op s_mul tb 0 = Some kmul -> is_bin tb kmul = true -> find_op s_div tb 0 = Some kdiv -> is_bin tb kdiv = true ->
  find_op s_pow tb 0 = Some kpow -> is_bin tb kpow = true ->
  (forall a b, dc_eqb DC a b = true -> R a b) ->
  (forall a, R (binf C kadd (dc_zero DC) a) a) -> (forall a, R (binf C kadd a (dc_zero DC)) a) ->
  (forall a, R (binf C kmul (dc_one DC) a) a) -> (forall a, R (binf C kmul a (dc_one DC)) a) ->
  (forall a, R (binf C kmul (dc_zero DC) a) (dc_zero DC)) -> (forall a, R (binf C kmul a (dc_zero DC)) (dc_zero DC)) ->
  (forall a, R (binf C kdiv (dc_zero DC) a) (dc_zero DC)) -> (forall a, R (binf C kdiv a (dc_one DC)) a) ->
  (forall a, R (binf C kpow a (dc_zero DC)) (dc_one DC)) -> (forall a, R (binf C kpow a (dc_one DC)) a) ->
  forall a b r : deepex D, Wg tb a -> Wg tb b ->
  (d_add C DC tb a b = Ok r ->
     Wg tb r /\ dvars r = sort_strs (dvars a ++ dvars b) /\ forall rho, R (dden C (nlook rho) r) (binf C kadd (dden C (nlook rho) a) (dden C (nlook rho) b))) /\
  (d_sub C tb a b = Ok r ->
     Wg tb r /\ dvars r = sort_strs (dvars a ++ dvars b) /\ forall rho, R (dden C (nlook rho) r) (binf C ksub (dden C (nlook rho) a) (dden C (nlook rho) b))) /\
  (d_mul C DC tb a b = Ok r ->
     Wg tb r /\ dvars r = sort_strs (dvars a ++ dvars b) /\ forall rho, R (dden C (nlook rho) r) (binf C kmul (dden C (nlook rho) a) (dden C (nlook rho) b))) /\
  (d_div C DC tb a b = Ok r ->
     Wg tb r /\ dvars r = sort_strs (dvars a ++ dvars b) /\ forall rho, R (dden C (nlook rho) r) (binf C kdiv (dden C (nlook rho) a) (dden C (nlook rho) b))) /\
  (d_pow C DC tb a b = Ok r ->
     Wg tb r /\ dvars r = sort_strs (dvars a ++ dvars b) /\
     ((forall rho, R (dden C (nlook rho) r) (binf C kpow (dden C (nlook rho) a) (dden C (nlook rho) b))) \/
      ((forall rho, R (dden C (nlook rho) a) (dc_zero DC)) /\ (forall rho, dden C (nlook rho) r = dc_zero DC)))).
Proof.
  intros D C DC tb R Hr Hs Ht Hb Hu Ha kadd ksub kmul kdiv kpow fa ba fs bs fm bm fd bd fp bp He a0l a0r m1l m1r m0l m0r d0l d1r p0r p1r a b r Wa Wb.
  split; [intros H; exact (d_add_gen C DC tb R Hr Hs Ht Hb Hu Ha kadd fa ba He a0l a0r a b r Wa Wb H)|].
  split; [intros H; exact (d_sub_gen C tb R Hr Hs Ht Hb Hu Ha ksub fs bs a b r Wa Wb H)|].
  split; [intros H; exact (d_mul_gen C DC tb R Hr Hs Ht Hb Hu Ha kmul fm bm He m1l m1r m0l m0r a b r Wa Wb H)|].
  split; [intros H; exact (d_div_gen C DC tb R Hr Hs Ht Hb Hu Ha kdiv fd bd He d0l d1r a b r Wa Wb H)|].
  intros H; exact (d_pow_gen C DC tb R Hr Hs Ht Hb Hu Ha kpow fp bp He p0r p1r a b r Wa Wb H).
Qed.

(* DeepEx::is_num answers true only for a literal level with that value (the shortcut tests), on every data type *)
Theorem C10_is_num_is_sound_on_normal_forms :
  forall (D : Type) (C : carrier D) (DC : dcarrier D) (e : deepex D) (num : D), nf e -> is_num C DC e num = true ->
  exists d bops uop vars, e = DE [DNum d] bops uop vars /\ dc_eqb DC (apply_un C uop d) num = true.
Proof. exact @is_num_shape. Qed.

Print Assumptions C10_deep_binary_application_is_a_homomorphism.
Print Assumptions C10_deep_unary_application_is_a_homomorphism.
Print Assumptions C10_flat_binary_application_is_a_homomorphism.
Print Assumptions C10_flat_unary_application_is_a_homomorphism.
Print Assumptions C10_unknown_binary_name_is_error_partial.
Print Assumptions C10_shortcuts_are_sound_over_the_reals.
Print Assumptions C10_is_num_is_sound_on_normal_forms.
Print Assumptions C10_shortcuts_are_sound_for_every_data_type.
