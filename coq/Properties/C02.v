(* C02 — constant folding never changes what an expression computes.  Property theorems only; proofs are in Proofs/. *)
From Coq Require Import List Arith ZArith.
Import ListNotations.
From Exmex.Model Require Import Base EvalBinary Lexer Flat Deep.
From Exmex.Spec Require Import RefSem.
From Exmex.Proofs Require Import FlatPev CompileCorrect C02Main C01Main C01Vars DeepSem DeepCompile C03Main.
Open Scope nat_scope.

(* 1. FlatEx::compile on ANY flat expression with one more node than operators and the schedule of
   prioritized_indices_flat (what the parser, compile itself, the conversions and the calculator all build):
   it succeeds, the result is again such an expression, the variable list and the text are unchanged, and for EVERY
   assignment the outcome of evaluation is the same — equal errors, values related by R — for every equivalence R that
   the operator functions respect and modulo which the operators flagged commutative in the expression are
   associative.  (With R := eq this is equality of values whenever the flags are sound.) *)
Theorem C02_folding_is_invisible :
  forall (D : Type) (C : carrier D) (R : D -> D -> Prop),
  (forall a, R a a) -> (forall a b, R a b -> R b a) -> (forall a b c, R a b -> R b c -> R a c) ->
  (forall k a a' b b', R a a' -> R b b' -> R (binf C k a b) (binf C k a' b')) ->
  (forall k a a', R a a' -> R (unf C k a) (unf C k a')) ->
  forall fx : flatex D, flat_wf fx -> assoc_ok C R (fops fx) ->
  exists fx', compile C true fx = Ok fx' /\ flat_wf fx' /\ assoc_ok C R (fops fx') /\ ftext fx' = ftext fx /\
              fvars fx' = fvars fx /\
              forall vals, res_rel R (eval_flat C fx' vals) (eval_flat C fx vals).
Proof.
  intros D C R Hr Hs Ht Hb Hu fx Hwf Ha.
  destruct (compile_same_function C R Hr Hs Ht Hb Hu fx Hwf Ha) as (fx' & H1 & H2 & H3 & H4 & H5 & H6).
  exact (ex_intro _ fx' (conj H1 (conj H2 (conj H3 (conj H4 (conj H5 H6)))))).
Qed.

(* 2. folding again, any number of times *)
Theorem C02_refolding_is_invisible :
  forall (D : Type) (C : carrier D) (R : D -> D -> Prop),
  (forall a, R a a) -> (forall a b, R a b -> R b a) -> (forall a b c, R a b -> R b c -> R a c) ->
  (forall k a a' b b', R a a' -> R b b' -> R (binf C k a b) (binf C k a' b')) ->
  (forall k a a', R a a' -> R (unf C k a) (unf C k a')) ->
  forall (n : nat) (fx : flatex D), flat_wf fx -> assoc_ok C R (fops fx) ->
  exists fx', compile_n C n fx = Ok fx' /\ fvars fx' = fvars fx /\
              forall vals, res_rel R (eval_flat C fx' vals) (eval_flat C fx vals).
Proof.
  intros D C R Hr Hs Ht Hb Hu n fx Hwf Ha.
  destruct (compile_n_same_function C R Hr Hs Ht Hb Hu n fx Hwf Ha) as (fx' & H1 & _ & H2 & H3).
  exact (ex_intro _ fx' (conj H1 (conj H2 H3))).
Qed.

(* 3. parse vs parse_wo_compile on EVERY text, over every operator table and literal matcher: one is accepted iff the
   other is (with the same error otherwise), the variable lists are equal and so is every evaluation, modulo R *)
Theorem C02_parse_vs_parse_wo_compile :
  forall (D : Type) (C : carrier D) (R : D -> D -> Prop),
  (forall a, R a a) -> (forall a b, R a b -> R b a) -> (forall a b c, R a b -> R b c -> R a c) ->
  (forall k a a' b b', R a a' -> R b b' -> R (binf C k a b) (binf C k a' b')) ->
  (forall k a a', R a a' -> R (unf C k a) (unf C k a')) ->
  forall (tb : optable),
  (forall o, comm_of tb o = true -> forall a b c, R (binf C o (binf C o a b) c) (binf C o a (binf C o b c))) ->
  forall (is_literal : str -> option nat) (text : str),
  match parse_wo_compile C tb true is_literal text with
  | Ok fx => exists fx', parse C tb true is_literal text = Ok fx' /\ fvars fx' = fvars fx /\
                         forall vals, res_rel R (eval_flat C fx' vals) (eval_flat C fx vals)
  | Err e => parse C tb true is_literal text = Err e
  | Panic e => parse C tb true is_literal text = Panic e
  end.
Proof.
  intros D C R Hr Hs Ht Hb Hu tb Ha is_literal text.
  pose proof (parse_vs_parse_wo_compile C R Hr Hs Ht Hb Hu tb Ha is_literal text) as H.
  destruct (parse_wo_compile C tb true is_literal text); exact H.
Qed.

(* 4. against the reference semantics: the FOLDED flat expression of every well-formed surface tree evaluates to the
   reference value, modulo R *)
Theorem C02_folded_parse_is_reference :
  forall (D : Type) (C : carrier D) (tb : optable) (R : D -> D -> Prop),
  wf_table tb = true ->
  (forall a, R a a) -> (forall a b, R a b -> R b a) -> (forall a b c, R a b -> R b c -> R a c) ->
  (forall k a a' b b', R a a' -> R b b' -> R (binf C k a b) (binf C k a' b')) ->
  (forall k a a', R a a' -> R (unf C k a) (unf C k a')) ->
  (forall o, comm_of tb o = true -> forall a b c, R (binf C o (binf C o a b) c) (binf C o a (binf C o b c))) ->
  forall (c : chain (D:=D)) (text : str) (vals : list D) (n : nat),
  wf_chain tb c = true ->
  length vals = length (find_parsed_vars (flatten c)) ->
  exists fx fx' v,
    make_expression tb true text (flatten c) (find_parsed_vars (flatten c)) = Ok fx /\
    compile_n C n fx = Ok fx' /\
    fvars fx' = find_parsed_vars (flatten c) /\
    eval_flat C fx' vals = Ok v /\
    R v (ref_chain C tb (find_parsed_vars (flatten c)) vals c).
Proof.
  intros D C tb R Hwf Hr Hs Ht Hb Hu Ha c text vals n Hwfc Hlen.
  destruct (vars_in_chain c) as [Hv0 Hvr].
  destruct (flat_parse_is_reference C tb Hwf R Hr Hs Ht Hb Hu Ha (find_parsed_vars (flatten c)) vals Hlen c text Hwfc Hv0 Hvr)
    as (fx & v & H1 & H2 & H3 & H4).
  destruct (compile_parsed C R Hr Hs Ht Hb Hu tb Ha _ _ _ _ H1 n) as (fx' & Hc & Hv & He).
  specialize (He vals). rewrite H3 in He. destruct (eval_flat C fx' vals) as [v'| |] eqn:E; try contradiction.
  exists fx, fx', v'. repeat split; try assumption; [congruence|]. eapply Ht; [exact He|exact H4].
Qed.

(* 5. DeepEx::compile (lifting of single-node wrappers, the folding loop with the deep keys, the unary operators on a
   single remaining literal) on ANY well-formed deep expression: it succeeds, the result is well formed, and both the
   denotation and the evaluated value are preserved modulo R, for every assignment. *)
Theorem C02_deep_folding_is_invisible :
  forall (D : Type) (C : carrier D) (R : D -> D -> Prop),
  (forall a, R a a) -> (forall a b, R a b -> R b a) -> (forall a b c, R a b -> R b c -> R a c) ->
  (forall k a a' b b', R a a' -> R b b' -> R (binf C k a b) (binf C k a' b')) ->
  (forall k a a', R a a' -> R (unf C k a) (unf C k a')) ->
  forall (okop : dbop -> Prop),
  (forall o, okop o -> bcomm o = true ->
     forall a b c, R (binf C (bidx o) (binf C (bidx o) a b) c) (binf C (bidx o) a (binf C (bidx o) b c))) ->
  forall (look : nat -> str -> D) (okvar : nat -> str -> Prop) (okvars : list str -> Prop) (vals : list D),
  (forall v, okvars v -> length v <= length vals) ->
  (forall i x, okvar i x -> i < length vals /\ look i x = nth i vals (dflt C)) ->
  forall e : deepex D, dwf okop okvar okvars e ->
  exists e' v v', dcompile C e = Ok e' /\ dwf okop okvar okvars e' /\ R (dden C look e') (dden C look e) /\
                  eval_deep_relaxed C e vals = Ok v /\ eval_deep_relaxed C e' vals = Ok v' /\ R v' v.
Proof.
  intros D C R Hr Hs Ht Hb Hu okop Ha look okvar okvars vals Hok Hlook e Hwf.
  destruct (dcompile_ok C R Hr Hs Ht Hb Hu okop Ha look okvar okvars e Hwf) as (e' & Hc & Hwf' & HR).
  destruct (eval_deep_is_dden C R Hr Hs Ht Hb Hu okop Ha look okvar okvars vals Hok Hlook e Hwf) as (v & Ev & Rv).
  destruct (eval_deep_is_dden C R Hr Hs Ht Hb Hu okop Ha look okvar okvars vals Hok Hlook e' Hwf') as (v' & Ev' & Rv').
  exists e', v, v'. repeat split; try assumption.
  eapply Ht; [exact Rv'|]. eapply Ht; [exact HR|]. apply Hs. exact Rv.
Qed.

(* 6. the deep expression of every well-formed surface tree (the deep parser always folds) is the reference semantics *)
Theorem C02_deep_parse_is_reference :
  forall (D : Type) (C : carrier D) (tb : optable) (R : D -> D -> Prop),
  (forall a, R a a) -> (forall a b, R a b -> R b a) -> (forall a b c, R a b -> R b c -> R a c) ->
  (forall k a a' b b', R a a' -> R b b' -> R (binf C k a b) (binf C k a' b')) ->
  (forall k a a', R a a' -> R (unf C k a) (unf C k a')) ->
  (forall o, comm_of tb o = true -> forall a b c, R (binf C o (binf C o a b) c) (binf C o a (binf C o b c))) ->
  forall (c : chain (D:=D)) (vals : list D),
  wf_chain tb c = true -> length vals = length (find_parsed_vars (flatten c)) ->
  exists e v,
    dparse C tb (S (length (flatten c))) None (flatten c) (find_parsed_vars (flatten c)) [] [] [] = Ok (e, []) /\
    dvars e = find_parsed_vars (flatten c) /\
    eval_deep C e vals = Ok v /\
    R v (ref_chain C tb (find_parsed_vars (flatten c)) vals c).
Proof.
  intros D C tb R Hr Hs Ht Hb Hu Ha c vals Hwf Hlen.
  exact (deep_parse_is_reference C tb R Hr Hs Ht Hb Hu Ha c vals Hwf Hlen).
Qed.

(* non-vacuity: 1+2+x*3*4 over a small table folds to two operators less and is the same term up to regrouping *)
Definition ex_tb : optable :=
  [ {| repr := [43]%N; obin := Some {| prio := 0; comm := true |}; ounary := true; oconst := false |};
    {| repr := [42]%N; obin := Some {| prio := 2; comm := true |}; ounary := false; oconst := false |} ].
Definition ex_chain : chain (D:=term) :=
  (ALeaf [] (LNum (Lit [49%N])),
   [(0, ALeaf [] (LNum (Lit [50%N]))); (0, ALeaf [] (LVar [120%N])); (1, ALeaf [] (LNum (Lit [51%N]))); (1, ALeaf [] (LNum (Lit [52%N])))]).
Example C02_example :
  (do fx <- make_expression ex_tb true [] (flatten ex_chain) (find_parsed_vars (flatten ex_chain));
   do fx' <- compile term_carrier true fx;
   do v <- eval_flat term_carrier fx [V 0]; do v' <- eval_flat term_carrier fx' [V 0];
   Ok (length (fops fx), length (fops fx'), v, v'))
  = Ok (4, 2, Bin 0 (Bin 0 (Lit [49%N]) (Lit [50%N])) (Bin 1 (V 0) (Bin 1 (Lit [51%N]) (Lit [52%N]))),
              Bin 0 (Bin 0 (Lit [49%N]) (Lit [50%N])) (Bin 1 (V 0) (Bin 1 (Lit [51%N]) (Lit [52%N])))).
Proof. vm_compute. reflexivity. Qed.

(* Outside these theorems: the tokenizer on text renderings and acceptance by check_preconditions for the tree-level
   statements (4, 6) — covered by the correspondence of this check. *)
Print Assumptions C02_folding_is_invisible.
Print Assumptions C02_refolding_is_invisible.
Print Assumptions C02_parse_vs_parse_wo_compile.
Print Assumptions C02_folded_parse_is_reference.
Print Assumptions C02_deep_folding_is_invisible.
Print Assumptions C02_deep_parse_is_reference.
