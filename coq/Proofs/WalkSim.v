(* Proofs/WalkSim.v — the token walker of flat.rs (make_expression) on the token rendering of a well-formed surface
   tree produces exactly the structural flat image FlStruct.fl_chain: same nodes, same operators with depth-scaled
   priorities, the unary operators of every parenthesis group on the operator of the group that is applied last. *)
From Coq Require Import List Arith Lia Bool ZArith.
Import ListNotations.
From Exmex.Model Require Import Base EvalBinary Lexer Flat.
From Exmex.Spec Require Import RefSem.
From Exmex.Proofs Require Import Pev FlStruct FlSem FlVals.
Open Scope nat_scope.

Section WalkSim.
Context {D : Type}.
Variable tb : optable.
Variable vars : list str.
Hypothesis Hwf_tb : wf_table tb = true.
Variable C0 : carrier D.      (* any data type instance: only used to transport the priority bounds of FlSem *)

Local Notation walk := (@walk D tb).
Local Notation fl_atom := (@fl_atom D tb vars).
Local Notation fl_rest := (@fl_rest D tb vars).
Local Notation fl_chain := (@fl_chain D tb vars).
Local Notation isb := (@is_operator_binary D tb).

Definition atom_end (t : token D) : bool := match t with TNum _ | TVar _ | TClose => true | _ => false end.
(* what may stand to the left of an atom *)
Inductive lctx : list (token D) -> Prop :=
| lctx_nil : lctx []
| lctx_open rp : lctx (TOpen :: rp)
| lctx_bin b t rp : is_bin tb b = true -> atom_end t = true -> lctx (TOp b :: t :: rp).

Lemma isb_unary_first rp u : lctx rp -> is_un tb u = true -> isb u (hd_error rp) = Ok false.
Proof.
  intros Hc Hu. unfold is_operator_binary. change (has_un tb u) with (is_un tb u). rewrite Hu.
  destruct (has_bin tb u); cbn; [|reflexivity]. destruct Hc; reflexivity.
Qed.
Lemma isb_unary_next u u' : is_un tb u = true -> isb u (Some (TOp u')) = Ok false.
Proof.
  intros Hu. unfold is_operator_binary. change (has_un tb u) with (is_un tb u). rewrite Hu.
  destruct (has_bin tb u); reflexivity.
Qed.
Lemma isb_binary b t : is_bin tb b = true -> atom_end t = true -> isb b (Some t) = Ok true.
Proof.
  intros Hb Ht. unfold is_operator_binary. change (has_bin tb b) with (is_bin tb b). rewrite Hb.
  destruct (has_un tb b); cbn; destruct t; try discriminate; reflexivity.
Qed.

(* scanning back over the unary operators in front of an atom; rus = those operators, last one first *)
Lemma subsequent_unaries_spec : forall rus rp0 acc, lctx rp0 -> forallb (is_un tb) rus = true ->
  subsequent_unaries tb (map TOp rus ++ rp0) acc = Ok (rev rus ++ acc).
Proof.
  induction rus as [|u rus IH]; intros rp0 acc Hc Hu.
  - cbn [map app rev]. destruct Hc as [|rp|b t rp Hb Ht]; cbn [subsequent_unaries]; [reflexivity|reflexivity|].
    unfold unpack_unary. cbn [hd_error]. rewrite (isb_binary b t Hb Ht). reflexivity.
  - cbn [forallb] in Hu. apply andb_prop in Hu. destruct Hu as [Hu Hus].
    cbn [map app subsequent_unaries]. unfold unpack_unary.
    assert (Hb : isb u (hd_error (map TOp rus ++ rp0)) = Ok false).
    { destruct rus as [|u' rus']; [apply isb_unary_first; assumption|apply isb_unary_next; exact Hu]. }
    rewrite Hb. cbn [bind]. change (has_un tb u) with (is_un tb u). rewrite Hu. cbn [bind].
    rewrite (IH rp0 (u :: acc) Hc Hus). cbn [rev]. rewrite <- app_assoc. reflexivity.
Qed.

Lemma create_node_spec rus rp0 kind : lctx rp0 -> forallb (is_un tb) rus = true ->
  create_node tb (map TOp rus ++ rp0) kind = Ok {| nkind := kind; nun := rev rus |}.
Proof.
  intros Hc Hu. destruct rus as [|u rus].
  - cbn [map app rev]. destruct Hc as [|rp|b t rp Hb Ht]; cbn [create_node]; [reflexivity|reflexivity|].
    cbn [hd_error]. rewrite (isb_binary b t Hb Ht). reflexivity.
  - cbn [map app create_node].
    assert (Hb : isb u (hd_error (map TOp rus ++ rp0)) = Ok false).
    { cbn [forallb] in Hu. apply andb_prop in Hu. destruct Hu as [Hu _].
      destruct rus as [|u' rus']; [apply isb_unary_first; assumption|apply isb_unary_next; exact Hu]. }
    rewrite Hb. cbn [bind].
    change (TOp u :: map TOp rus ++ rp0) with (map TOp (u :: rus) ++ rp0).
    rewrite (subsequent_unaries_spec (u :: rus) rp0 [] Hc Hu). rewrite app_nil_r. reflexivity.
Qed.

(* ---- walking over the unary operators in front of an atom ---- *)
Definition leaf_tok (t : token D) : bool := match t with TNum _ | TVar _ => true | _ => false end.

Lemma walk_unaries_leaf : forall us rus rp0 t tail rnodes rops depth ustack fuel,
  lctx rp0 -> forallb (is_un tb) us = true -> forallb (is_un tb) rus = true -> leaf_tok t = true ->
  walk (length us + fuel) (map TOp rus ++ rp0) (map TOp us ++ t :: tail) vars rnodes rops depth ustack
  = walk fuel (map TOp (rev us ++ rus) ++ rp0) (t :: tail) vars rnodes rops depth ustack.
Proof.
  induction us as [|u us IH]; intros rus rp0 t tail rnodes rops depth ustack fuel Hc Hus Hrus Ht; [reflexivity|].
  cbn [forallb] in Hus. apply andb_prop in Hus. destruct Hus as [Hu Hus].
  cbn [length Nat.add map app Flat.walk].
  assert (Hb : isb u (hd_error (map TOp rus ++ rp0)) = Ok false).
  { destruct rus as [|u' rus']; [apply isb_unary_first; assumption|apply isb_unary_next; exact Hu]. }
  rewrite Hb. cbn [bind].
  assert (Hnext : match map TOp us ++ t :: tail with
                  | TClose :: _ => False | TOpen :: _ => False | [] => False | _ => True end).
  { destruct us; [destruct t; try discriminate; exact I|exact I]. }
  change (TOp u :: map TOp rus ++ rp0) with (map TOp (u :: rus) ++ rp0).
  destruct (map TOp us ++ t :: tail) as [|t' tl'] eqn:E; [destruct Hnext|].
  destruct t' as [d'| | |k'|x']; try destruct Hnext; rewrite <- E;
    (rewrite (IH (u :: rus) rp0 t tail rnodes rops depth ustack fuel Hc Hus ltac:(cbn [forallb]; rewrite Hu, Hrus; reflexivity) Ht);
     cbn [rev]; rewrite <- app_assoc; reflexivity).
Qed.

Lemma walk_unaries_open : forall us rus rp0 tail rnodes rops depth ustack fuel,
  lctx rp0 -> forallb (is_un tb) us = true -> forallb (is_un tb) rus = true ->
  walk (length us + fuel) (map TOp rus ++ rp0) (map TOp us ++ TOpen :: tail) vars rnodes rops depth ustack
  = walk fuel (map TOp (rev us ++ rus) ++ rp0) (TOpen :: tail) vars rnodes rops depth
         (match us with [] => ustack | _ => (map TOp (rev us ++ rus) ++ rp0, depth) :: ustack end).
Proof.
  induction us as [|u us IH]; intros rus rp0 tail rnodes rops depth ustack fuel Hc Hus Hrus; [reflexivity|].
  cbn [forallb] in Hus. apply andb_prop in Hus. destruct Hus as [Hu Hus].
  cbn [length Nat.add map app Flat.walk].
  assert (Hb : isb u (hd_error (map TOp rus ++ rp0)) = Ok false).
  { destruct rus as [|u' rus']; [apply isb_unary_first; assumption|apply isb_unary_next; exact Hu]. }
  rewrite Hb. cbn [bind].
  change (TOp u :: map TOp rus ++ rp0) with (map TOp (u :: rus) ++ rp0).
  destruct us as [|u2 us2].
  - cbn [map app rev length Nat.add]. reflexivity.
  - assert (Hrus' : forallb (is_un tb) (u :: rus) = true) by (cbn [forallb]; rewrite Hu, Hrus; reflexivity).
    change (map TOp (u2 :: us2) ++ TOpen :: tail) with (TOp u2 :: map TOp us2 ++ TOpen :: tail).
    cbn iota. change (TOp u2 :: map TOp us2 ++ TOpen :: tail) with (map TOp (u2 :: us2) ++ TOpen :: tail).
    rewrite (IH (u :: rus) rp0 tail rnodes rops depth ustack fuel Hc Hus Hrus').
    cbn [rev]. rewrite <- !app_assoc. cbn [app].
    destruct (rev us2 ++ [u2]) eqn:E; [destruct (rev us2); discriminate|]. reflexivity.
Qed.

(* ---- token renderings ---- *)
Lemma flatten_atom_group us (a0 : atom (D:=D)) rest :
  flatten_atom (AGroup us a0 rest) = map TOp us ++ TOpen :: flatten_atom a0 ++ flatten_rest rest ++ [TClose].
Proof.
  cbn [flatten_atom].
  replace ((fix go (l : list (nat * atom (D:=D))) : list (token D) :=
              match l with [] => [] | (o, b) :: tl => TOp o :: flatten_atom b ++ go tl end) rest) with (flatten_rest rest); [reflexivity|].
  induction rest as [|[o b] tl IH]; [reflexivity|]. cbn [flatten_rest]. rewrite IH. reflexivity.
Qed.
Lemma flatten_atom_end (a : atom (D:=D)) : exists pre t, flatten_atom a = pre ++ [t] /\ atom_end t = true.
Proof.
  destruct a as [us [d|x]|us a0 rest].
  - exists (map TOp us), (TNum d). split; reflexivity.
  - exists (map TOp us), (TVar x). split; reflexivity.
  - rewrite flatten_atom_group. exists (map TOp us ++ TOpen :: flatten_atom a0 ++ flatten_rest rest), TClose.
    split; [|reflexivity]. rewrite <- app_assoc. cbn [app]. rewrite <- app_assoc. reflexivity.
Qed.

(* ---- the operator that receives the unary functions of a group ---- *)
Definition head_low (rops : list fop) (d : Z) : Prop :=
  match rops with [] => True | o :: _ => (fprio o < (d + 1) * 1000)%Z end.
Definition all_ge (b : Z) (ops : list fop) : Prop := forall o, In o ops -> (b <= fprio o)%Z.

Lemma lowest_trailing_stop rops0 d pos best : head_low rops0 (d - 1) ->
  lowest_trailing rops0 d pos best = option_map fst best.
Proof.
  destruct rops0 as [|o r]; [reflexivity|]. cbn [head_low lowest_trailing]. intros H.
  replace ((d - 1 + 1) * 1000)%Z with (d * 1000)%Z in H by lia.
  destruct (Z.geb_spec (fprio o) (d * DEPTH_PRIO_STEP)) as [Hge|Hlt]; [unfold DEPTH_PRIO_STEP in Hge; lia|reflexivity].
Qed.

(* scanning a block of operators that all belong to the group *)
Lemma lowest_trailing_block : forall l rops0 d pos bq bk, all_ge (d * 1000)%Z l -> head_low rops0 (d - 1) ->
  exists r, lowest_trailing (l ++ rops0) d pos (Some (bq, bk)) = Some r /\
    ((r = bq /\ (forall o, In o l -> (bk <= fprio o)%Z)) \/
     (exists j o, r = pos + j /\ nth_error l j = Some o /\ (fprio o < bk)%Z /\
        (forall i o', i < j -> nth_error l i = Some o' -> (fprio o < fprio o')%Z) /\
        (forall i o', j < i -> nth_error l i = Some o' -> (fprio o <= fprio o')%Z))).
Proof.
  induction l as [|o l IH]; intros rops0 d pos bq bk Hge Hlow.
  - cbn [app]. rewrite lowest_trailing_stop by exact Hlow. exists bq. split; [reflexivity|]. left. split; [reflexivity|intros o []].
  - cbn [app lowest_trailing].
    assert (Ho : (d * 1000 <= fprio o)%Z) by (apply Hge; left; reflexivity).
    destruct (Z.geb_spec (fprio o) (d * DEPTH_PRIO_STEP)) as [_|Hlt]; [|unfold DEPTH_PRIO_STEP in Hlt; lia].
    assert (Hge' : all_ge (d * 1000)%Z l) by (intros o' Hin; apply Hge; right; exact Hin).
    destruct (Z.ltb_spec (fprio o) bk) as [Hlt|Hnlt].
    + destruct (IH rops0 d (S pos) pos (fprio o) Hge' Hlow) as (r & Hr & [[-> Hall]|(j & o' & -> & Hn & Hlt' & Hbef & Haft)]).
      * exists pos. split; [exact Hr|]. right. exists 0, o. split; [lia|]. split; [reflexivity|]. split; [exact Hlt|]. split.
        -- intros i o' Hi; lia.
        -- intros i o' Hi Hn. destruct i; [lia|]. cbn in Hn. apply Hall. eapply nth_error_In; exact Hn.
      * exists (S pos + j). split; [exact Hr|]. right. exists (S j), o'. split; [lia|]. split; [exact Hn|]. split; [lia|]. split.
        -- intros i o'' Hi Hn'. destruct i; [cbn in Hn'; inversion Hn'; subst; exact Hlt'|]. cbn in Hn'. apply (Hbef i o''); [lia|exact Hn'].
        -- intros i o'' Hi Hn'. destruct i; [lia|]. cbn in Hn'. apply (Haft i o''); [lia|exact Hn'].
    + destruct (IH rops0 d (S pos) bq bk Hge' Hlow) as (r & Hr & [[-> Hall]|(j & o' & -> & Hn & Hlt' & Hbef & Haft)]).
      * exists bq. split; [exact Hr|]. left. split; [reflexivity|]. intros o' [<-|Hin]; [lia|apply Hall; exact Hin].
      * exists (S pos + j). split; [exact Hr|]. right. exists (S j), o'. split; [lia|]. split; [exact Hn|]. split; [exact Hlt'|]. split.
        -- intros i o'' Hi Hn'. destruct i; [cbn in Hn'; inversion Hn'; subst; lia|]. cbn in Hn'. apply (Hbef i o''); [lia|exact Hn'].
        -- intros i o'' Hi Hn'. destruct i; [lia|]. cbn in Hn'. apply (Haft i o''); [lia|exact Hn'].
Qed.

(* the first minimum of the reversed block is the rightmost minimum of the block *)
Definition is_rroot (ops : list fop) (p : nat) : Prop :=
  exists o, nth_error ops p = Some o /\
    (forall i o', i < p -> nth_error ops i = Some o' -> (fprio o <= fprio o')%Z) /\
    (forall i o', p < i -> nth_error ops i = Some o' -> (fprio o < fprio o')%Z).
Lemma is_rroot_unique ops p p' : is_rroot ops p -> is_rroot ops p' -> p = p'.
Proof.
  intros (o & Hn & Hb & Ha) (o' & Hn' & Hb' & Ha').
  destruct (Nat.lt_trichotomy p p') as [H|[H|H]]; [|exact H|].
  - pose proof (Ha _ _ H Hn'). pose proof (Hb' _ _ H Hn). lia.
  - pose proof (Ha' _ _ H Hn). pose proof (Hb _ _ H Hn'). lia.
Qed.
Lemma nth_combine_l {A B} : forall (l : list A) (ys : list B) i a b, nth_error (combine l ys) i = Some (a, b) -> nth_error l i = Some a.
Proof.
  induction l as [|x l IH]; intros ys i a b H; [destruct i; discriminate|].
  destruct ys as [|y ys]; [destruct i; discriminate|]. destruct i; cbn in *; [inversion H; reflexivity|eapply IH; exact H].
Qed.
Lemma nth_combine_tt {A} : forall (l : list A) i a, nth_error l i = Some a -> nth_error (combine l (repeat tt (length l))) i = Some (a, tt).
Proof.
  induction l as [|x l IH]; intros i a H; [destruct i; discriminate|]. destruct i; cbn in *; [inversion H; reflexivity|apply IH; exact H].
Qed.
Lemma rmin_idx_is_rroot (ops : list fop) : ops <> [] -> is_rroot ops (rmin_idx ops).
Proof.
  intros Hne.
  set (ys := repeat tt (length ops)).
  assert (Hl : length ops <= length ys) by (unfold ys; rewrite repeat_length; lia).
  assert (Hl' : length ops = length ys) by (unfold ys; rewrite repeat_length; lia).
  rewrite (rmin_idx_root_idx ops ys Hl).
  assert (Hne' : combine ops ys <> []) by (destruct ops; [congruence|]; unfold ys; cbn; discriminate).
  destruct (root_idx_is_root (combine ops ys) Hne') as (o & y & Hn & Hb & Ha).
  set (p := root_idx (combine ops ys)) in *.
  assert (Hnth : forall i o' y', nth_error (combine ops ys) i = Some (o', y') -> nth_error ops i = Some o') by (intros; eapply nth_combine_l; eassumption).
  assert (Hnth' : forall i o', nth_error ops i = Some o' -> nth_error (combine ops ys) i = Some (o', tt)) by (intros; apply nth_combine_tt; assumption).
  exists o. split; [eapply Hnth; exact Hn|]. split.
  - intros i o' Hi Hn'. exact (Hb i o' tt Hi (Hnth' _ _ Hn')).
  - intros i o' Hi Hn'. exact (Ha i o' tt Hi (Hnth' _ _ Hn')).
Qed.

Lemma nth_error_rev {A} (l : list A) i : i < length l -> nth_error (rev l) i = nth_error l (length l - 1 - i).
Proof.
  intros Hi. destruct (nth_error l (length l - 1 - i)) as [x|] eqn:E.
  - rewrite (nth_error_nth' (rev l) x) by (rewrite rev_length; exact Hi). rewrite rev_nth by exact Hi.
    replace (length l - S i) with (length l - 1 - i) by lia. f_equal. apply nth_error_nth. exact E.
  - apply nth_error_None in E. lia.
Qed.

Lemma lowest_trailing_group (og rops0 : list fop) (d : Z) :
  og <> [] -> all_ge (d * 1000)%Z og -> head_low rops0 (d - 1) ->
  lowest_trailing (rev og ++ rops0) d 0 None = Some (length og - 1 - rmin_idx og).
Proof.
  intros Hne Hge Hlow.
  destruct (rev og) as [|o l] eqn:Erev; [apply (f_equal (@rev _)) in Erev; rewrite rev_involutive in Erev; cbn in Erev; congruence|].
  cbn [app lowest_trailing].
  assert (Hgerev : all_ge (d * 1000)%Z (o :: l)).
  { intros o' Hin. apply Hge. apply in_rev. rewrite Erev. exact Hin. }
  assert (Ho : (d * 1000 <= fprio o)%Z) by (apply Hgerev; left; reflexivity).
  destruct (Z.geb_spec (fprio o) (d * DEPTH_PRIO_STEP)) as [_|Hlt]; [|unfold DEPTH_PRIO_STEP in Hlt; lia].
  assert (Hgel : all_ge (d * 1000)%Z l) by (intros o' Hin; apply Hgerev; right; exact Hin).
  destruct (lowest_trailing_block l rops0 d 1 0 (fprio o) Hgel Hlow) as (r & Hr & Hcase).
  rewrite Hr. f_equal.
  assert (Hlen : length og = S (length l)) by (rewrite <- (rev_length og), Erev; reflexivity).
  (* the position found, read in the original order, is a rightmost minimum *)
  assert (Hroot : is_rroot og (length og - 1 - r) /\ r < length og).
  { assert (Hnth : forall i o', i < length og -> nth_error (o :: l) i = Some o' -> nth_error og (length og - 1 - i) = Some o').
    { intros i o' Hi Hn. rewrite <- Erev in Hn. rewrite nth_error_rev in Hn by exact Hi. exact Hn. }
    assert (Hnth2 : forall i o', nth_error og i = Some o' -> nth_error (o :: l) (length og - 1 - i) = Some o').
    { intros i o' Hn. assert (i < length og) by (apply nth_error_Some; congruence). rewrite <- Erev. rewrite nth_error_rev by lia.
      replace (length og - 1 - (length og - 1 - i)) with i by lia. exact Hn. }
    destruct Hcase as [[-> Hall]|(j & o' & -> & Hn & Hlt' & Hbef & Haft)].
    - split; [|lia]. exists o. split; [apply Hnth; [lia|reflexivity]|]. split.
      + intros i o' Hi Hn. pose proof (Hnth2 _ _ Hn) as H2. destruct (length og - 1 - i) eqn:E; [lia|]. cbn in H2. apply Hall. eapply nth_error_In; exact H2.
      + intros i o' Hi Hn. assert (i < length og) by (apply nth_error_Some; congruence). lia.
    - assert (Hj : j < length l) by (apply nth_error_Some; congruence).
      split; [|lia]. exists o'. split; [apply Hnth; [lia|]; replace (1 + j) with (S j) by lia; exact Hn|]. split.
      + intros i o'' Hi Hn'. pose proof (Hnth2 _ _ Hn') as H2. assert (i < length og) by (apply nth_error_Some; congruence).
        destruct (length og - 1 - i) as [|q] eqn:E; [lia|]. cbn in H2. apply (Haft q o''); [lia|exact H2].
      + intros i o'' Hi Hn'. pose proof (Hnth2 _ _ Hn') as H2. assert (i < length og) by (apply nth_error_Some; congruence).
        destruct (length og - 1 - i) as [|q] eqn:E.
        * cbn in H2. inversion H2; subst. exact Hlt'.
        * cbn in H2. apply (Hbef q o''); [lia|exact H2]. }
  destruct Hroot as [Hroot Hrlt].
  pose proof (is_rroot_unique og _ _ Hroot (rmin_idx_is_rroot og Hne)) as Heq. lia.
Qed.

Lemma update_nth_rev {A} (f : A -> A) (l r0 : list A) p : p < length l ->
  update_nth (length l - 1 - p) f (rev l ++ r0) = rev (update_nth p f l) ++ r0.
Proof.
  revert p r0. induction l as [|a l IH]; intros p r0 Hp; [cbn in Hp; lia|].
  cbn [length] in *. destruct p.
  - cbn [update_nth rev]. rewrite <- !app_assoc. cbn [app].
    replace (S (length l) - 1 - 0) with (length (rev l)) by (rewrite rev_length; lia).
    clear. induction (rev l) as [|b m IHm]; [reflexivity|]. cbn. rewrite IHm. reflexivity.
  - cbn [update_nth rev]. rewrite <- !app_assoc. cbn [app].
    replace (S (length l) - 1 - S p) with (length l - 1 - p) by lia. apply IH. lia.
Qed.
Lemma update_nth_id {A} (f : A -> A) : (forall x, f x = x) -> forall l n, update_nth n f l = l.
Proof. intros Hf. induction l as [|a l IH]; intros n; [reflexivity|]. destruct n; cbn; [rewrite Hf; reflexivity|rewrite IH; reflexivity]. Qed.
Lemma add_un_nil o : add_un [] o = o.
Proof. destruct o; reflexivity. Qed.

(* ---- shape and priority bounds of the structural image ---- *)
Lemma in_combine_exists {A B} : forall (l : list A) (ys : list B) a, length l <= length ys -> In a l -> exists b, In (a, b) (combine l ys).
Proof.
  induction l as [|x l IH]; intros ys a Hl Hin; [destruct Hin|]. destruct ys as [|y ys]; [cbn in Hl; lia|].
  destruct Hin as [->|Hin]; [exists y; left; reflexivity|]. destruct (IH ys a ltac:(cbn in Hl; lia) Hin) as [b Hb]. exists b. right. exact Hb.
Qed.
Lemma fl_atom_bounds a d : all_ge ((d + 1) * 1000)%Z (snd (fl_atom a d)) /\ shape (fl_atom a d).
Proof.
  destruct (fl_vals C0 tb vars [] (asize a)) as [Ha _]. destruct (Ha a d (le_n _)) as [Hv Hs].
  split; [|exact Hs].
  destruct (pv_bounds C0 tb vars [] Hwf_tb (asize a)) as [Hb _]. specialize (Hb a d (le_n _)). rewrite <- Hv in Hb.
  unfold shape in Hs. destruct (fl_atom a d) as [nodes ops]. cbn [fst snd] in *. destruct nodes as [|n0 nt]; [cbn in Hs; lia|].
  unfold vals_of in Hb. cbn [fst snd] in Hb. intros o Hin.
  assert (Hlen : length ops <= length (map (nval C0 []) nt)) by (rewrite map_length; cbn in Hs; lia).
  destruct (in_combine_exists ops (map (nval C0 []) nt) o Hlen Hin) as [y Hy]. exact (Hb o y Hy).
Qed.
Lemma fl_rest_bounds l d : all_ge (d * 1000)%Z (snd (fl_rest l d)) /\ length (fst (fl_rest l d)) = length (snd (fl_rest l d)).
Proof.
  destruct (fl_vals C0 tb vars [] (rsize l)) as [_ Hr]. destruct (Hr l d (le_n _)) as [Hv Hs].
  split; [|exact Hs].
  destruct (pv_bounds C0 tb vars [] Hwf_tb (rsize l)) as [_ Hb]. specialize (Hb l d (le_n _)). rewrite <- Hv in Hb.
  intros o Hin. assert (Hlen : length (snd (fl_rest l d)) <= length (map (nval C0 []) (fst (fl_rest l d)))) by (rewrite map_length; lia).
  destruct (in_combine_exists (snd (fl_rest l d)) (map (nval C0 []) (fst (fl_rest l d))) o Hlen Hin) as [y Hy]. exact (Hb o y Hy).
Qed.

(* all variables of a tree are in the variable list *)
Fixpoint vars_in_atom (a : atom (D:=D)) : Prop :=
  match a with
  | ALeaf _ (LVar x) => exists i, index_of x vars 0 = Some i
  | ALeaf _ (LNum _) => True
  | AGroup _ a0 rest => vars_in_atom a0 /\ (fix go (l : list (nat * atom (D:=D))) : Prop := match l with [] => True | (_, b) :: tl => vars_in_atom b /\ go tl end) rest
  end.
Fixpoint vars_in_rest (l : list (nat * atom (D:=D))) : Prop := match l with [] => True | (_, b) :: tl => vars_in_atom b /\ vars_in_rest tl end.
Lemma vars_in_group us a0 rest : vars_in_atom (AGroup us a0 rest) <-> vars_in_atom a0 /\ vars_in_rest rest.
Proof.
  cbn [vars_in_atom].
  assert (E : (fix go (l : list (nat * atom (D:=D))) : Prop := match l with [] => True | (_, b) :: tl => vars_in_atom b /\ go tl end) rest <-> vars_in_rest rest).
  { induction rest as [|[o b] tl IH]; [reflexivity|]. cbn [vars_in_rest]. rewrite IH. reflexivity. }
  rewrite E. reflexivity.
Qed.
Lemma wf_group us (a0 : atom (D:=D)) rest : wf_atom tb (AGroup us a0 rest) = forallb (is_un tb) us && wf_atom tb a0 && wf_rest tb rest.
Proof.
  cbn [wf_atom].
  replace ((fix go (l : list (nat * atom (D:=D))) : bool := match l with [] => true | (o, b) :: tl => is_bin tb o && wf_atom tb b && go tl end) rest)
    with (wf_rest tb rest); [reflexivity|].
  induction rest as [|[o b] tl IH]; [reflexivity|]. cbn [wf_rest]. rewrite IH. reflexivity.
Qed.

Definition ustack_ok (ustack : list (list (token D) * Z)) (d : Z) : Prop := Forall (fun e => (snd e < d)%Z) ustack.
Lemma head_low_mono rops d d' : (d <= d')%Z -> head_low rops d -> head_low rops d'.
Proof. intros H. destruct rops; [trivial|]. cbn. lia. Qed.

(* ---- the simulation ---- *)
Theorem walk_sim : forall n,
  (forall a, asize a <= n -> wf_atom tb a = true -> vars_in_atom a ->
     forall d rp0 tail rnodes rops ustack fuel, lctx rp0 -> head_low rops d -> ustack_ok ustack d ->
     walk (length (flatten_atom a) + fuel) rp0 (flatten_atom a ++ tail) vars rnodes rops d ustack
     = walk fuel (rev (flatten_atom a) ++ rp0) tail vars (rev (fst (fl_atom a d)) ++ rnodes) (rev (snd (fl_atom a d)) ++ rops) d ustack) /\
  (forall l, rsize l <= n -> wf_rest tb l = true -> vars_in_rest l ->
     forall d t rp tail rnodes rops ustack fuel, atom_end t = true -> ustack_ok ustack d ->
     walk (length (flatten_rest l) + fuel) (t :: rp) (flatten_rest l ++ tail) vars rnodes rops d ustack
     = walk fuel (rev (flatten_rest l) ++ t :: rp) tail vars (rev (fst (fl_rest l d)) ++ rnodes) (rev (snd (fl_rest l d)) ++ rops) d ustack).
Proof.
  induction n as [|n [IHa IHr]].
  - split; [intros a H; pose proof (asize_pos a); lia|].
    intros l H _ _ d t rp tail rnodes rops ustack fuel _ _. destruct l as [|[o b] tl]; [reflexivity|]. cbn in H. pose proof (asize_pos b). lia.
  - assert (Hatom : forall a, asize a <= S n -> wf_atom tb a = true -> vars_in_atom a ->
       forall d rp0 tail rnodes rops ustack fuel, lctx rp0 -> head_low rops d -> ustack_ok ustack d ->
       walk (length (flatten_atom a) + fuel) rp0 (flatten_atom a ++ tail) vars rnodes rops d ustack
       = walk fuel (rev (flatten_atom a) ++ rp0) tail vars (rev (fst (fl_atom a d)) ++ rnodes) (rev (snd (fl_atom a d)) ++ rops) d ustack).
    { intros a Hs Hwf Hv d rp0 tail rnodes rops ustack fuel Hc Hlow Hus.
      destruct a as [us k|us a0 rest].
      - (* a leaf with its unary operators *)
        cbn [wf_atom] in Hwf.
        assert (Ek : flatten_atom (ALeaf us k) = map TOp us ++ [match k with LNum v => TNum v | LVar x => TVar x end]) by (destruct k; reflexivity).
        rewrite Ek, app_length. cbn [length]. rewrite <- !app_assoc. cbn [app].
        replace (length (map TOp us) + 1 + fuel) with (length us + S fuel) by (rewrite map_length; lia).
        rewrite (walk_unaries_leaf us [] rp0 _ tail rnodes rops d ustack (S fuel) Hc Hwf eq_refl) by (destruct k; reflexivity).
        rewrite app_nil_r. rewrite rev_app_distr. cbn [rev app]. rewrite <- map_rev.
        destruct k as [v|x]; cbn [Flat.walk].
        + rewrite (create_node_spec (rev us) rp0 (FNum v) Hc) by (rewrite forallb_forall in *; intros u Hu; apply Hwf; apply in_rev; exact Hu).
          cbn [bind]. rewrite rev_involutive. reflexivity.
        + cbn [vars_in_atom] in Hv. destruct Hv as [i Hi]. unfold var_index. rewrite Hi. cbn [bind].
          rewrite (create_node_spec (rev us) rp0 (FVar i) Hc) by (rewrite forallb_forall in *; intros u Hu; apply Hwf; apply in_rev; exact Hu).
          cbn [bind]. rewrite rev_involutive. cbn [FlStruct.fl_atom fst snd rev app]. unfold var_idx. rewrite Hi. reflexivity.
      - (* a parenthesis group *)
        rewrite wf_group in Hwf. apply andb_prop in Hwf. destruct Hwf as [Hwf Hwr]. apply andb_prop in Hwf. destruct Hwf as [Hwu Hw0].
        destruct (proj1 (vars_in_group us a0 rest) Hv) as [Hv0 Hvr].
        rewrite asize_group in Hs.
        rewrite flatten_atom_group. rewrite fl_atom_group.
        set (rp1 := map TOp (rev us) ++ rp0).
        set (ustack1 := match us with [] => ustack | _ => (rp1, d) :: ustack end).
        (* 1. the unary operators, 2. the opening parenthesis *)
        rewrite !app_length. cbn [length]. rewrite !app_length. cbn [length]. rewrite <- !app_assoc. cbn [app]. rewrite <- !app_assoc. cbn [app].
        replace (length (map TOp us) + S (length (flatten_atom a0) + (length (flatten_rest rest) + 1)) + fuel)
          with (length us + S (length (flatten_atom a0) + (length (flatten_rest rest) + S fuel))) by (rewrite map_length; lia).
        rewrite (walk_unaries_open us [] rp0 _ rnodes rops d ustack _ Hc Hwu eq_refl). rewrite app_nil_r. fold rp1. fold ustack1.
        cbn [Flat.walk].
        (* 3. the first atom of the content *)
        assert (Hus1 : ustack_ok ustack1 (d + 1)).
        { unfold ustack1. destruct us; [eapply Forall_impl; [|exact Hus]; cbn; intros; lia|].
          constructor; [cbn; lia|eapply Forall_impl; [|exact Hus]; cbn; intros; lia]. }
        rewrite (IHa a0 ltac:(lia) Hw0 Hv0 (d + 1)%Z (TOpen :: rp1) _ rnodes rops ustack1 _ (lctx_open rp1) (head_low_mono rops d (d + 1)%Z ltac:(lia) Hlow) Hus1).
        (* 4. the rest of the content *)
        destruct (flatten_atom_end a0) as (pre & t & Epre & Hend).
        assert (Erev : rev (flatten_atom a0) ++ TOpen :: rp1 = t :: (rev pre ++ TOpen :: rp1)).
        { rewrite Epre, rev_app_distr. reflexivity. }
        rewrite Erev.
        rewrite (IHr rest ltac:(lia) Hwr Hvr (d + 1)%Z t _ _ _ _ ustack1 _ Hend Hus1).
        rewrite <- Erev.
        (* 5. the closing parenthesis *)
        destruct (fl_atom a0 (d + 1)) as [n0 o0] eqn:E0. destruct (fl_rest rest (d + 1)) as [nr or] eqn:Er. cbn [fst snd].
        unfold FlStruct.fl_chain. cbn [fst snd]. rewrite E0, Er.
        destruct (fl_atom_bounds a0 (d + 1)) as [Hb0 Hs0]. rewrite E0 in Hb0, Hs0. cbn [fst snd] in Hb0. unfold shape in Hs0. cbn [fst snd] in Hs0.
        destruct (fl_rest_bounds rest (d + 1)) as [Hbr Hlr]. rewrite Er in Hbr, Hlr. cbn [fst snd] in Hbr, Hlr.
        set (nc := n0 ++ nr). set (oc := o0 ++ or).
        assert (Enodes : rev nr ++ rev n0 ++ rnodes = rev nc ++ rnodes) by (unfold nc; rewrite rev_app_distr, <- app_assoc; reflexivity).
        assert (Eops : rev or ++ rev o0 ++ rops = rev oc ++ rops) by (unfold oc; rewrite rev_app_distr, <- app_assoc; reflexivity).
        rewrite Enodes, Eops.
        assert (Hgec : all_ge ((d + 1) * 1000)%Z oc).
        { intros o Hin. unfold oc in Hin. apply in_app_or in Hin. destruct Hin as [Hin|Hin]; [specialize (Hb0 o Hin); lia|exact (Hbr o Hin)]. }
        assert (Hlow' : head_low rops (d + 1 - 1)) by (replace (d + 1 - 1)%Z with d by lia; exact Hlow).
        cbn [Flat.walk].
        assert (Epop : match ustack1 with
                       | (urp, dd) :: tl => if (dd =? d + 1 - 1)%Z then Some (urp, tl) else None
                       | [] => None end = match us with [] => None | _ => Some (rp1, ustack) end).
        { unfold ustack1. destruct us as [|u us'].
          - destruct ustack as [|[urp dd] tl]; [reflexivity|]. inversion Hus; subst. cbn in H1.
            destruct (Z.eqb_spec dd (d + 1 - 1)); [lia|reflexivity].
          - destruct (Z.eqb_spec d (d + 1 - 1)); [reflexivity|lia]. }
        rewrite Epop.
        assert (Esub : subsequent_unaries tb rp1 [] = Ok us).
        { unfold rp1. rewrite (subsequent_unaries_spec (rev us) rp0 [] Hc) by (rewrite forallb_forall in *; intros u Hu; apply Hwu; apply in_rev; exact Hu).
          rewrite rev_involutive, app_nil_r. reflexivity. }
        replace (d + 1 - 1)%Z with d by lia.
        (* final token list *)
        assert (Erp : TClose :: rev (flatten_rest rest) ++ rev (flatten_atom a0) ++ TOpen :: rp1
                      = rev (map TOp us ++ TOpen :: flatten_atom a0 ++ flatten_rest rest ++ [TClose]) ++ rp0).
        { unfold rp1. rewrite !rev_app_distr. cbn [rev app]. rewrite !rev_app_distr. cbn [rev app]. rewrite <- !app_assoc. cbn [app].
          rewrite map_rev. reflexivity. }
        destruct oc as [|oh ot] eqn:Eoc.
        + (* no operator in the group: the unary operators go to its only node *)
          assert (Hnc : exists nn, nc = [nn]).
          { unfold nc, oc in *. apply app_eq_nil in Eoc. destruct Eoc as [-> ->]. cbn in Hs0, Hlr.
            destruct n0 as [|nn [|? ?]]; cbn in Hs0; try lia. destruct nr; [|cbn in Hlr; lia]. exists nn. reflexivity. }
          destruct Hnc as [nn Hnn]. rewrite Hnn. cbn [rev app].
          rewrite (lowest_trailing_stop rops (d + 1) 0 None Hlow'). cbn [option_map].
          unfold attach. cbn [fst snd].
          destruct us as [|u us'] eqn:Eus.
          * cbn [app rev]. rewrite Erp. destruct nn; reflexivity.
          * rewrite <- Eus in *. rewrite Esub. cbn [bind]. cbn [rev app]. rewrite Erp. reflexivity.
        + (* the unary operators go to the operator applied last *)
          rewrite <- Eoc in *. assert (Hne : oc <> []) by (rewrite Eoc; discriminate).
          rewrite (lowest_trailing_group oc rops (d + 1) Hne Hgec Hlow').
          assert (Hnc : nc <> []) by (unfold nc; destruct n0; [cbn in Hs0; lia|discriminate]).
          destruct (rev nc ++ rnodes) as [|nh ntl] eqn:Ern; [exfalso; destruct (rev nc) eqn:E; [apply (f_equal (@rev _)) in E; rewrite rev_involutive in E; cbn in E; congruence|discriminate]|].
          rewrite <- Ern.
          assert (Hp : rmin_idx oc < length oc).
          { destruct (rmin_idx_is_rroot oc Hne) as (o & Hn & _). apply nth_error_Some. congruence. }
          unfold attach. cbn [fst snd]. destruct oc as [|oh' ot'] eqn:Eoc2; [congruence|]. rewrite <- Eoc2 in *.
          destruct us as [|u us'] eqn:Eus.
          * rewrite (update_nth_id (add_un []) add_un_nil). rewrite Erp. reflexivity.
          * rewrite <- Eus in *. rewrite Esub. cbn [bind].
            rewrite (update_nth_rev (add_un us) oc rops (rmin_idx oc) Hp). rewrite Erp. reflexivity. }
    split; [exact Hatom|].
    intros l Hs Hwf Hv d t rp tail rnodes rops ustack fuel Hend Hus.
    destruct l as [|[o b] tl]; [reflexivity|].
    cbn [rsize] in Hs. cbn [wf_rest] in Hwf. apply andb_prop in Hwf. destruct Hwf as [Hwf Hwt]. apply andb_prop in Hwf. destruct Hwf as [Hbo Hwb].
    cbn [vars_in_rest] in Hv. destruct Hv as [Hvb Hvt]. pose proof (asize_pos b).
    cbn [flatten_rest fl_rest]. cbn [length app]. rewrite app_length. rewrite <- app_assoc.
    change (S (length (flatten_atom b) + length (flatten_rest tl)) + fuel) with (S (length (flatten_atom b) + length (flatten_rest tl) + fuel)).
    cbn [Flat.walk]. cbn [hd_error]. rewrite (isb_binary o t Hbo Hend). cbn [bind].
    change (op_of tb o) with (nth o tb {| repr := []; obin := None; ounary := false; oconst := false |}).
    unfold is_bin in Hbo. destruct (obin (nth o tb {| repr := []; obin := None; ounary := false; oconst := false |})) as [bs|] eqn:Eb; [|discriminate].
    assert (Emk : {| fprio := (prio bs + d * DEPTH_PRIO_STEP)%Z; fidx := o; fcomm := comm bs; fun_ := [] |} = mk_op tb o d).
    { unfold mk_op, prio_of, comm_of. rewrite Eb. reflexivity. }
    rewrite Emk.
    replace (length (flatten_atom b) + length (flatten_rest tl) + fuel) with (length (flatten_atom b) + (length (flatten_rest tl) + fuel)) by lia.
    assert (Hlowb : head_low (mk_op tb o d :: rops) d).
    { cbn. pose proof (prio_of_range tb Hwf_tb o). unfold DEPTH_PRIO_STEP. lia. }
    rewrite (Hatom b ltac:(lia) Hwb Hvb d (TOp o :: t :: rp) _ rnodes _ ustack _ (lctx_bin o t rp ltac:(unfold is_bin; rewrite Eb; reflexivity) Hend) Hlowb Hus).
    destruct (flatten_atom_end b) as (pre & t' & Epre & Hend').
    assert (Erev : rev (flatten_atom b) ++ TOp o :: t :: rp = t' :: (rev pre ++ TOp o :: t :: rp)) by (rewrite Epre, rev_app_distr; reflexivity).
    rewrite Erev.
    rewrite (IHr tl ltac:(lia) Hwt Hvt d t' _ tail _ _ ustack fuel Hend' Hus).
    rewrite <- Erev.
    destruct (fl_atom b d) as [nb ob]. destruct (fl_rest tl d) as [nt ot]. cbn [fst snd].
    f_equal.
    + cbn [rev]. rewrite rev_app_distr. rewrite <- !app_assoc. reflexivity.
    + rewrite rev_app_distr, <- app_assoc. reflexivity.
    + cbn [rev]. rewrite rev_app_distr. rewrite <- !app_assoc. reflexivity.
Qed.
End WalkSim.
