(* C11 — substitution replaces variables simultaneously and keeps the rest.  Property theorems only. *)
From Coq Require Import List Arith ZArith.
Import ListNotations.
From Exmex.Model Require Import Base EvalBinary Lexer Flat Deep Convert.
From Exmex.Spec Require Import RefSem.
From Exmex.Proofs Require Import Vars DeepSem DeepCompile DeepVars DeepSubs DeepParse C03Main C11Main ConvertCompose FlatCalc.
Open Scope nat_scope.

(* Vocabulary (Proofs/DeepSubs.v, Proofs/C11Main.v):
   dindexed okop V e — e is well formed (operand counts, flags) and every variable node (i, x) has i = position of x in V,
                          V being e's variable list;
   dclosed okop S r  — r is well formed and mentions only names in S;
   env_of V vals x      — the value of the name x under the assignment vals of the list V;
   senv C sub rho x     — rho x, unless sub x = Some r: then the named denotation of r under rho (NOT re-substituted);
   snames sub e         — the names substitution leaves: for every variable node x of e (nested), x itself if it is not
                          replaced, otherwise the variable list of its replacement. *)

(* 1. DeepEx::subs on every index-consistent deep expression e, for every partial map from names to replacement
   expressions (each well formed and closed over its own variable list; a replacement may mention the replaced variable
   itself): it succeeds; the variable list of the result is the sorted, duplicate-free union snames; and at EVERY
   assignment vals' of that list the result evaluates, modulo R, to what the ORIGINAL evaluates to at the assignment that
   binds each of its variables x to senv x — the value of its replacement under vals', or x's own value. *)
Theorem C11_substitution_is_simultaneous :
  forall (D : Type) (C : carrier D) (R : D -> D -> Prop),
  (forall a, R a a) -> (forall a b, R a b -> R b a) -> (forall a b c, R a b -> R b c -> R a c) ->
  (forall k a a' b b', R a a' -> R b b' -> R (binf C k a b) (binf C k a' b')) ->
  (forall k a a', R a a' -> R (unf C k a) (unf C k a')) ->
  forall (okop : dbop -> Prop),
  (forall o, okop o -> bcomm o = true ->
     forall a b c, R (binf C (bidx o) (binf C (bidx o) a b) c) (binf C (bidx o) a (binf C (bidx o) b c))) ->
  forall (sub : str -> option (deepex D)),
  (forall x r, sub x = Some r -> dclosed okop (dvars r) r) ->
  forall e : deepex D, dindexed okop (dvars e) e ->
  exists e', subs C sub e = Ok e' /\ dvars e' = sort_strs (snames sub e) /\
    forall vals', length vals' = length (dvars e') ->
    exists v w, eval_deep C e' vals' = Ok v /\
                eval_deep C e (map (senv C sub (env_of C (dvars e') vals')) (dvars e)) = Ok w /\ R v w.
Proof. exact @subs_eval_original. Qed.

(* 2. the value a replaced variable is bound to is the replacement evaluated at the current values of ITS variables *)
Theorem C11_replacement_evaluated_on_its_own_variables :
  forall (D : Type) (C : carrier D) (R : D -> D -> Prop),
  (forall a, R a a) -> (forall a b, R a b -> R b a) -> (forall a b c, R a b -> R b c -> R a c) ->
  (forall k a a' b b', R a a' -> R b b' -> R (binf C k a b) (binf C k a' b')) ->
  (forall k a a', R a a' -> R (unf C k a) (unf C k a')) ->
  forall (okop : dbop -> Prop),
  (forall o, okop o -> bcomm o = true ->
     forall a b c, R (binf C (bidx o) (binf C (bidx o) a b) c) (binf C (bidx o) a (binf C (bidx o) b c))) ->
  forall (sub : str -> option (deepex D)) (x : str) (r : deepex D) (all : list str) (vals' : list D),
  sub x = Some r -> dindexed okop (dvars r) r -> incl (dvars r) all ->
  exists w, eval_deep C r (map (env_of C all vals') (dvars r)) = Ok w /\ R w (senv C sub (env_of C all vals') x).
Proof. exact @replacement_value. Qed.

(* 3. for ANY structurally well-formed expression (also one whose indices are stale): the result is index-consistent
   with its new list and denotes, by NAME, the original under the substituted environment; with nothing replaced
   (sub = fun _ => None, senv rho = rho) it denotes the same function of the named variables *)
Theorem C11_named_denotation :
  forall (D : Type) (C : carrier D) (R : D -> D -> Prop),
  (forall a, R a a) -> (forall a b, R a b -> R b a) -> (forall a b c, R a b -> R b c -> R a c) ->
  (forall k a a' b b', R a a' -> R b b' -> R (binf C k a b) (binf C k a' b')) ->
  (forall k a a', R a a' -> R (unf C k a) (unf C k a')) ->
  forall (okop : dbop -> Prop),
  (forall o, okop o -> bcomm o = true ->
     forall a b c, R (binf C (bidx o) (binf C (bidx o) a b) c) (binf C (bidx o) a (binf C (bidx o) b c))) ->
  forall (sub : str -> option (deepex D)),
  (forall x r, sub x = Some r -> dclosed okop (dvars r) r) ->
  forall e : deepex D, dstruct okop e ->
  exists e', subs C sub e = Ok e' /\ dvars e' = sort_strs (snames sub e) /\
    forall vals', length vals' = length (dvars e') ->
    exists v, eval_deep C e' vals' = Ok v /\ R v (dden C (nlook (senv C sub (env_of C (dvars e') vals'))) e).
Proof. exact @subs_eval. Qed.

(* 4. the expressions the deep parser builds from well-formed trees are index-consistent, so 1 applies to them *)
Theorem C11_parsed_expressions_qualify :
  forall (D : Type) (C : carrier D) (tb : optable) (R : D -> D -> Prop),
  (forall a, R a a) -> (forall a b, R a b -> R b a) -> (forall a b c, R a b -> R b c -> R a c) ->
  (forall k a a' b b', R a a' -> R b b' -> R (binf C k a b) (binf C k a' b')) ->
  (forall k a a', R a a' -> R (unf C k a) (unf C k a')) ->
  (forall o, comm_of tb o = true -> forall a b c, R (binf C o (binf C o a b) c) (binf C o a (binf C o b c))) ->
  forall (c : chain (D:=D)), wf_chain tb c = true ->
  exists e,
    dparse C tb (S (length (flatten c))) None (flatten c) (find_parsed_vars (flatten c)) [] [] [] = Ok (e, []) /\
    dindexed (DeepParse.flagged tb) (dvars e) e.
Proof.
  intros D C tb R Hr Hs Ht Hb Hu Ha c Hwf.
  set (vars := find_parsed_vars (flatten c)).
  destruct (deep_parse_is_reference_wf C tb R Hr Hs Ht Hb Hu Ha c (map (fun _ => dflt C) vars) Hwf ltac:(apply map_length))
    as (e & v & H1 & H2 & _ & _ & H5).
  exists e. split; [exact H1|]. fold vars in H2, H5. rewrite H2. split; [|exact H2].
  revert H5. apply dwf_weaken; [intros i x H; exact H|]. intros w [Hl _]. unfold short_list. rewrite map_length in Hl. exact Hl.
Qed.

(* 5. Calculate::subs on FLAT expressions (convert the expression and every replacement to the deep form, substitute,
   convert back): for flat expressions the conversions accept, and replacements that are such expressions, the pipeline
   succeeds, the result is again such an expression over the sorted union of names, and its value at every assignment is
   the original evaluated with every replaced variable bound to the denotation of its (converted) replacement. *)
Theorem C11_flat_substitution :
  forall (D : Type) (C : carrier D) (tb : optable), wf_table tb = true ->
  forall (R : D -> D -> Prop),
  (forall a, R a a) -> (forall a b, R a b -> R b a) -> (forall a b c, R a b -> R b c -> R a c) ->
  (forall k a a' b b', R a a' -> R b b' -> R (binf C k a b) (binf C k a' b')) ->
  (forall k a a', R a a' -> R (unf C k a) (unf C k a')) ->
  (forall k, comm_of tb k = true -> forall a b c, R (binf C k (binf C k a b) c) (binf C k a (binf C k b c))) ->
  forall (fa : flatex D) (subf : str -> option (flatex D)),
  flat_ok C tb fa -> (forall x f, subf x = Some f -> flat_ok C tb f) ->
  exists da r fx,
    to_deepex C tb true fa = Ok da /\ subs C (lift_sub C tb subf) da = Ok r /\ from_deepex C tb true r = Ok fx /\
    flat_ok C tb fx /\ fvars fx = sort_strs (snames (lift_sub C tb subf) da) /\
    forall vals', length vals' = length (fvars fx) ->
    exists v w, eval_flat C fx vals' = Ok v /\
                eval_flat C fa (map (senv C (lift_sub C tb subf) (env_of C (fvars fx) vals')) (fvars fa)) = Ok w /\ R v w.
Proof. exact @flat_subs. Qed.

(* non-vacuity: in x*y+2 replace x by y+x (self-referential) and y by 3, simultaneously *)
Definition ex_tb : optable :=
  [ {| repr := [43]%N; obin := Some {| prio := 0; comm := true |}; ounary := true; oconst := false |};
    {| repr := [42]%N; obin := Some {| prio := 2; comm := true |}; ounary := false; oconst := false |} ].
Definition X : str := [120%N]. Definition Y : str := [121%N].
Definition ex_e : chain (D:=term) := (ALeaf [] (LVar X), [(1, ALeaf [] (LVar Y)); (0, ALeaf [] (LNum (Lit [50%N])))]).
Definition ex_rx : chain (D:=term) := (ALeaf [] (LVar Y), [(0, ALeaf [] (LVar X))]).
Definition ex_ry : chain (D:=term) := (ALeaf [] (LNum (Lit [51%N])), []).
Definition pd (c : chain (D:=term)) : res (deepex term) :=
  do r <- dparse term_carrier ex_tb (S (length (flatten c))) None (flatten c) (find_parsed_vars (flatten c)) [] [] []; Ok (fst r).
Example C11_example :
  (do e <- pd ex_e; do rx <- pd ex_rx; do ry <- pd ex_ry;
   do e' <- subs term_carrier (fun n => if str_eqb n X then Some rx else if str_eqb n Y then Some ry else None) e;
   do v <- eval_deep term_carrier e' [V 0; V 1];
   Ok (dvars e', v))
  = Ok ([X; Y], Bin 0 (Bin 1 (Bin 0 (V 1) (V 0)) (Lit [51%N])) (Lit [50%N])).
Proof. vm_compute. reflexivity. Qed.

(* Outside these theorems (covered by the correspondence of this check): unparse of substituted expressions. *)
Print Assumptions C11_substitution_is_simultaneous.
Print Assumptions C11_replacement_evaluated_on_its_own_variables.
Print Assumptions C11_named_denotation.
Print Assumptions C11_parsed_expressions_qualify.
Print Assumptions C11_flat_substitution.
