(* Proofs/ConvertCompose.v — the two conversions compose: what to_deepex returns is accepted by from_deepex and vice
   versa, with the same variable list and the same values, so any finite sequence of conversions preserves both. *)
From Coq Require Import List Arith Lia Bool ZArith.
Import ListNotations.
From Exmex.Model Require Import Base EvalBinary Lexer Flat Deep Convert.
From Exmex.Spec Require Import RefSem.
From Exmex.Proofs Require Import FlatPev CompileCorrect Vars WalkOps DeepSem DeepSubs C11Main DeepParse FlattenSem ConvertMain ToDeep.
Open Scope nat_scope.

Section ConvertCompose.
Context {D : Type}.
Variable C : carrier D.
Variable tb : optable.
Hypothesis Hwf_tb : wf_table tb = true.
Variable R : D -> D -> Prop.
Hypothesis R_refl : forall a, R a a.
Hypothesis R_sym : forall a b, R a b -> R b a.
Hypothesis R_trans : forall a b c, R a b -> R b c -> R a c.
Hypothesis R_bin : forall k a a' b b', R a a' -> R b b' -> R (binf C k a b) (binf C k a' b').
Hypothesis R_un : forall k a a', R a a' -> R (unf C k a) (unf C k a').
Hypothesis table_assoc : forall k, comm_of tb k = true -> forall a b c, R (binf C k (binf C k a b) c) (binf C k a (binf C k b c)).

(* a flat expression the conversions accept: scheduled by prioritized_indices_flat, duplicate-free variable list,
   variable indices in range, operators from the table *)
Definition flat_ok (fx : flatex D) : Prop :=
  flat_wf fx /\ NoDup (fvars fx) /\ in_range (map (fun _ => dflt C) (fvars fx)) (fnodes fx) /\ ops_of_table tb (fops fx).
(* a deep expression the conversions accept: index-consistent with its duplicate-free variable list, operators from the table *)
Definition deep_ok (e : deepex D) : Prop := dindexed (from_table tb) (dvars e) e /\ NoDup (dvars e).

Lemma in_range_len (vals vals' : list D) (nodes : list (fnode D)) : length vals = length vals' -> in_range vals nodes -> in_range vals' nodes.
Proof. intros Hl H n i Hn Hk. rewrite <- Hl. exact (H n i Hn Hk). Qed.

Lemma deep_ok_dwf e (vals : list D) : deep_ok e -> length vals = length (dvars e) ->
  dwf (from_table tb) (okvar_lt vals) (short_list (dvars e)) e /\ (forall v, short_list (dvars e) v -> length v <= length vals).
Proof.
  intros [[Hw _] _] Hl. split; [|intros v Hv; unfold short_list in Hv; lia].
  revert Hw. apply dwf_weaken; [|intros v H; exact H]. intros i x Hi. unfold okvar_lt. rewrite Hl. exact (index_of_bound x _ i Hi).
Qed.

Theorem flat_to_deep (fx : flatex D) : flat_ok fx ->
  exists e, to_deepex C tb true fx = Ok e /\ deep_ok e /\ dvars e = fvars fx /\
    forall vals, length vals = length (fvars fx) ->
    exists v w, eval_flat C fx vals = Ok v /\ eval_deep C e vals = Ok w /\ R w v.
Proof.
  intros (Hwf & ND & Hr & Hops).
  destruct (to_deepex_ok C tb R R_refl R_sym R_trans R_bin R_un table_assoc (map (fun _ => dflt C) (fvars fx)) fx Hwf ND Hr Hops ltac:(apply map_length))
    as (e & _ & _ & Ee & Hi & _).
  exists e. split; [exact Ee|]. destruct Hi as [Hw Hv]. split; [split; [split; [rewrite Hv; exact Hw|reflexivity]|rewrite Hv; exact ND]|]. split; [exact Hv|].
  intros vals Hl.
  destruct (to_deepex_ok C tb R R_refl R_sym R_trans R_bin R_un table_assoc vals fx Hwf ND Hr Hops Hl) as (e' & v & w & Ee' & _ & Ev & Ew & HR).
  rewrite Ee in Ee'. inversion Ee'; subst e'. exists v, w. auto.
Qed.

Theorem deep_to_flat (e : deepex D) : deep_ok e ->
  exists fx, from_deepex C tb true e = Ok fx /\ flat_ok fx /\ fvars fx = dvars e /\
    forall vals, length vals = length (dvars e) ->
    exists v w, eval_flat C fx vals = Ok v /\ eval_deep C e vals = Ok w /\ R v w.
Proof.
  intros Hok. set (vals0 := map (fun _ : str => dflt C) (dvars e)).
  destruct (deep_ok_dwf e vals0 Hok ltac:(apply map_length)) as [Hw0 Hl0].
  destruct (from_deepex_ok C tb Hwf_tb R R_refl R_sym R_trans R_bin R_un table_assoc vals0 _ Hl0 e Hw0 ltac:(symmetry; apply map_length))
    as (fx & _ & _ & Ef & Hwf & Hv & Hops & Hr & _).
  exists fx. split; [exact Ef|]. split; [|split; [exact Hv|]].
  - split; [exact Hwf|]. split; [rewrite Hv; exact (proj2 Hok)|]. split; [rewrite Hv; exact Hr|exact Hops].
  - intros vals Hl. destruct (deep_ok_dwf e vals Hok Hl) as [Hw Hll].
    destruct (from_deepex_ok C tb Hwf_tb R R_refl R_sym R_trans R_bin R_un table_assoc vals _ Hll e Hw ltac:(symmetry; exact Hl))
      as (fx' & v & w & Ef' & _ & _ & _ & _ & Ev & Ew & HR).
    rewrite Ef in Ef'. inversion Ef'; subst fx'. exists v, w. auto.
Qed.

(* whatever the flat parser builds from ANY token list it accepts qualifies *)
Theorem parsed_flat_ok text (ts : list (token D)) (fx : flatex D) :
  make_expression tb true text ts (find_parsed_vars ts) = Ok fx -> flat_ok fx.
Proof.
  intros H. destruct (make_expression_shape tb true text ts _ fx H) as (H1 & H2 & H3 & _ & H5 & H6).
  split; [split; assumption|]. split; [rewrite H3; apply find_parsed_vars_spec|]. split.
  - intros n i Hn Hk. rewrite map_length, H3. exact (H6 n Hn i Hk).
  - intros o Ho. destruct (H5 o Ho) as [Hc Hb]. unfold table_entry_flag. unfold is_bin in Hb. unfold comm_of in Hc.
    destruct (nth_error tb (fidx o)) as [spec|] eqn:En.
    + rewrite (nth_error_nth _ _ _ En) in *. destruct (obin spec) as [bs|] eqn:Eb; [|discriminate]. exists spec, bs. auto.
    + rewrite (nth_overflow tb _ (proj1 (nth_error_None tb (fidx o)) En)) in Hb. discriminate.
Qed.

(* any number of round trips *)
Fixpoint round_trips (n : nat) (fx : flatex D) : res (flatex D) :=
  match n with O => Ok fx | S m => do e <- to_deepex C tb true fx; do fx' <- from_deepex C tb true e; round_trips m fx' end.
Theorem round_trips_ok : forall n fx, flat_ok fx ->
  exists fx', round_trips n fx = Ok fx' /\ flat_ok fx' /\ fvars fx' = fvars fx /\
    forall vals, length vals = length (fvars fx) ->
    exists v v', eval_flat C fx vals = Ok v /\ eval_flat C fx' vals = Ok v' /\ R v' v.
Proof.
  induction n as [|n IH]; intros fx Hok.
  - exists fx. split; [reflexivity|]. split; [exact Hok|]. split; [reflexivity|]. intros vals Hl.
    destruct (flat_to_deep fx Hok) as (e & _ & _ & _ & He). destruct (He vals Hl) as (v & _ & Ev & _). exists v, v. auto.
  - destruct (flat_to_deep fx Hok) as (e & Ee & Hoke & Hve & Heq).
    destruct (deep_to_flat e Hoke) as (fx1 & Ef & Hok1 & Hv1 & Heq1).
    destruct (IH fx1 Hok1) as (fx' & Er & Hok' & Hv' & Heq').
    exists fx'. cbn [round_trips]. rewrite Ee. cbn [bind]. rewrite Ef. cbn [bind]. split; [exact Er|]. split; [exact Hok'|].
    split; [congruence|]. intros vals Hl.
    destruct (Heq vals Hl) as (v & w & Ev & Ew & R1).
    destruct (Heq1 vals ltac:(congruence)) as (v1 & w1 & Ev1 & Ew1 & R2).
    destruct (Heq' vals ltac:(congruence)) as (v2 & v' & Ev2 & Ev' & R3).
    exists v, v'. split; [exact Ev|]. split; [exact Ev'|].
    assert (w1 = w) by congruence. assert (v2 = v1) by congruence. subst.
    eapply R_trans; [exact R3|]. eapply R_trans; [exact R2|exact R1].
Qed.
End ConvertCompose.
