(* Proofs/DeepTotal.v — the deep parser never panics (C06): for EVERY token list that passes the precondition check
   (and hence for every text) DeepEx::parse returns an expression or an error value; what it returns is a well-formed
   deep expression (so compile, evaluation with enough values, conversion do not panic on it). *)
From Coq Require Import List Arith Lia Bool ZArith.
Import ListNotations.
From Exmex.Model Require Import Base EvalBinary Lexer Flat Deep.
From Exmex.Spec Require Import RefSem.
From Exmex.Proofs Require Import Vars Totality DeepSem DeepCompile DeepSubs DeepParse FlatTotal.
Open Scope nat_scope.

Section DeepTotal.
Context {D : Type}.
Variable C : carrier D.
Variable tb : optable.
Variable vars : list str.
Let vals : list D := map (fun _ => dflt C) vars.
Let Hlen : length vals = length vars := map_length _ _.
Local Notation nodeok := (nodeok tb vars vals).
Local Notation dwf := (dwf (flagged tb) (okvar vars) (okvars vars vals)).
Let T (a b : D) : Prop := True.

Definition suffix (rest ts : list (token D)) : Prop := exists pre, ts = pre ++ rest.
Lemma suffix_refl ts : suffix ts ts. Proof. exists []. reflexivity. Qed.
Lemma suffix_tl t rest ts : suffix (t :: rest) ts -> suffix rest ts.
Proof. intros [pre E]. exists (pre ++ [t]). rewrite <- app_assoc. exact E. Qed.
Lemma suffix_trans a b c : suffix a b -> suffix b c -> suffix a c.
Proof. intros [p1 E1] [p2 E2]. exists (p2 ++ p1). rewrite <- app_assoc, <- E1. exact E2. Qed.
Lemma suffix_skipn n ts : suffix (skipn n ts) ts.
Proof. exists (firstn n ts). symmetry. apply firstn_skipn. Qed.

Lemma last_cons_ne (a : token D) m d : m <> [] -> last (a :: m) d = last m d.
Proof. destruct m; [congruence|reflexivity]. Qed.
Lemma last_app_ne (pre l : list (token D)) d : l <> [] -> last (pre ++ l) d = last l d.
Proof.
  intros Hne. induction pre as [|a pre IH]; [reflexivity|]. cbn [app]. rewrite last_cons_ne; [exact IH|].
  destruct pre; [exact Hne|discriminate].
Qed.

(* no closing parenthesis directly behind an opening one or behind an operator (two of the pair rules) *)
Definition bad_pair (a b : token D) : bool :=
  match a, b with TOpen, TClose => true | TOp _, TClose => true | _, _ => false end.
Fixpoint adj_ok (ts : list (token D)) : bool :=
  match ts with a :: ((b :: _) as tl) => negb (bad_pair a b) && adj_ok tl | _ => true end.
Lemma adj_ok_tl a m : adj_ok (a :: m) = true -> adj_ok m = true.
Proof. destruct m as [|b l]; [reflexivity|]. intros H. change (negb (bad_pair a b) && adj_ok (b :: l) = true) in H. apply andb_prop in H. exact (proj2 H). Qed.
Lemma adj_ok_suffix : forall pre rest, adj_ok (pre ++ rest) = true -> adj_ok rest = true.
Proof. induction pre as [|a pre IH]; intros rest H; [exact H|]. cbn [app] in H. exact (IH rest (adj_ok_tl a _ H)). Qed.

(* what the token list must satisfy (consequences of check_preconditions): every variable has an index; it ends neither
   in an operator nor in an opening parenthesis; the two pair rules above *)
Definition tok_ok (ts : list (token D)) : Prop :=
  (forall x, In (TVar x) ts -> exists i, index_of x vars 0 = Some i) /\
  (ts = [] \/ ((forall k, last ts TClose <> TOp k) /\ last ts TClose <> TOpen)) /\
  adj_ok ts = true.
Lemma tok_ok_suffix rest ts : suffix rest ts -> tok_ok ts -> tok_ok rest.
Proof.
  intros [pre E] (Hv & Hl & Ha). split; [|split].
  - intros x Hx. apply Hv. rewrite E. apply in_or_app. right. exact Hx.
  - destruct rest as [|t r]; [left; reflexivity|]. right. destruct Hl as [Hl|Hl]; [subst; destruct pre; discriminate|].
    rewrite E in Hl. rewrite (last_app_ne pre (t :: r) TClose ltac:(discriminate)) in Hl. exact Hl.
  - rewrite E in Ha. exact (adj_ok_suffix pre rest Ha).
Qed.

Lemma new_deepex_safe nodes bops uop : Forall nodeok nodes -> (forall o, In o bops -> flagged tb o) ->
  nodes <> [] \/ bops <> [] \/ uop <> [] ->
  match new_deepex C nodes bops uop with Panic _ => False | Err _ => True | Ok e => dwf e end.
Proof.
  intros Hn Hf Hne. destruct (Nat.eq_dec (length nodes) (S (length bops))) as [E|Hneq].
  - destruct (new_deepex_ok C tb T (fun _ => I) (fun _ _ _ => I) (fun _ _ _ _ _ => I) (fun _ _ _ _ _ _ _ => I) (fun _ _ _ _ => I) (fun _ _ _ _ _ => I)
                vars vals Hlen nodes bops uop E Hn Hf) as (e & -> & Hwe & _). exact Hwe.
  - unfold new_deepex. destruct nodes as [|n nt].
    + destruct bops as [|o bs]; [destruct uop as [|u us]|]; [destruct Hne as [H|[H|H]]; congruence|exact I|exact I].
    + destruct (Nat.eqb_spec (length (n :: nt)) (S (length bops))) as [E|_]; [contradiction|]. exact I.
Qed.

Lemma mk_bop_flagged k o : mk_bop tb k = Ok o -> flagged tb o.
Proof.
  unfold mk_bop, op_of. intros H. destruct (nth_error tb k) as [spec|] eqn:En.
  - rewrite (nth_error_nth _ _ _ En) in H. destruct (obin spec) as [bs|] eqn:Eb; [|discriminate]. inversion H; subst. exists spec, bs. cbn. auto.
  - rewrite (nth_overflow tb _ (proj1 (nth_error_None tb k) En)) in H. discriminate.
Qed.

Lemma more_unaries_all : forall tl : list (token D), skipn (length (more_unaries tb tl)) tl = [] -> tl = [] \/ exists k, last tl TClose = TOp k.
Proof.
  induction tl as [|t tl IH]; intros H; [left; reflexivity|]. right. cbn [more_unaries] in H.
  destruct t as [d| | |k|x]; try (cbn in H; discriminate).
  destruct (has_un tb k); [|cbn in H; discriminate]. cbn [length skipn] in H.
  destruct (IH H) as [->|[k' Hk']]; [exists k; reflexivity|]. destruct tl; [cbn in *; discriminate|]. exists k'. exact Hk'.
Qed.

(* the state of a slice guarantees that finishing it yields a node or an error *)
Definition progress (rnodes : list (dnode D)) (rbops : list dbop) (uop : list nat) (ts : list (token D)) : Prop :=
  rnodes <> [] \/ rbops <> [] \/ uop <> [] \/ (exists t tl, ts = t :: tl /\ t <> TClose).

Theorem dparse_safe : forall fuel left ts rnodes rbops uop,
  tok_ok ts -> Forall nodeok rnodes -> (forall o, In o rbops -> flagged tb o) -> progress rnodes rbops uop ts ->
  match dparse C tb fuel left ts vars rnodes rbops uop with
  | Panic _ => False
  | Err _ => True
  | Ok (e, rest) => dwf e /\ suffix rest ts
  end.
Proof.
  induction fuel as [|fuel IH]; intros left ts rnodes rbops uop Hts Hn Hb Hp; [exact I|].
  cbn [dparse].
  assert (Hfin : forall rest, suffix rest ts -> (rnodes <> [] \/ rbops <> [] \/ uop <> []) ->
            match (do e <- new_deepex C (rev rnodes) (rev rbops) uop; Ok (e, rest)) with
            | Panic _ => False | Err _ => True | Ok (e, rest') => dwf e /\ suffix rest' ts end).
  { intros rest Hs Hne.
    pose proof (new_deepex_safe (rev rnodes) (rev rbops) uop) as H.
    destruct (new_deepex C (rev rnodes) (rev rbops) uop) as [e|?|?]; cbn [bind].
    - split; [|exact Hs]. apply H; [apply Forall_rev; exact Hn|intros o Ho; apply Hb; apply in_rev; exact Ho|].
      destruct Hne as [H1|[H1|H1]]; [left; intros E; apply H1; apply (f_equal (@rev _)) in E; rewrite rev_involutive in E; exact E
                                   |right; left; intros E; apply H1; apply (f_equal (@rev _)) in E; rewrite rev_involutive in E; exact E|right; right; exact H1].
    - exact I.
    - apply H; [apply Forall_rev; exact Hn|intros o Ho; apply Hb; apply in_rev; exact Ho|].
      destruct Hne as [H1|[H1|H1]]; [left; intros E; apply H1; apply (f_equal (@rev _)) in E; rewrite rev_involutive in E; exact E
                                   |right; left; intros E; apply H1; apply (f_equal (@rev _)) in E; rewrite rev_involutive in E; exact E|right; right; exact H1]. }
  destruct ts as [|t tl].
  - apply (Hfin [] (suffix_refl [])). destruct Hp as [H|[H|[H|(t & tl & E & _)]]]; [auto|auto|auto|discriminate].
  - assert (Htl : tok_ok tl) by (apply (tok_ok_suffix tl (t :: tl)); [exists [t]; reflexivity|exact Hts]).
    assert (Hstl : suffix tl (t :: tl)) by (exists [t]; reflexivity).
    (* continuing after one more node *)
    assert (Hcont : forall l' rest node, suffix rest tl -> nodeok node ->
              match dparse C tb fuel l' rest vars (node :: rnodes) rbops uop with
              | Panic _ => False | Err _ => True | Ok (e, rest') => dwf e /\ suffix rest' (t :: tl) end).
    { intros l' rest node Hs Hok.
      assert (Hpr : progress (node :: rnodes) rbops uop rest) by (left; discriminate).
      pose proof (IH l' rest (node :: rnodes) rbops uop (tok_ok_suffix _ _ Hs Htl) (Forall_cons _ Hok Hn) Hb Hpr) as H.
      destruct (dparse C tb fuel l' rest vars (node :: rnodes) rbops uop) as [[e r]|?|?]; try exact H.
      destruct H as [H1 H2]. split; [exact H1|]. exact (suffix_trans _ _ _ H2 (suffix_trans _ _ _ Hs Hstl)). }
    (* a group: the inner slice, then continue *)
    assert (Hgroup : forall tl2 us, suffix tl2 tl -> (us <> [] \/ exists t2 r2, tl2 = t2 :: r2 /\ t2 <> TClose) ->
              match (do ' (e, rest) <- dparse C tb fuel None tl2 vars [] [] us; dparse C tb fuel (Some TClose) rest vars (DExpr e :: rnodes) rbops uop) with
              | Panic _ => False | Err _ => True | Ok (e, rest') => dwf e /\ suffix rest' (t :: tl) end).
    { intros tl2 us Hs Hpr.
      assert (Hpr2 : progress [] [] us tl2) by (destruct Hpr as [H|H]; [right; right; left; exact H|right; right; right; exact H]).
      pose proof (IH None tl2 [] [] us (tok_ok_suffix _ _ Hs Htl) (Forall_nil _) (fun o (H : In o []) => match H with end) Hpr2) as Hin.
      destruct (dparse C tb fuel None tl2 vars [] [] us) as [[e rest]|?|?]; cbn [bind]; try exact Hin.
      destruct Hin as [Hwe Hsr]. apply (Hcont (Some TClose) rest (DExpr e) (suffix_trans _ _ _ Hsr Hs)).
      split; [exact Hwe|]. cbn [node_var_names]. destruct e as [ns bs us' vs]. rewrite dwf_unfold in Hwe. destruct Hwe as (_ & [_ Hincl] & _). exact Hincl. }
    destruct t as [d| | |k|x].
    + apply (Hcont (Some (TNum d)) tl (DNum d) (suffix_refl tl)). split; [exact I|intros y []].
    + (* opening parenthesis: the next token exists and is not a closing one *)
      apply (Hgroup tl [] (suffix_refl tl)). right.
      destruct Hts as (_ & Hl & Ha). destruct tl as [|t2 r2].
      * destruct Hl as [Hl|[_ Hl]]; [discriminate|]. exfalso. apply Hl. reflexivity.
      * exists t2, r2. split; [reflexivity|]. intros ->. change (negb (bad_pair TOpen TClose) && adj_ok (TClose :: r2) = true) in Ha. discriminate.
    + apply (Hfin tl Hstl). destruct Hp as [H|[H|[H|(t0 & tl0 & E & Hne)]]]; [auto|auto|auto|]. inversion E; subst. congruence.
    + pose proof (isb_no_panic tb k left) as Hbp. destruct (is_operator_binary tb k left) as [b|e|s]; cbn [bind]; [|exact I|destruct (Hbp s eq_refl)].
      destruct b.
      * destruct (mk_bop tb k) as [o|e|s] eqn:Em; cbn [bind]; [|exact I|unfold mk_bop in Em; destruct (obin (op_of tb k)); discriminate].
        assert (Hb2 : forall o', In o' (o :: rbops) -> flagged tb o') by (intros o' [<-|H']; [exact (mk_bop_flagged k o Em)|exact (Hb o' H')]).
        assert (Hpr2 : progress rnodes (o :: rbops) uop tl) by (right; left; discriminate).
        pose proof (IH (Some (TOp k)) tl rnodes (o :: rbops) uop Htl Hn Hb2 Hpr2) as H.
        destruct (dparse C tb fuel (Some (TOp k)) tl vars rnodes (o :: rbops) uop) as [[e r]|?|?]; try exact H.
        destruct H as [H1 H2]. split; [exact H1|exact (suffix_trans _ _ _ H2 Hstl)].
      * destruct (has_un tb k); cbn [negb]; [|exact I].
        set (us := k :: more_unaries tb tl). replace (length us - 1) with (length (more_unaries tb tl)) by (cbn [us length]; lia).
        pose proof (suffix_skipn (length (more_unaries tb tl)) tl) as Hsk.
        destruct (skipn (length (more_unaries tb tl)) tl) as [|t2 tl2] eqn:Eafter.
        { (* the unary operators run to the end of the text: excluded *)
          exfalso. destruct Hts as (_ & Hl & _). destruct Hl as [Hl|[Hl _]]; [discriminate|].
          destruct (more_unaries_all tl Eafter) as [->|[k' Hk']]; [exact (Hl k eq_refl)|].
          destruct tl as [|t3 r3]; [cbn in Hk'; discriminate|]. exact (Hl k' Hk'). }
        assert (Hs2 : suffix tl2 tl) by (exact (suffix_tl _ _ _ Hsk)).
        destruct t2 as [d| | |k2|x].
        -- apply (Hcont (Some (TNum d)) tl2 (DNum (apply_un C us d)) Hs2). split; [exact I|intros y []].
        -- apply (Hgroup tl2 us Hs2). left. discriminate.
        -- apply (Hgroup tl2 us Hs2). left. discriminate.
        -- exact I.
        -- destruct (proj1 (tok_ok_suffix _ _ Hsk Htl) x (or_introl eq_refl)) as [i Hi]. unfold var_index. rewrite Hi. cbn [bind].
           assert (Hok : nodeok (DVar i x)).
           { split; [exact Hi|]. intros y [<-|[]]. exact (index_of_In x vars 0 i Hi). }
           assert (Hne1 : [@DVar D i x] <> [] \/ @nil dbop <> [] \/ us <> []) by (left; discriminate).
           pose proof (new_deepex_safe [DVar i x] [] us (Forall_cons _ Hok (Forall_nil _)) (fun o (H : In o []) => match H with end) Hne1) as Hnd.
           destruct (new_deepex C [DVar i x] [] us) as [e|?|?]; cbn [bind]; [|exact I|exact Hnd].
           apply (Hcont (Some (TVar x)) tl2 (DExpr e) Hs2). split; [exact Hnd|].
           cbn [node_var_names]. destruct e as [ns bs us' vs]. rewrite dwf_unfold in Hnd. destruct Hnd as (_ & [_ Hincl] & _). exact Hincl.
    + destruct (proj1 Hts x (or_introl eq_refl)) as [i Hi]. unfold var_index. rewrite Hi. cbn [bind].
      apply (Hcont (Some (TVar x)) tl (DVar i x) (suffix_refl tl)). split; [exact Hi|]. intros y [<-|[]]. exact (index_of_In x vars 0 i Hi).
Qed.
End DeepTotal.

Section ParseDeepTotal.
Context {D : Type}.
Variable C : carrier D.
Variable tb : optable.

Lemma pairs_adj : forall ts : list (token D), pairs_ok tb ts = true -> adj_ok ts = true.
Proof.
  induction ts as [|a [|b l] IH]; intros H; [reflexivity|reflexivity|].
  change (pair_ok tb a b && pairs_ok tb (b :: l) = true) in H. apply andb_prop in H. destruct H as [H1 H2].
  change (negb (bad_pair a b) && adj_ok (b :: l) = true). rewrite (IH H2), andb_true_r.
  destruct a, b; cbn in *; try reflexivity; discriminate.
Qed.
Lemma balance_facts : forall (l : list (token D)) c r, paren_balance l c = Some r -> (0 <= c)%Z ->
  (0 <= r)%Z /\ (l <> [] -> last l TClose = TOpen -> (1 <= r)%Z).
Proof.
  induction l as [|t l IH]; intros c r H Hc.
  - cbn in H. inversion H; subst. split; [exact Hc|congruence].
  - assert (Hstep : forall c', (0 <= c')%Z -> paren_balance l c' = Some r -> (t = TOpen -> (1 <= c')%Z) ->
              (0 <= r)%Z /\ (t :: l <> [] -> last (t :: l) TClose = TOpen -> (1 <= r)%Z)).
    { intros c' Hc' H' Ht. destruct (IH c' r H' Hc') as [H1 H2]. split; [exact H1|]. intros _ Hl.
      destruct l as [|t2 l2]; [cbn in Hl; cbn in H'; inversion H' as [Hr]; rewrite <- Hr; apply Ht; exact Hl|]. apply H2; [discriminate|exact Hl]. }
    destruct t; cbn [paren_balance] in H.
    + apply (Hstep c Hc H). discriminate.
    + apply (Hstep (c + 1)%Z ltac:(lia) H). intros _. lia.
    + destruct (c - 1 <? 0)%Z eqn:E; [discriminate|]. apply Z.ltb_ge in E. apply (Hstep (c - 1)%Z E H). discriminate.
    + apply (Hstep c Hc H). discriminate.
    + apply (Hstep c Hc H). discriminate.
Qed.

Lemma preconditions_tok_ok (ts : list (token D)) : check_preconditions tb ts = Ok tt ->
  tok_ok (find_parsed_vars ts) ts /\ exists t tl, ts = t :: tl /\ t <> TClose.
Proof.
  unfold check_preconditions. destruct ts as [|t tl]; [discriminate|].
  destruct (pairs_ok tb (t :: tl)) eqn:Ep; cbn [negb]; [|discriminate].
  destruct (paren_balance (t :: tl) 0) as [r|] eqn:Eb; [|discriminate].
  destruct (Z.eqb_spec r 0) as [->|]; cbn [negb]; [|discriminate].
  intros Hl. split; [split; [|split]|].
  - intros x Hx. apply vars_indexed. exact Hx.
  - right. split.
    + intros k Hk. replace (last (t :: tl) TOpen) with (last (t :: tl) TClose) in Hl; [rewrite Hk in Hl; discriminate|].
      clear. generalize t. induction tl as [|a l IH]; intros t0; [reflexivity|]. exact (IH a).
    + intros Ho. destruct (balance_facts (t :: tl) 0 0 Eb ltac:(lia)) as [_ H]. specialize (H ltac:(discriminate) Ho). lia.
  - apply pairs_adj. exact Ep.
  - exists t, tl. split; [reflexivity|]. intros ->. cbn in Eb. discriminate.
Qed.

Variable is_literal : str -> option nat.
Theorem parse_deep_no_panic text site : parse_deep C tb is_literal text <> Panic site.
Proof.
  unfold parse_deep. pose proof (tokenize_total C tb is_literal text) as Ht.
  destruct (tokenize C tb is_literal text) as [ts|e|s]; cbn [bind]; [|discriminate|destruct (Ht s eq_refl)].
  unfold parse_deep_tokens. pose proof (check_preconditions_total tb ts) as Hp.
  destruct (check_preconditions tb ts) as [[]|e|s] eqn:E; cbn [bind]; [|discriminate|destruct (Hp s eq_refl)].
  destruct (preconditions_tok_ok ts E) as [Hok Hhd].
  pose proof (dparse_safe C tb (find_parsed_vars ts) (S (length ts)) None ts [] [] [] Hok (Forall_nil _) (fun o (H : In o []) => match H with end)
                (or_intror (or_intror (or_intror Hhd)))) as H.
  destruct (dparse C tb (S (length ts)) None ts (find_parsed_vars ts) [] [] []) as [[e r]|?|?]; cbn [bind]; [discriminate|discriminate|destruct H].
Qed.
End ParseDeepTotal.
