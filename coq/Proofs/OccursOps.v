(* Proofs/OccursOps.v — the names that occur in an expression (Occurs.occs, as a list) are kept by reset_vars and by
   DeepEx::compile; operator application concatenates them and substitution replaces a name by the occurring names of
   its replacement.  Hence, when the listed variables of the operands (and of the replacements) are exactly their
   occurring ones, so are those of the results: what operator application and substitution return from parsed
   expressions prints every listed variable, and printing and parsing again gives the same variables and values. *)
From Coq Require Import List Arith Lia Bool ZArith Sorted.
Import ListNotations.
From Exmex.Model Require Import Base EvalBinary Lexer Flat Deep.
From Exmex.Proofs Require Import Vars DeepVars DeepSem DeepCompile CompileRefine DeepSubs Unparse Occurs.
Open Scope nat_scope.

Section OccursOps.
Context {D : Type}.
Variable C : carrier D.
Variable tb : optable.
Local Notation occs := (@occs D).
Local Notation nocc := (@nocc D).

(* ---- compile ---- *)
Lemma lift_occs : forall k (e : deepex D), dsize e <= k -> occs (lift_nodes e) = occs e.
Proof.
  induction k as [|k IH]; intros e Hs; [destruct e; cbn in Hs; lia|].
  destruct e as [nodes bops uop vars].
  assert (Hnode : forall n, In n nodes -> nocc (lift_node n) = nocc n).
  { intros n Hin. destruct n as [c|d|i x]; try reflexivity.
    destruct c as [ns b1 u1 v1]. destruct ns as [|n1 [|n2 nt]]; try reflexivity. destruct u1; [|reflexivity].
    cbn [lift_node]. destruct n1 as [e_deeper|d|i x]; try (cbn [nocc]; rewrite occs_unfold; cbn [flat_map nocc]; rewrite ?app_nil_r; reflexivity).
    assert (Hsd : dsize e_deeper <= k).
    { pose proof (dsize_in nodes bops uop vars _ Hin) as H2. pose proof (dsize_in [DExpr e_deeper] b1 [] v1 e_deeper (or_introl eq_refl)) as H3. lia. }
    pose proof (IH e_deeper Hsd) as L2. cbn zeta.
    assert (Eo : nocc (DExpr (DE [DExpr e_deeper] b1 [] v1)) = occs e_deeper).
    { cbn [nocc]. rewrite occs_unfold. cbn [flat_map nocc]. apply app_nil_r. }
    rewrite Eo.
    destruct (dnodes (lift_nodes e_deeper)) as [|m [|? ?]]; destruct (duop (lift_nodes e_deeper));
      try (cbn [nocc]; rewrite occs_unfold; cbn [flat_map nocc]; rewrite app_nil_r; exact L2).
    cbn [nocc]. exact L2. }
  assert (Emap : flat_map nocc (map lift_node nodes) = flat_map nocc nodes).
  { clear Hs. induction nodes as [|n tl IHn]; [reflexivity|]. cbn [map flat_map].
    rewrite (Hnode n (or_introl eq_refl)). f_equal. apply IHn. intros m Hm. apply Hnode. right. exact Hm. }
  rewrite lift_nodes_unfold.
  destruct nodes as [|n [|n' tl]]; try (rewrite !occs_unfold; exact Emap). destruct uop; [|rewrite !occs_unfold; exact Emap].
  destruct n as [e1|d|i x]; [|reflexivity|reflexivity].
  rewrite occs_unfold. cbn [flat_map nocc]. rewrite app_nil_r. reflexivity.
Qed.
Lemma dcompile_loop_occs : forall sigma i num_inds (nodes : list (dnode D)) bops declined used nodes' used',
  dcompile_loop C sigma i num_inds nodes bops declined used = Ok (nodes', used') -> flat_map nocc nodes' = flat_map nocc nodes.
Proof.
  induction sigma as [|b stl IH]; intros i num_inds nodes bops declined used nodes' used' H; cbn [dcompile_loop] in H.
  - inversion H; subst. reflexivity.
  - destruct (nth_error num_inds i) as [num_idx|]; [|discriminate].
    destruct (nth_error nodes num_idx) as [n1|] eqn:E1; [|discriminate]. destruct (nth_error nodes (S num_idx)) as [n2|] eqn:E2; [|discriminate].
    destruct n1 as [?|a|? ?]; try exact (IH _ _ _ _ _ _ _ _ H).
    destruct n2 as [?|b'|? ?]; try exact (IH _ _ _ _ _ _ _ _ H).
    destruct (negb _); [|exact (IH _ _ _ _ _ _ _ _ H)].
    destruct (nth_error bops b) as [o|]; [|discriminate].
    rewrite (IH _ _ _ _ _ _ _ _ H).
    rewrite (nocc_remove_num _ (S num_idx) b'); [exact (nocc_set_num nodes num_idx a _ E1)|].
    rewrite nth_error_set_other; [exact E2|lia].
Qed.
Theorem dcompile_occs e0 e' : dcompile C e0 = Ok e' -> occs e' = occs e0.
Proof.
  intros H. rewrite <- (lift_occs (dsize e0) e0 (le_n _)). unfold dcompile in H.
  destruct (lift_nodes e0) as [nodes bops uop vars].
  destruct (dcompile_loop C _ 0 _ nodes bops _ []) as [[nodes' used]| |] eqn:El; cbn [bind] in H; try discriminate.
  pose proof (dcompile_loop_occs _ _ _ _ _ _ _ _ _ El) as Ho. rewrite occs_unfold, <- Ho.
  destruct nodes' as [|m [|m' mt]]; [inversion H; subst; rewrite occs_unfold; reflexivity| |destruct m; inversion H; subst; rewrite occs_unfold; reflexivity].
  destruct m as [c|d|i x]; inversion H; subst; rewrite occs_unfold; reflexivity.
Qed.

(* ---- reset_vars ---- *)
Lemma reset_vars_occs all : forall e e' : deepex D, reset_vars e all = Ok e' -> occs e' = occs e.
Proof.
  induction e as [nodes bops uop vars IH] using deep_ind. intros e' H. rewrite reset_vars_unfold in H.
  destruct (mapM (rv_node all) nodes) as [nodes'| |] eqn:Em; cbn [bind] in H; try discriminate. inversion H; subst. rewrite !occs_unfold.
  clear H. revert nodes' Em. induction nodes as [|n tl IHn]; intros nodes' Em; [cbn in Em; inversion Em; reflexivity|].
  cbn [mapM] in Em. destruct (rv_node all n) as [n'| |] eqn:En; cbn [bind] in Em; try discriminate.
  destruct (mapM (rv_node all) tl) as [tl'| |] eqn:Et; cbn [bind] in Em; try discriminate. inversion Em; subst. cbn [flat_map].
  rewrite (IHn (fun e1 H1 => IH e1 (or_intror H1)) tl' eq_refl). f_equal.
  destruct n as [e1|d|i x]; cbn [rv_node] in En.
  - destruct (reset_vars e1 all) as [e1'| |] eqn:E1; cbn [bind] in En; try discriminate. inversion En; subst. cbn [nocc]. exact (IH e1 (or_introl eq_refl) e1' E1).
  - inversion En; reflexivity.
  - destruct (index_of x all 0); inversion En; reflexivity.
Qed.

(* ---- operator application ---- *)
Theorem operate_bin_occs (a b r : deepex D) name : operate_bin C tb a b name = Ok r -> occs r = occs a ++ occs b.
Proof.
  intros H. unfold operate_bin in H. destruct (find_op name tb 0) as [k|]; [|discriminate].
  destruct (mk_bop tb k) as [o| |]; cbn [bind] in H; try discriminate.
  unfold var_names_union in H.
  destruct (reset_vars a _) as [a'| |] eqn:Ea; cbn [bind] in H; try discriminate.
  destruct (reset_vars b _) as [b'| |] eqn:Eb; cbn [bind] in H; try discriminate.
  destruct (new_deepex C [DExpr a'; DExpr b'] [o] []) as [r1| |] eqn:E1; cbn [bind] in H; try discriminate.
  rewrite (dcompile_occs r1 r H). unfold new_deepex in E1. cbn [length Nat.eqb negb] in E1.
  rewrite (dcompile_occs _ r1 E1), occs_unfold. cbn [flat_map nocc]. rewrite app_nil_r, (reset_vars_occs _ a a' Ea), (reset_vars_occs _ b b' Eb). reflexivity.
Qed.
Theorem operate_unary_occs (a r : deepex D) name : operate_unary C tb a name = Ok r -> occs r = occs a.
Proof.
  intros H. unfold operate_unary in H. destruct (find_op name tb 0) as [k|]; [|discriminate].
  destruct (negb (has_un tb k)); [discriminate|]. destruct a as [nodes bops uop vars].
  rewrite (dcompile_occs _ r H), !occs_unfold. reflexivity.
Qed.

(* ---- substitution ---- *)
Variable sub : str -> option (deepex D).
Fixpoint soccs (e : deepex D) : list str :=
  match e with
  | DE nodes _ _ _ =>
      (fix go (l : list (dnode D)) : list str :=
         match l with
         | [] => []
         | n :: tl => (match n with
                       | DNum _ => []
                       | DVar _ x => match sub x with Some r => occs r | None => [x] end
                       | DExpr e' => soccs e'
                       end) ++ go tl
         end) nodes
  end.
Definition node_soccs (n : dnode D) : list str :=
  match n with
  | DNum _ => []
  | DVar _ x => match sub x with Some r => occs r | None => [x] end
  | DExpr e' => soccs e'
  end.
Lemma soccs_unfold nodes bops uop vars : soccs (DE nodes bops uop vars) = flat_map node_soccs nodes.
Proof. cbn [soccs]. induction nodes as [|n tl IH]; [reflexivity|]. cbn [flat_map]. rewrite <- IH. reflexivity. Qed.

Theorem subs_occs : forall e e' : deepex D, subs C sub e = Ok e' -> occs e' = soccs e.
Proof.
  induction e as [nodes bops uop vars IH] using deep_ind. intros e' H.
  rewrite (subs_unfold C sub) in H. destruct (mapM (subs_node C sub) nodes) as [ps| |] eqn:Em; cbn [bind] in H; try discriminate.
  destruct (reset_vars _ _) as [e1| |] eqn:Er; cbn [bind] in H; try discriminate.
  rewrite (dcompile_occs e1 e' H), (reset_vars_occs _ _ e1 Er), occs_unfold, soccs_unfold.
  clear H Er. revert ps Em. induction nodes as [|n tl IHn]; intros ps Em; [cbn in Em; inversion Em; reflexivity|].
  cbn [mapM] in Em. destruct (subs_node C sub n) as [p| |] eqn:En; cbn [bind] in Em; try discriminate.
  destruct (mapM (subs_node C sub) tl) as [tl'| |] eqn:Et; cbn [bind] in Em; try discriminate. inversion Em; subst. cbn [map flat_map].
  rewrite (IHn (fun e1 H1 => IH e1 (or_intror H1)) tl' eq_refl). f_equal.
  destruct n as [c1|d|i x]; cbn [subs_node] in En.
  - destruct (subs C sub c1) as [c1'| |] eqn:E1; cbn [bind] in En; try discriminate. inversion En; subst. cbn [fst nocc node_soccs]. exact (IH c1 (or_introl eq_refl) c1' E1).
  - inversion En; reflexivity.
  - cbn [node_soccs]. destruct (sub x) as [r|]; inversion En; reflexivity.
Qed.

(* when the listed variables of every replacement are its occurring ones: the names substitution lists are the occurring ones *)
Lemma soccs_snames : (forall x r, sub x = Some r -> same_names (dvars r) (occs r)) ->
  forall e : deepex D, same_names (snames sub e) (soccs e).
Proof.
  intros Hsub. induction e as [nodes bops uop vars IH] using deep_ind. rewrite snames_unfold, soccs_unfold.
  apply flat_map_same. intros n Hn. destruct n as [e1|d|i x]; cbn [node_snames node_soccs].
  - exact (IH e1 Hn).
  - intros y; tauto.
  - destruct (sub x) as [r|] eqn:Es; [exact (Hsub x r Es)|intros y; tauto].
Qed.
End OccursOps.
