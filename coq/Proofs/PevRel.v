(* Proofs/PevRel.v — precedence evaluation relates two carriers: whatever relation between the values of two data types
   the operator applications respect is respected by the precedence evaluation of the same operator records.
   Instances: homomorphisms between carriers (h a' = a) and invariants (a predicate on one carrier). *)
From Coq Require Import List Arith Lia Bool ZArith.
Import ListNotations.
From Exmex.Model Require Import Base EvalBinary Lexer Flat.
From Exmex.Proofs Require Import Pev PevFold FlattenSem.
Open Scope nat_scope.

Section PevRel.
Context {D' D : Type}.
Variable C' : carrier D'.
Variable C : carrier D.
Variable Q : D' -> D -> Prop.
Hypothesis Q_op : forall o a' a b' b, Q a' a -> Q b' b -> Q (apply_op C' o a' b') (apply_op C o a b).

Definition prel (p' : fop * D') (p : fop * D) : Prop := fst p' = fst p /\ Q (snd p') (snd p).

Lemma rm_pos_rel : forall (l' : list (fop * D')) (l : list (fop * D)) pos best bestk,
  Forall2 prel l' l -> rm_pos l' pos best bestk = rm_pos l pos best bestk.
Proof.
  induction l' as [|[o' y'] l' IH]; intros l pos best bestk H; inversion H as [|? [o y] ? ? Hp Hl]; subst; [reflexivity|].
  cbn [rm_pos]. destruct Hp as [Ho _]. cbn [fst] in Ho. subst o'. destruct (fprio o <=? bestk)%Z; apply IH; assumption.
Qed.
Lemma root_idx_rel (l' : list (fop * D')) (l : list (fop * D)) : Forall2 prel l' l -> root_idx l' = root_idx l.
Proof.
  intros H. inversion H as [|[o' y'] [o y] ? ? Hp Hl]; subst; [reflexivity|]. cbn [root_idx]. destruct Hp as [Ho _]. cbn [fst] in Ho. subst o'.
  apply rm_pos_rel. exact Hl.
Qed.
Theorem pev_rel : forall n x' x (l' : list (fop * D')) (l : list (fop * D)),
  Q x' x -> Forall2 prel l' l -> Q (pev C' n x' l') (pev C n x l).
Proof.
  induction n as [|n IH]; intros x' x l' l Hx H; [exact Hx|].
  destruct H as [|p' p l' l Hp Hl]; [exact Hx|].
  assert (Hall : Forall2 prel (p' :: l') (p :: l)) by (constructor; assumption).
  rewrite (pev_S C' n x' (p' :: l')) by discriminate. rewrite (pev_S C n x (p :: l)) by discriminate.
  rewrite (root_idx_rel _ _ Hall). set (r := root_idx (p :: l)).
  pose proof (Forall2_nth _ _ _ Hall r) as Hnth.
  destruct (nth_error (p' :: l') r) as [[o' y']|], (nth_error (p :: l) r) as [[o y]|]; try contradiction; [|exact Hx].
  destruct Hnth as [Ho Hy]. cbn [fst snd] in *. subst o'.
  apply Q_op; apply IH; try assumption; [apply Forall2_firstn|apply Forall2_skipn]; exact Hall.
Qed.
Theorem pv_rel x' x (l' : list (fop * D')) (l : list (fop * D)) :
  Q x' x -> Forall2 prel l' l -> Q (pv C' x' l') (pv C x l).
Proof.
  intros Hx H. unfold pv. assert (E : length l' = length l) by (induction H; cbn; congruence).
  rewrite E. apply pev_rel; assumption.
Qed.
End PevRel.

(* an invariant of one carrier *)
Section PevInv.
Context {D : Type}.
Variable C : carrier D.
Variable P : D -> Prop.
Hypothesis P_op : forall o a b, P a -> P b -> P (apply_op C o a b).
Theorem pv_inv x (l : list (fop * D)) : P x -> Forall (fun p => P (snd p)) l -> P (pv C x l).
Proof.
  intros Hx Hl.
  apply (pv_rel C C (fun a _ => P a) (fun o a _ b _ Ha Hb => P_op o a b Ha Hb) x x l l Hx).
  induction Hl as [|p l Hp _ IH]; constructor; [split; [reflexivity|exact Hp]|exact IH].
Qed.
End PevInv.
