From Coq Require Import ZArith NArith List Lia Bool ZifyBool ZifyN ZifyNat.
Import ListNotations.
Open Scope N_scope.
Ltac Zify.zify_post_hook ::= Z.div_mod_to_equations.

Definition W : N := 64.
Definition mask : N := N.ones W.
(* Rust: x.rotate_right(k), k taken mod 64 *)
Definition rotr (x k : N) : N :=
  let k := k mod W in
  N.lor (N.shiftr x k) (N.land (N.shiftl x (W - k)) mask).

Lemma rotr_spec x k i : x < 2 ^ W -> i < W ->
  N.testbit (rotr x k) i = N.testbit x ((i + k) mod W).
Proof.
  intros Hx Hi. unfold rotr.
  assert (Hk : k mod W < W) by (apply N.mod_lt; unfold W; lia).
  set (k' := k mod W) in *.
  rewrite N.lor_spec, N.shiftr_spec by lia.
  rewrite N.land_spec. unfold mask. rewrite N.ones_spec_low by lia. rewrite andb_true_r.
  assert (Hmod : (i + k) mod W = (i + k') mod W).
  { unfold k'. rewrite N.add_mod_idemp_r by (unfold W; lia). reflexivity. }
  rewrite Hmod.
  destruct (N.ltb_spec (i + k') W) as [Hlt|Hge].
  - rewrite (N.mod_small (i + k') W) by lia.
    destruct (N.eq_dec k' 0) as [->|Hk0].
    + rewrite N.sub_0_r. rewrite N.shiftl_spec_low by lia. rewrite orb_false_r. reflexivity.
    + rewrite N.shiftl_spec_low by lia. rewrite orb_false_r. reflexivity.
  - assert (Hhigh : N.testbit x (i + k') = false).
    { apply N.bits_above_log2. destruct (N.eq_dec x 0) as [->|Hx0]; [cbn; unfold W in *; lia|].
      apply N.log2_lt_pow2 in Hx; [|lia]. lia. }
    rewrite Hhigh. cbn [orb].
    rewrite N.shiftl_spec_high' by lia.
    f_equal. unfold W in *. 
    assert ((i + k') mod 64 = i + k' - 64) by (rewrite <- (N.mod_small (i + k' - 64) 64) by lia; replace (i + k') with ((i + k' - 64) + 1 * 64) at 1 by lia; rewrite N.mod_add by lia; reflexivity).
    lia.
Qed.

(* leading ones of a 64 bit word: count from bit 63 downwards *)
Fixpoint lead_from (x : N) (n : nat) : nat :=   (* looks at bits n-1, n-2, ... *)
  match n with
  | O => O
  | S m => if N.testbit x (N.of_nat m) then S (lead_from x m) else O
  end.
Definition leading_ones (x : N) : nat := lead_from x 64.

Fixpoint trail_from (x : N) (pos : N) (fuel : nat) : nat :=
  match fuel with
  | O => O
  | S f => if N.testbit x pos then S (trail_from x (pos + 1) f) else O
  end.
Definition trailing_ones (x : N) : nat := trail_from x 0 64.

(* abstract tracker on list bool *)
Fixpoint prev_run (ign : nat -> bool) (idx : nat) : nat :=  (* consecutive true at idx, idx-1, ..., 1 ; bit 0 never set *)
  match idx with
  | O => if ign O then 1%nat else O
  | S m => if ign (S m) then S (prev_run ign m) else O
  end.

Definition get_previous_word (x : N) (idx : nat) : nat := leading_ones (rotr x (N.of_nat idx + 1)).

Theorem get_previous_word_spec x idx : x < 2 ^ W -> (idx < 64)%nat -> N.testbit x 0 = false ->
  get_previous_word x idx = prev_run (fun j => N.testbit x (N.of_nat j)) idx.
Proof.
  intros Hx Hidx H0. unfold get_previous_word, leading_ones.
  assert (G : forall k, (k <= idx)%nat ->
     lead_from (rotr x (N.of_nat idx + 1)) (64 - idx + k) =
     prev_run (fun j => N.testbit x (N.of_nat j)) k).
  { induction k as [|k IH]; intros Hk.
    - replace (64 - idx + 0)%nat with (S (63 - idx))%nat by lia. cbn [lead_from prev_run].
      rewrite rotr_spec; [|exact Hx|unfold W; lia].
      replace ((N.of_nat (63 - idx) + (N.of_nat idx + 1)) mod W) with 0.
      2:{ unfold W. replace (N.of_nat (63 - idx) + (N.of_nat idx + 1)) with (0 + 1 * 64) by lia. rewrite N.mod_add by lia. reflexivity. }
      cbn. rewrite H0. reflexivity.
    - replace (64 - idx + S k)%nat with (S (64 - idx + k))%nat by lia. cbn [lead_from prev_run].
      rewrite rotr_spec; [|exact Hx|unfold W; lia].
      replace ((N.of_nat (64 - idx + k) + (N.of_nat idx + 1)) mod W) with (N.of_nat (S k)).
      2:{ unfold W. replace (N.of_nat (64 - idx + k) + (N.of_nat idx + 1)) with (N.of_nat (S k) + 1 * 64) by lia. rewrite N.mod_add by lia. rewrite N.mod_small by lia. reflexivity. }
      destruct (N.testbit x (N.of_nat (S k))); [|reflexivity].
      f_equal. apply IH. lia. }
  specialize (G idx (le_n _)). replace (64 - idx + idx)%nat with 64%nat in G by lia. exact G.
Qed.
Print Assumptions get_previous_word_spec.
