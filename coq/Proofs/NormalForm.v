(* Proofs/NormalForm.v — the shape every expression built by DeepEx::compile has: a level consisting of one literal
   carries no unary operator (compile applies it), and no nested sub-expression consists of one literal (compile lifts
   it).  On such expressions DeepEx::is_num (deep.rs:89), which looks through single-node wrappers WITHOUT their unary
   operators, is sound: it answers true only for a literal level whose value is the number asked for.  The shape is
   preserved by compile, reset_vars, operator application and without_latest_unary. *)
From Coq Require Import List Arith Lia Bool.
Import ListNotations.
From Exmex.Model Require Import Base EvalBinary Lexer Flat Deep Convert Calc Partial.
From Exmex.Proofs Require Import DeepSem DeepCompile DeepSubs CompileRefine.
Open Scope nat_scope.

Section NormalForm.
Context {D : Type}.
Variable C : carrier D.
Variable tb : optable.

Definition single_num (e : deepex D) : Prop := exists d, dnodes e = [DNum d].
Fixpoint nf (e : deepex D) : Prop :=
  match e with
  | DE nodes bops uop vars =>
      (forall d, nodes = [DNum d] -> uop = []) /\
      (fix all (l : list (dnode D)) : Prop :=
         match l with
         | [] => True
         | n :: tl => (match n with DExpr c => nf c /\ ~ single_num c | _ => True end) /\ all tl
         end) nodes
  end.
Definition nnf (n : dnode D) : Prop := match n with DExpr c => nf c /\ ~ single_num c | _ => True end.
Lemma nf_unfold nodes bops uop vars :
  nf (DE nodes bops uop vars) <-> (forall d, nodes = [DNum d] -> uop = []) /\ Forall nnf nodes.
Proof.
  cbn [nf].
  assert (H : (fix all (l : list (dnode D)) : Prop :=
                 match l with
                 | [] => True
                 | n :: tl => (match n with DExpr c => nf c /\ ~ single_num c | _ => True end) /\ all tl
                 end) nodes <-> Forall nnf nodes).
  { induction nodes as [|n tl IH]; [split; [constructor|trivial]|]. split.
    - intros [H1 H2]. constructor; [exact H1|apply IH; exact H2].
    - intros H. inversion H; subst. split; [assumption|apply IH; assumption]. }
  rewrite H. reflexivity.
Qed.
(* what compile needs of its argument: nested sub-expressions are in normal form (they may be single literals) *)
Definition nnfw (n : dnode D) : Prop := match n with DExpr c => nf c | _ => True end.
Definition nfc (e : deepex D) : Prop := Forall nnfw (dnodes e).
Lemma nnf_w n : nnf n -> nnfw n.
Proof. destruct n; cbn; tauto. Qed.
Lemma nf_nfc e : nf e -> nfc e.
Proof. destruct e as [nodes bops uop vars]. rewrite nf_unfold. intros [_ H]. unfold nfc. cbn [dnodes]. eapply Forall_impl; [|exact H]. exact nnf_w. Qed.

(* ---- is_num ---- *)
Variable DC : dcarrier D.
Lemma is_num_single : forall e num, nf e -> is_num C DC e num = true -> single_num e.
Proof.
  induction e as [nodes bops uop vars IH] using deep_ind. intros num Hnf H. rewrite nf_unfold in Hnf. destruct Hnf as [_ Hn].
  destruct nodes as [|n [|n' tl]]; cbn [is_num] in H; try discriminate.
  destruct n as [c|d|i x]; [|exists d; reflexivity|discriminate].
  inversion Hn as [|? ? Hn1 _]; subst. destruct Hn1 as [Hc Hns]. exfalso. apply Hns. exact (IH c (or_introl eq_refl) num Hc H).
Qed.
Lemma is_num_shape e num : nf e -> is_num C DC e num = true ->
  exists d bops uop vars, e = DE [DNum d] bops uop vars /\ dc_eqb DC (apply_un C uop d) num = true.
Proof.
  intros Hnf H. destruct (is_num_single e num Hnf H) as [d Hd]. destruct e as [nodes bops uop vars]. cbn [dnodes] in Hd. subst nodes.
  exists d, bops, uop, vars. split; [reflexivity|exact H].
Qed.

(* ---- lift_nodes ---- *)
Lemma lift_shape : forall k (e : deepex D), dsize e <= k -> nf e -> ~ single_num e -> nf (lift_nodes e) /\ ~ single_num (lift_nodes e).
Proof.
  induction k as [|k IH]; intros e Hs Hnf Hns; [destruct e; cbn in Hs; lia|].
  destruct e as [nodes bops uop vars].
  assert (Hnode : forall n, In n nodes -> nnfw n -> nnf (lift_node n)).
  { intros n Hin Hn. destruct n as [c|d|i x]; try exact I.
    cbn [nnfw] in Hn. destruct c as [ns b1 u1 v1]. pose proof Hn as Hn0. rewrite nf_unfold in Hn. destruct Hn as [H1 Hch].
    destruct ns as [|n1 [|n2 nt]].
    - cbn [lift_node nnf]. split; [exact Hn0|]. intros [d Hd]. discriminate.
    - destruct u1 as [|u us].
      + cbn [lift_node]. destruct n1 as [e_deeper|d|i x]; try exact I.
        inversion Hch as [|? ? Hdd _]; subst. destruct Hdd as [Hd1 Hd2].
        assert (Hsd : dsize e_deeper <= k).
        { pose proof (dsize_in nodes bops uop vars _ Hin) as H2. pose proof (dsize_in [DExpr e_deeper] b1 [] v1 e_deeper (or_introl eq_refl)) as H3. lia. }
        destruct (IH e_deeper Hsd Hd1 Hd2) as [L1 L2]. cbn zeta.
        assert (Hwrap : nnf (DExpr (DE [DExpr (lift_nodes e_deeper)] b1 [] v1))).
        { cbn [nnf]. split; [|intros [d Hd]; discriminate]. rewrite nf_unfold. split; [intros d Hd; discriminate|].
          constructor; [split; assumption|constructor]. }
        destruct (dnodes (lift_nodes e_deeper)) as [|m [|? ?]]; destruct (duop (lift_nodes e_deeper)); try exact Hwrap.
        cbn [nnf]. split; assumption.
      + cbn [lift_node nnf]. split; [exact Hn0|]. intros [d Hd]. cbn [dnodes] in Hd. inversion Hd; subst.
        specialize (H1 d eq_refl). discriminate.
    - cbn [lift_node nnf]. split; [exact Hn0|]. intros [d Hd]. discriminate. }
  pose proof Hnf as Hnf0. rewrite nf_unfold in Hnf. destruct Hnf as [H1 Hch].
  assert (Hmap : nf (DE (map lift_node nodes) bops uop vars) /\ ~ single_num (DE (map lift_node nodes) bops uop vars)).
  { assert (Hns' : forall d, map lift_node nodes <> [DNum d]).
    { intros d Hd. destruct nodes as [|n [|? ?]]; try discriminate. cbn [map] in Hd. inversion Hd as [Hd1].
      inversion Hch as [|? ? Hn _]; subst.
      destruct n as [c|d'|i x]; [|apply Hns; exists d'; reflexivity|discriminate].
      destruct Hn as [Hc Hcs]. destruct c as [ns b1 u1 v1]. destruct ns as [|n1 [|? ?]]; try discriminate. destruct u1; [|discriminate].
      destruct n1 as [e_deeper|d'|i x]; [|apply Hcs; exists d'; reflexivity|discriminate].
      cbn [lift_node] in Hd1. cbn zeta in Hd1.
      destruct (dnodes (lift_nodes e_deeper)) as [|m [|? ?]]; destruct (duop (lift_nodes e_deeper)); discriminate. }
    split; [|intros [d Hd]; exact (Hns' d Hd)].
    rewrite nf_unfold. split; [intros d Hd; exfalso; exact (Hns' d Hd)|].
    apply Forall_forall. intros m Hm. apply in_map_iff in Hm. destruct Hm as (n & <- & Hn).
    rewrite Forall_forall in Hch. exact (Hnode n Hn (nnf_w n (Hch n Hn))). }
  rewrite lift_nodes_unfold.
  destruct nodes as [|n [|n' tl]]; try exact Hmap.
  destruct uop; [|exact Hmap].
  destruct n as [e1|d|i x].
  - inversion Hch as [|? ? Hcc _]; subst. destruct Hcc as [Hc Hcs]. split; assumption.
  - exfalso. apply Hns. exists d. reflexivity.
  - split; [exact Hnf0|exact Hns].
Qed.

Lemma lift_node_nnf n : nnfw n -> nnf (lift_node n).
Proof.
  intros Hn. destruct n as [c|d|i x]; try exact I.
  cbn [nnfw] in Hn. destruct c as [ns b1 u1 v1]. pose proof Hn as Hn0. rewrite nf_unfold in Hn. destruct Hn as [H1 Hch].
  destruct ns as [|n1 [|n2 nt]].
  - cbn [lift_node nnf]. split; [exact Hn0|]. intros [d Hd]. discriminate.
  - destruct u1 as [|u us].
    + cbn [lift_node]. destruct n1 as [e_deeper|d|i x]; try exact I.
      inversion Hch as [|? ? Hdd _]; subst. destruct Hdd as [Hd1 Hd2].
      destruct (lift_shape (dsize e_deeper) e_deeper (le_n _) Hd1 Hd2) as [L1 L2]. cbn zeta.
      assert (Hwrap : nnf (DExpr (DE [DExpr (lift_nodes e_deeper)] b1 [] v1))).
      { cbn [nnf]. split; [|intros [d Hd]; discriminate]. rewrite nf_unfold. split; [intros d Hd; discriminate|].
        constructor; [split; assumption|constructor]. }
      destruct (dnodes (lift_nodes e_deeper)) as [|m [|? ?]]; destruct (duop (lift_nodes e_deeper)); try exact Hwrap.
      cbn [nnf]. split; assumption.
    + cbn [lift_node nnf]. split; [exact Hn0|]. intros [d Hd]. cbn [dnodes] in Hd. inversion Hd; subst.
      specialize (H1 d eq_refl). discriminate.
  - cbn [lift_node nnf]. split; [exact Hn0|]. intros [d Hd]. discriminate.
Qed.

(* after lifting, the nested sub-expressions of the level are in normal form and none is a single literal *)
Lemma lift_children e0 : nfc e0 -> Forall nnf (dnodes (lift_nodes e0)).
Proof.
  destruct e0 as [nodes bops uop vars]. unfold nfc. cbn [dnodes]. intros Hc. rewrite lift_nodes_unfold.
  assert (Hmap : Forall nnf (dnodes (DE (map lift_node nodes) bops uop vars))).
  { cbn [dnodes]. apply Forall_forall. intros m Hm. apply in_map_iff in Hm. destruct Hm as (n & <- & Hn).
    rewrite Forall_forall in Hc. exact (lift_node_nnf n (Hc n Hn)). }
  destruct nodes as [|n [|n' tl]]; try exact Hmap. destruct uop; [|exact Hmap].
  destruct n as [e1|d|i x].
  - inversion Hc as [|? ? Hn _]; subst. cbn [nnfw] in Hn. destruct e1 as [n1 b1 u1 v1]. rewrite nf_unfold in Hn. exact (proj2 Hn).
  - cbn [dnodes]. constructor; [exact I|constructor].
  - cbn [dnodes]. constructor; [exact I|constructor].
Qed.

(* ---- compile ---- *)
Lemma dcompile_loop_nnf : forall sigma i num_inds (nodes : list (dnode D)) bops declined used nodes' used',
  Forall nnf nodes -> dcompile_loop C sigma i num_inds nodes bops declined used = Ok (nodes', used') -> Forall nnf nodes'.
Proof.
  induction sigma as [|b stl IH]; intros i num_inds nodes bops declined used nodes' used' HF H; cbn [dcompile_loop] in H.
  - inversion H; subst. exact HF.
  - destruct (nth_error num_inds i) as [num_idx|]; [|discriminate].
    destruct (nth_error nodes num_idx) as [n1|]; [|discriminate]. destruct (nth_error nodes (S num_idx)) as [n2|]; [|discriminate].
    destruct n1 as [?|a|? ?]; try exact (IH _ _ _ _ _ _ _ _ HF H).
    destruct n2 as [?|b'|? ?]; try exact (IH _ _ _ _ _ _ _ _ HF H).
    destruct (negb _); [|exact (IH _ _ _ _ _ _ _ _ HF H)].
    destruct (nth_error bops b) as [o|]; [|discriminate].
    refine (IH _ _ _ _ _ _ _ _ _ H). rewrite Forall_forall in *. intros x Hx.
    apply In_remove_nth in Hx. apply In_set_nth in Hx. destruct Hx as [->|Hx]; [exact I|exact (HF x Hx)].
Qed.
Theorem dcompile_nf e0 e' : nfc e0 -> dcompile C e0 = Ok e' -> nf e'.
Proof.
  intros Hc H. pose proof (lift_children e0 Hc) as Hl. unfold dcompile in H.
  destruct (lift_nodes e0) as [nodes bops uop vars]. cbn [dnodes] in Hl.
  destruct (dcompile_loop C _ 0 _ nodes bops _ []) as [[nodes' used]| |] eqn:El; cbn [bind] in H; try discriminate.
  pose proof (dcompile_loop_nnf _ _ _ _ _ _ _ _ _ Hl El) as Hn.
  assert (Hgen : forall bs, (forall d, nodes' <> [DNum d]) -> nf (DE nodes' bs uop vars)).
  { intros bs Hne. rewrite nf_unfold. split; [intros d Hd; exfalso; exact (Hne d Hd)|exact Hn]. }
  destruct nodes' as [|m [|m' mt]].
  - inversion H; subst. apply Hgen. intros d Hd; discriminate.
  - destruct m as [c|d|i x]; inversion H; subst.
    + apply Hgen. intros d Hd; discriminate.
    + rewrite nf_unfold. split; [reflexivity|constructor; [exact I|constructor]].
    + apply Hgen. intros d Hd; discriminate.
  - destruct m; inversion H; subst; apply Hgen; intros d0 Hd0; discriminate.
Qed.

(* ---- the other constructors ---- *)
Lemma new_deepex_nf nodes bops uop e : Forall nnfw nodes -> new_deepex C nodes bops uop = Ok e -> nf e.
Proof.
  intros Hn H. unfold new_deepex in H.
  destruct nodes as [|n nt].
  - destruct bops; [destruct uop|].
    + inversion H; subst. rewrite nf_unfold. split; [intros d Hd; discriminate|constructor].
    + cbn in H. discriminate.
    + destruct (negb _); [discriminate|]. refine (dcompile_nf _ e _ H). exact Hn.
  - destruct (negb _); [discriminate|]. refine (dcompile_nf _ e _ H). exact Hn.
Qed.

Lemma reset_vars_nf all : forall (e e1 : deepex D), nf e -> reset_vars e all = Ok e1 -> nf e1 /\ (single_num e1 -> single_num e).
Proof.
  induction e as [nodes bops uop vars IH] using deep_ind. intros e1 Hnf H.
  rewrite reset_vars_unfold in H. destruct (mapM (rv_node all) nodes) as [nodes'| |] eqn:Em; cbn [bind] in H; try discriminate.
  inversion H; subst e1. clear H. rewrite nf_unfold in Hnf. destruct Hnf as [H1 Hch].
  assert (Hn : Forall nnf nodes' /\ (forall d, nodes' = [DNum d] -> nodes = [DNum d])).
  { clear H1. revert nodes' Em. induction nodes as [|n tl IHn]; intros nodes' Em.
    - cbn in Em. inversion Em; subst. split; [constructor|intros d Hd; discriminate].
    - cbn [mapM] in Em. destruct (rv_node all n) as [n'| |] eqn:En; cbn [bind] in Em; try discriminate.
      destruct (mapM (rv_node all) tl) as [tl'| |] eqn:Et; cbn [bind] in Em; try discriminate. inversion Em; subst nodes'.
      inversion Hch as [|? ? Hn1 Hn2]; subst.
      destruct (IHn (fun e' H => IH e' (or_intror H)) Hn2 tl' eq_refl) as [F1 F2].
      assert (Hn' : nnf n' /\ (forall d, n' = DNum d -> n = DNum d)).
      { destruct n as [c|d|i x]; cbn [rv_node] in En.
        - destruct (reset_vars c all) as [c'| |] eqn:Ec; cbn [bind] in En; try discriminate. inversion En; subst n'.
          destruct Hn1 as [Hc Hcs]. destruct (IH c (or_introl eq_refl) c' Hc Ec) as [G1 G2].
          split; [split; [exact G1|intros Hs; exact (Hcs (G2 Hs))]|intros d Hd; discriminate].
        - inversion En; subst. split; [exact I|auto].
        - destruct (index_of x all 0); inversion En; subst. split; [exact I|intros d Hd; discriminate]. }
      split; [constructor; [exact (proj1 Hn')|exact F1]|].
      intros d Hd. inversion Hd; subst.
      destruct tl as [|t tt]; [|cbn [mapM] in Et; destruct (rv_node all t); cbn [bind] in Et; try discriminate;
                                 destruct (mapM (rv_node all) tt); cbn [bind] in Et; discriminate].
      rewrite (proj2 Hn' d eq_refl). reflexivity. }
  destruct Hn as [F1 F2]. split.
  - rewrite nf_unfold. split; [intros d Hd; exact (H1 d (F2 d Hd))|exact F1].
  - intros [d Hd]. cbn [dnodes] in Hd. exists d. exact (F2 d Hd).
Qed.

Lemma wlu_nf (e e' : deepex D) : nf e -> wlu e = Ok e' -> nf e'.
Proof.
  destruct e as [n b [|u us] v]; cbn [wlu]; intros Hnf H; [discriminate|]. inversion H; subst.
  rewrite nf_unfold in *. destruct Hnf as [H1 Hch]. split; [intros d Hd; specialize (H1 d Hd); discriminate|exact Hch].
Qed.
Lemma with_vars_nf (e : deepex D) v : nf e -> nf (with_vars e v).
Proof. destruct e. cbn [with_vars]. rewrite !nf_unfold. tauto. Qed.

Lemma union_nf (a b a' b' : deepex D) : nf a -> nf b -> var_names_union a b = Ok (a', b') -> nf a' /\ nf b'.
Proof.
  intros Ha Hb H. unfold var_names_union in H.
  destruct (reset_vars a _) as [a1| |] eqn:Ea; cbn [bind] in H; try discriminate.
  destruct (reset_vars b _) as [b1| |] eqn:Eb; cbn [bind] in H; try discriminate. inversion H; subst.
  split; [exact (proj1 (reset_vars_nf _ a a' Ha Ea))|exact (proj1 (reset_vars_nf _ b b' Hb Eb))].
Qed.
Theorem operate_bin_nf (a b r : deepex D) name : nf a -> nf b -> operate_bin C tb a b name = Ok r -> nf r.
Proof.
  intros Ha Hb H. unfold operate_bin in H. destruct (find_op name tb 0) as [k|]; [|discriminate].
  destruct (mk_bop tb k) as [o| |]; cbn [bind] in H; try discriminate.
  destruct (var_names_union a b) as [[a' b']| |] eqn:Eu; cbn [bind] in H; try discriminate.
  destruct (union_nf a b a' b' Ha Hb Eu) as [Ha' Hb'].
  destruct (new_deepex C [DExpr a'; DExpr b'] [o] []) as [r0| |] eqn:En; cbn [bind] in H; try discriminate.
  assert (Hch : Forall nnfw [DExpr a'; DExpr b']) by (constructor; [exact Ha'|constructor; [exact Hb'|constructor]]).
  assert (H0 : nf r0) by (exact (new_deepex_nf _ _ _ _ Hch En)).
  exact (dcompile_nf r0 r (nf_nfc r0 H0) H).
Qed.
Theorem operate_unary_nf (a r : deepex D) name : nf a -> operate_unary C tb a name = Ok r -> nf r.
Proof.
  intros Ha H. unfold operate_unary in H. destruct (find_op name tb 0) as [k|]; [|discriminate].
  destruct (negb (has_un tb k)); [discriminate|]. destruct a as [nodes bops uop vars].
  pose proof (nf_nfc _ Ha) as Hc. refine (dcompile_nf _ r _ H). exact Hc.
Qed.
End NormalForm.
