(* C12 — printed expressions parse back to the same expression.  Property theorems only. *)
From Coq Require Import List Arith.
Import ListNotations.
From Exmex.Model Require Import Base EvalBinary Lexer Flat.
Open Scope nat_scope.

(* `_partial`: a flat expression obtained by parsing prints exactly the text it was parsed from (for every text,
   table, data type and literal matcher; with and without constant folding).
   Missing: that the text printed by a deep (or deep-derived flat) expression parses back to the same variables
   and values -- covered by the correspondence (print, parse again, compare against the reference interpreter);
   the known finding F6 (variables that vanish from the printed text) is reported there. *)
Lemma compile_keeps_text {D} (C : carrier D) fb (fx fx' : flatex D) : compile C fb fx = Ok fx' -> ftext fx' = ftext fx.
Proof.
  unfold compile. destruct (compile_loop C _ _ _ _ _ _ _) as [[nodes used]|e|s]; cbn [bind]; try discriminate.
  intros H; inversion H; reflexivity.
Qed.
Theorem C12_flat_unparse_is_source_text_partial :
  forall (D : Type) (C : carrier D) (tb : optable) (fb : bool) (is_literal : str -> option nat) (text : str) (fx : flatex D),
  (parse C tb fb is_literal text = Ok fx \/ parse_wo_compile C tb fb is_literal text = Ok fx) -> ftext fx = text.
Proof.
  intros D C tb fb is_literal text fx.
  assert (Hwo : forall f, parse_wo_compile C tb fb is_literal text = Ok f -> ftext f = text).
  { intros f. unfold parse_wo_compile, parse_tokens_wo, make_expression.
    destruct (tokenize C tb is_literal text) as [ts|e|s]; cbn [bind]; try discriminate.
    destruct (check_preconditions tb ts) as [u|e|s]; cbn [bind]; try discriminate.
    destruct (walk tb _ _ _ _ _ _ _ _) as [[nodes ops]|e|s]; cbn [bind]; try discriminate.
    destruct (Nat.eqb _ _); [|discriminate]. intros H; inversion H; reflexivity. }
  intros [H|H]; [|apply Hwo; exact H].
  unfold parse in H. destruct (parse_wo_compile C tb fb is_literal text) as [f|e|s] eqn:E; cbn [bind] in H; try discriminate.
  rewrite (compile_keeps_text C fb f fx H). apply Hwo. reflexivity.
Qed.

Print Assumptions C12_flat_unparse_is_source_text_partial.
