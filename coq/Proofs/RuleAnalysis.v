(* Proofs/RuleAnalysis.v — the derivative rules of partial.rs are the mathematical derivatives.
   For each rule of the model's table (Model/Partial.v, names checked against the implementation on every run) the
   expression the rule builds is computed in the free term algebra, interpreted over the real numbers (operators by NAME
   in the generated default table), and shown with Coquelicot to be the derivative of the operator it belongs to at
   every point of the interior of its domain: the chain-rule factor of every unary operator, and the sum, difference,
   product, quotient and power rules for arbitrary differentiable operands. *)
From Coq Require Import Reals Lra List NArith.
From Coquelicot Require Import Coquelicot.
Import ListNotations.
From Exmex.Model Require Import Base EvalBinary Lexer Flat Deep Convert Calc Partial.
From Exmex.Gen Require Import Tables.

(* ---- the operators of the default table by name ---- *)
Inductive ucode := CNeg | CPos | CSin | CCos | CTan | CAsin | CAcos | CAtan | CSinh | CCosh | CTanh | CAsinh | CAcosh | CAtanh
                 | CExp | CLn | CLog2 | CLog10 | CSqrt | COtherU.
Inductive bcode := BcPow | BcMul | BcDiv | BcAdd | BcSub | BcOther.
Definition name_of (k : nat) : str := repr (nth k float_table {| repr := []; obin := None; ounary := false; oconst := false |}).
Definition ucode_of (k : nat) : ucode :=
  let n := name_of k in
  if str_eqb n s_minus then CNeg else if str_eqb n s_plus then CPos else
  if str_eqb n n_sin then CSin else if str_eqb n n_cos then CCos else if str_eqb n n_tan then CTan else
  if str_eqb n n_asin then CAsin else if str_eqb n n_acos then CAcos else if str_eqb n n_atan then CAtan else
  if str_eqb n n_sinh then CSinh else if str_eqb n n_cosh then CCosh else if str_eqb n n_tanh then CTanh else
  if str_eqb n n_asinh then CAsinh else if str_eqb n n_acosh then CAcosh else if str_eqb n n_atanh then CAtanh else
  if str_eqb n n_exp then CExp else if str_eqb n n_ln then CLn else if str_eqb n n_log then CLn else
  if str_eqb n n_log2 then CLog2 else if str_eqb n n_log10 then CLog10 else if str_eqb n n_sqrt then CSqrt else COtherU.
Definition bcode_of (k : nat) : bcode :=
  let n := name_of k in
  if str_eqb n s_pow then BcPow else if str_eqb n s_mul then BcMul else if str_eqb n s_div then BcDiv else
  if str_eqb n s_plus then BcAdd else if str_eqb n s_minus then BcSub else BcOther.

(* decimal literals *)
Fixpoint nat_of_digits (s : str) (acc : nat) : option nat :=
  match s with
  | [] => Some acc
  | c :: tl => if (N.leb 48 c && N.leb c 57)%bool then nat_of_digits tl (10 * acc + N.to_nat (c - 48)) else None
  end.
Definition nat_lit (s : str) : option nat := match s with [] => None | _ => nat_of_digits s 0 end.

Open Scope R_scope.
(* the functions the names stand for *)
Definition acosh (x : R) : R := ln (x + sqrt (x * x - 1)).
Definition atanh (x : R) : R := / 2 * ln ((1 + x) / (1 - x)).
Definition rfun (c : ucode) (x : R) : R :=
  match c with
  | CNeg => - x | CPos => x | CSin => sin x | CCos => cos x | CTan => tan x
  | CAsin => asin x | CAcos => acos x | CAtan => atan x
  | CSinh => sinh x | CCosh => cosh x | CTanh => tanh x
  | CAsinh => arcsinh x | CAcosh => acosh x | CAtanh => atanh x
  | CExp => exp x | CLn => ln x | CLog2 => ln x / ln 2 | CLog10 => ln x / ln 10 | CSqrt => sqrt x
  | COtherU => 0
  end.
Fixpoint rinterp (env : list R) (t : term) : R :=
  match t with
  | Lit s => match nat_lit s with Some n => INR n | None => 0 end
  | V i => nth i env 0
  | Un k a => rfun (ucode_of k) (rinterp env a)
  | Bin k a b =>
      match bcode_of k with
      | BcPow => match b with
                 | Lit s => match nat_lit s with Some n => (rinterp env a) ^ n | None => 0 end    (* an integer literal exponent *)
                 | _ => Rpower (rinterp env a) (rinterp env b)
                 end
      | BcMul => rinterp env a * rinterp env b
      | BcDiv => rinterp env a / rinterp env b
      | BcAdd => rinterp env a + rinterp env b
      | BcSub => rinterp env a - rinterp env b
      | BcOther => 0
      end
  | _ => 0
  end.

(* ---- what the rules build, in the free term algebra ---- *)
Definition X : str := [120%N].
Definition xe : deepex term := DE [DVar 0 X] [] [] [X].
(* the chain-rule factor of the unary operator `name` applied to x *)
Definition rule_term (name : str) (r : urule) : res term :=
  do f <- operate_unary term_carrier float_table xe name;
  do d <- apply_urule term_carrier term_dcarrier float_table r f;
  eval_deep_relaxed term_carrier d [V 0].
Definition A : str := [97%N]. Definition A' : str := [98%N]. Definition B : str := [99%N]. Definition B' : str := [100%N].
Definition va : valder (D:=term) := {| vd_val := DE [DVar 0 A] [] [] [A; A'; B; B']; vd_der := DE [DVar 1 A'] [] [] [A; A'; B; B'] |}.
Definition vb : valder (D:=term) := {| vd_val := DE [DVar 2 B] [] [] [A; A'; B; B']; vd_der := DE [DVar 3 B'] [] [] [A; A'; B; B'] |}.
(* the derivative the binary rule builds from (f, f') and (g, g') *)
Definition brule_term (name : str) (r : brule) : res term :=
  do h <- apply_brule term_carrier term_dcarrier float_table r name va vb;
  eval_deep_relaxed term_carrier (vd_der h) [V 0; V 1; V 2; V 3].

Ltac codes :=
  repeat match goal with
  | |- context [ucode_of ?k] => let c := eval vm_compute in (ucode_of k) in change (ucode_of k) with c
  | |- context [bcode_of ?k] => let c := eval vm_compute in (bcode_of k) in change (bcode_of k) with c
  | |- context [nat_lit ?s] => let c := eval vm_compute in (nat_lit s) in change (nat_lit s) with c
  end.
Lemma INR_1 : INR 1 = 1. Proof. reflexivity. Qed.
Lemma INR_2 : INR 2 = 2. Proof. simpl. lra. Qed.
Lemma INR_10 : INR 10 = 10. Proof. simpl. lra. Qed.
Ltac open_rule := eexists; split; [vm_compute; reflexivity|]; cbn [rinterp nth]; codes; cbn [rfun]; rewrite ?INR_1, ?INR_2, ?INR_10.

(* ---- unary rules ---- *)
Lemma rule_sin : exists T, rule_term n_sin USin = Ok T /\ forall x, is_derive sin x (rinterp [x] T).
Proof. open_rule. intros x. auto_derive; [trivial|ring]. Qed.
Lemma rule_cos : exists T, rule_term n_cos UCos = Ok T /\ forall x, is_derive cos x (rinterp [x] T).
Proof. open_rule. intros x. auto_derive; [trivial|ring]. Qed.
Lemma rule_exp : exists T, rule_term n_exp UExp = Ok T /\ forall x, is_derive exp x (rinterp [x] T).
Proof. open_rule. intros x. auto_derive; [trivial|ring]. Qed.
Lemma rule_ln : exists T, rule_term n_ln ULn = Ok T /\ forall x, 0 < x -> is_derive ln x (rinterp [x] T).
Proof. open_rule. intros x Hx. auto_derive; [exact Hx|field; lra]. Qed.
Lemma rule_log : exists T, rule_term n_log ULn = Ok T /\ forall x, 0 < x -> is_derive ln x (rinterp [x] T).
Proof. open_rule. intros x Hx. auto_derive; [exact Hx|field; lra]. Qed.
Lemma ln_pos_of_gt1 y : 1 < y -> ln y <> 0.
Proof. intros H. apply Rgt_not_eq. rewrite <- ln_1. apply ln_increasing; lra. Qed.
Lemma rule_log2 : exists T, rule_term n_log2 ULog2 = Ok T /\ forall x, 0 < x -> is_derive (fun x => ln x / ln 2) x (rinterp [x] T).
Proof.
  open_rule. intros x Hx. pose proof (ln_pos_of_gt1 2 ltac:(lra)).
  auto_derive; [exact Hx|]. field. split; [assumption|lra].
Qed.
Lemma rule_log10 : exists T, rule_term n_log10 ULog10 = Ok T /\ forall x, 0 < x -> is_derive (fun x => ln x / ln 10) x (rinterp [x] T).
Proof.
  open_rule. intros x Hx. pose proof (ln_pos_of_gt1 10 ltac:(lra)).
  auto_derive; [exact Hx|]. field. split; [assumption|lra].
Qed.
Lemma rule_sqrt : exists T, rule_term n_sqrt USqrt = Ok T /\ forall x, 0 < x -> is_derive sqrt x (rinterp [x] T).
Proof.
  open_rule. intros x Hx. auto_derive; [exact Hx|].
  field. apply Rgt_not_eq. apply sqrt_lt_R0. exact Hx.
Qed.
Lemma rule_tan : exists T, rule_term n_tan UTan = Ok T /\ forall x, cos x <> 0 -> is_derive tan x (rinterp [x] T).
Proof.
  open_rule. intros x Hx. unfold tan. auto_derive; [exact Hx|].
  pose proof (sin2_cos2 x) as H1. unfold Rsqr in H1.
  replace (1 * cos x * / cos x + sin x * (- (1 * - sin x) * / (cos x * cos x))) with ((cos x * cos x + sin x * sin x) / (cos x * cos x)) by (field; exact Hx).
  replace (cos x * cos x + sin x * sin x) with 1 by lra. field. exact Hx.
Qed.
Lemma rule_atan : exists T, rule_term n_atan UAtan = Ok T /\ forall x, is_derive atan x (rinterp [x] T).
Proof.
  open_rule. intros x. apply is_derive_Reals. replace (1 / (1 + x ^ 2)) with (/ (1 + x ^ 2)) by (field; nra).
  apply derivable_pt_lim_atan.
Qed.
Lemma rule_asin : exists T, rule_term n_asin UAsin = Ok T /\ forall x, -1 < x < 1 -> is_derive asin x (rinterp [x] T).
Proof.
  open_rule. intros x Hx. apply is_derive_Reals.
  pose proof (derive_pt_asin x Hx) as Hd. unfold derive_pt in Hd.
  destruct (derivable_pt_asin x Hx) as [l Hl]. cbn in Hd. subst l.
  replace (1 / sqrt (1 - x ^ 2)) with (1 / sqrt (1 - x²)) by (unfold Rsqr; do 2 f_equal; ring). exact Hl.
Qed.
Lemma rule_acos : exists T, rule_term n_acos UAcos = Ok T /\ forall x, -1 < x < 1 -> is_derive acos x (rinterp [x] T).
Proof.
  open_rule. intros x Hx. apply is_derive_Reals.
  pose proof (derive_pt_acos x Hx) as Hd. unfold derive_pt in Hd.
  destruct (derivable_pt_acos x Hx) as [l Hl]. cbn in Hd. subst l.
  replace (- (1 / sqrt (1 - x ^ 2))) with (- 1 / sqrt (1 - x²)) by (unfold Rsqr; replace (x ^ 2) with (x * x) by ring; field; apply Rgt_not_eq, sqrt_lt_R0; nra).
  exact Hl.
Qed.
Lemma rule_sinh : exists T, rule_term n_sinh USinh = Ok T /\ forall x, is_derive sinh x (rinterp [x] T).
Proof. open_rule. intros x. apply is_derive_Reals. apply derivable_pt_lim_sinh. Qed.
Lemma rule_cosh : exists T, rule_term n_cosh UCosh = Ok T /\ forall x, is_derive cosh x (rinterp [x] T).
Proof. open_rule. intros x. apply is_derive_Reals. apply derivable_pt_lim_cosh. Qed.
Lemma exp_sum_pos x : exp x + exp (- x) <> 0.
Proof. pose proof (exp_pos x). pose proof (exp_pos (- x)). lra. Qed.
Lemma rule_tanh : exists T, rule_term n_tanh UTanh = Ok T /\ forall x, is_derive tanh x (rinterp [x] T).
Proof.
  open_rule. intros x. unfold tanh, sinh, cosh. pose proof (exp_sum_pos x) as Hp.
  auto_derive; [lra|]. field. exact Hp.
Qed.
Lemma rule_asinh : exists T, rule_term n_asinh UAsinh = Ok T /\ forall x, is_derive arcsinh x (rinterp [x] T).
Proof.
  open_rule. intros x. apply is_derive_Reals.
  replace (1 / sqrt (1 + x ^ 2)) with (/ sqrt (x ^ 2 + 1)) by (replace (1 + x ^ 2) with (x ^ 2 + 1) by ring; field; apply Rgt_not_eq, sqrt_lt_R0; nra).
  apply derivable_pt_lim_arcsinh.
Qed.
Lemma rule_acosh : exists T, rule_term n_acosh UAcosh = Ok T /\ forall x, 1 < x -> is_derive acosh x (rinterp [x] T).
Proof.
  open_rule. intros x Hx. unfold acosh.
  assert (H1 : 0 < x * x + - (1)) by nra. assert (Hs : 0 < sqrt (x * x + - (1))) by (apply sqrt_lt_R0; exact H1).
  auto_derive; [split; [exact H1|split; [lra|exact I]]|].
  assert (Hm : sqrt (x - 1) * sqrt (x + 1) = sqrt (x * x + - (1))).
  { rewrite <- sqrt_mult by lra. f_equal. ring. }
  rewrite Hm. field. split; lra.
Qed.
Lemma rule_atanh : exists T, rule_term n_atanh UAtanh = Ok T /\ forall x, -1 < x < 1 -> is_derive atanh x (rinterp [x] T).
Proof.
  open_rule. intros x Hx. unfold atanh.
  auto_derive; [split; [lra|split; [apply Rmult_lt_0_compat; [lra|apply Rinv_0_lt_compat; lra]|exact I]]|]. field. repeat split; nra.
Qed.
Lemma rule_neg : exists T, rule_term s_minus UNegOne = Ok T /\ forall x, is_derive (fun x => - x) x (rinterp [x] T).
Proof. open_rule. intros x. auto_derive; try exact I; ring. Qed.
Lemma rule_pos : exists T, rule_term s_plus UOne = Ok T /\ forall x, is_derive (fun x => x) x (rinterp [x] T).
Proof. open_rule. intros x. auto_derive; try exact I; ring. Qed.

(* ---- binary rules, for arbitrary operands differentiable at t ---- *)
Section Binary.
Variables (f g : R -> R) (t f' g' : R).
Hypothesis Hf : is_derive f t f'.
Hypothesis Hg : is_derive g t g'.
Let Ef : Derive (fun x => f x) t = f' := is_derive_unique f t f' Hf.
Let Eg : Derive (fun x => g x) t = g' := is_derive_unique g t g' Hg.
Let exf : ex_derive (fun x => f x) t := ex_intro _ f' Hf.
Let exg : ex_derive (fun x => g x) t := ex_intro _ g' Hg.

Lemma rule_add : exists T, brule_term s_plus BAdd = Ok T /\ (is_derive (fun x => f x + g x) t (rinterp [f t; f'; g t; g'] T)).
Proof. open_rule. auto_derive; [repeat split; assumption|]. rewrite Ef, Eg. ring. Qed.
Lemma rule_sub : exists T, brule_term s_minus BSub = Ok T /\ (is_derive (fun x => f x - g x) t (rinterp [f t; f'; g t; g'] T)).
Proof. open_rule. auto_derive; [repeat split; assumption|]. rewrite Ef, Eg. ring. Qed.
Lemma rule_mul : exists T, brule_term s_mul BMul = Ok T /\ (is_derive (fun x => f x * g x) t (rinterp [f t; f'; g t; g'] T)).
Proof. open_rule. auto_derive; [repeat split; assumption|]. rewrite Ef, Eg. ring. Qed.
Lemma rule_div : exists T, brule_term s_div BDiv = Ok T /\ (g t <> 0 -> is_derive (fun x => f x / g x) t (rinterp [f t; f'; g t; g'] T)).
Proof. open_rule. intros Hn. auto_derive; [repeat split; assumption|]. rewrite Ef, Eg. field. exact Hn. Qed.
(* the power rule with a variable exponent, for a positive base *)
Lemma rule_pow : exists T, brule_term s_pow BPow = Ok T /\ (0 < f t -> is_derive (fun x => Rpower (f x) (g x)) t (rinterp [f t; f'; g t; g'] T)).
Proof.
  open_rule. intros Hp. unfold Rpower. auto_derive; [repeat split; assumption|]. rewrite Ef, Eg.
  replace (exp ((g t - 1) * ln (f t))) with (exp (g t * ln (f t)) * / f t).
  2:{ replace ((g t - 1) * ln (f t)) with (g t * ln (f t) + - ln (f t)) by ring. rewrite exp_plus, exp_Ropp, exp_ln by exact Hp. reflexivity. }
  field. lra.
Qed.
End Binary.
