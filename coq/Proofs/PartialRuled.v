(* Proofs/PartialRuled.v — differentiation fails on operators without a rule: if partial_deepex (default mode) returns an
   expression, then every binary operator and every unary operator recorded anywhere in the differentiated expression has
   a derivative rule.  For every data type and table. *)
From Coq Require Import List Arith Lia Bool ZArith.
Import ListNotations.
From Exmex.Model Require Import Base EvalBinary Lexer Flat Deep Convert Calc Partial.
From Exmex.Proofs Require Import SortDesc DeepSem.
Open Scope nat_scope.

Section PartialRuled.
Context {D : Type}.
Variable C : carrier D.
Variable DC : dcarrier D.
Variable tb : optable.

Definition bruled (o : dbop) : Prop := exists br u, find_rule (repr_of tb (bidx o)) = Some (Some br, u).
Definition uruled (k : nat) : Prop := exists b ur, find_rule (repr_of tb k) = Some (b, Some ur).
Fixpoint ruled (e : deepex D) : Prop :=
  match e with
  | DE nodes bops uop _ =>
      Forall bruled bops /\ Forall uruled uop /\
      (fix all (l : list (dnode D)) : Prop := match l with [] => True | n :: tl => (match n with DExpr c => ruled c | _ => True end) /\ all tl end) nodes
  end.
Definition nruled (n : dnode D) : Prop := match n with DExpr c => ruled c | _ => True end.
Lemma ruled_unfold nodes bops uop vars : ruled (DE nodes bops uop vars) <-> Forall bruled bops /\ Forall uruled uop /\ Forall nruled nodes.
Proof.
  cbn [ruled].
  assert (H : (fix all (l : list (dnode D)) : Prop := match l with [] => True | n :: tl => (match n with DExpr c => ruled c | _ => True end) /\ all tl end) nodes <-> Forall nruled nodes).
  { induction nodes as [|n tl IH]; [split; [constructor|trivial]|]. split.
    - intros [H1 H2]. constructor; [exact H1|apply IH; exact H2].
    - intros H. inversion H; subst. split; [assumption|apply IH; assumption]. }
  rewrite H. reflexivity.
Qed.

(* the unary stack *)
Lemma outer_factors_ruled : forall n (e : deepex D) facs, length (duop e) <= n -> outer_factors C DC tb e n = Ok facs -> Forall uruled (duop e).
Proof.
  induction n as [|n IH]; intros e facs Hl H.
  - destruct (duop e); [constructor|cbn in Hl; lia].
  - cbn [outer_factors] in H. destruct (duop e) as [|k us] eqn:Eu; [constructor|].
    destruct (find_rule (repr_of tb k)) as [[b [ur|]]|] eqn:Er; try discriminate.
    destruct (apply_urule C DC tb ur e) as [fac| |]; cbn [bind] in H; try discriminate.
    destruct (wlu e) as [e'| |] eqn:Ew; cbn [bind] in H; try discriminate.
    destruct (outer_factors C DC tb e' n) as [rest| |] eqn:Eo; cbn [bind] in H; try discriminate.
    assert (Hu' : duop e' = us) by (destruct e as [n0 b0 u0 v0]; cbn [duop] in Eu; subst u0; cbn [wlu] in Ew; inversion Ew; reflexivity).
    constructor; [exists b, ur; exact Er|]. rewrite <- Hu'. apply (IH e' rest); [rewrite Hu'; cbn in Hl; lia|exact Eo].
Qed.
Lemma derivative_outer_ruled (e o : deepex D) : derivative_outer C DC tb e = Ok o -> Forall uruled (duop e).
Proof.
  unfold derivative_outer. intros H. destruct (outer_factors C DC tb e (length (duop e))) as [facs| |] eqn:Ef; cbn [bind] in H; try discriminate.
  exact (outer_factors_ruled _ e facs (le_n _) Ef).
Qed.

(* the reduction loop: every scheduled operator has a rule *)
Lemma inner_loop_ruled bops : forall sigma i ni nodes r,
  inner_loop C DC tb sigma i ni nodes bops MError = Ok r -> forall b, In b sigma -> exists o, nth_error bops b = Some o /\ bruled o.
Proof.
  induction sigma as [|b0 stl IH]; intros i ni nodes r H b Hb; [destruct Hb|].
  cbn [inner_loop] in H. destruct (nth_error ni i) as [p|]; [|discriminate].
  destruct (nth_error nodes p) as [n1|]; [|discriminate]. destruct (nth_error nodes (S p)) as [n2|]; [|discriminate].
  destruct (nth_error bops b0) as [o|] eqn:Eo; [|discriminate].
  destruct (find_rule (repr_of tb (bidx o))) as [[[br|] u]|] eqn:Er; cbn [bind] in H; try discriminate.
  destruct (apply_brule C DC tb br (repr_of tb (bidx o)) n1 n2) as [pd| |]; cbn [bind] in H; try discriminate.
  destruct Hb as [<-|Hb]; [exists o; split; [exact Eo|exists br, u; exact Er]|exact (IH _ _ _ _ H b Hb)].
Qed.

Section WithPreds.
Variable okop : dbop -> Prop.
Variable okvar : nat -> str -> Prop.
Variable okvars : list str -> Prop.
Theorem partial_ok_ruled (vi : nat) : forall fuel (e d : deepex D),
  dwf okop okvar okvars e -> partial_deepex C DC tb fuel vi e MError = Ok d -> ruled e.
Proof.
  induction fuel as [|fuel IH]; intros e d Hwf H; [discriminate|].
  destruct e as [nodes bops uop vars]. rewrite dwf_unfold in Hwf. destruct Hwf as (Hlen & _ & _ & Hn). cbn [partial_deepex] in H.
  match type of H with bind ?m _ = _ => destruct m as [inner| |] eqn:Einner; cbn [bind] in H; try discriminate end.
  destruct (derivative_outer C DC tb (DE nodes bops uop vars)) as [outer| |] eqn:Eo; cbn [bind] in H; try discriminate.
  pose proof (derivative_outer_ruled _ _ Eo) as Hu. cbn [duop] in Hu. cbn [dnodes dbops] in Einner.
  rewrite ruled_unfold. destruct nodes as [|n [|n2 tl]]; [cbn in Hlen; discriminate| |].
  - (* one node *)
    destruct bops; [|cbn in Hlen; lia]. split; [constructor|]. split; [exact Hu|]. constructor; [|constructor].
    destruct n as [e'|d0|j x]; cbn [nruled]; try exact I.
    match type of Einner with bind ?m _ = _ => destruct m as [r| |] eqn:Er; cbn [bind] in Einner; try discriminate end.
    inversion Hn as [|? ? Hn1 _]; subst. exact (IH e' r Hn1 Er).
  - (* several nodes *)
    set (nodes := n :: n2 :: tl) in *.
    match type of Einner with bind ?m _ = _ => destruct m as [vds| |] eqn:Evds; cbn [bind] in Einner; try discriminate end.
    match type of Einner with bind ?m _ = _ => destruct m as [final| |] eqn:Efinal; cbn [bind] in Einner; try discriminate end.
    split; [|split; [exact Hu|]].
    + apply Forall_forall. intros o Ho. destruct (In_nth_error _ _ Ho) as [b Hb].
      destruct (sort_desc_spec (dkey nodes bops) (length bops)) as (_ & _ & Hin).
      destruct (inner_loop_ruled bops _ _ _ _ _ Efinal b) as (o' & Ho' & Hr).
      { unfold prioritized_indices. apply Hin. apply nth_error_Some. congruence. }
      rewrite Hb in Ho'. inversion Ho'; subst o'. exact Hr.
    + clear -Evds Hn IH. revert vds Evds. induction nodes as [|m ms IHn]; intros vds Evds; [constructor|].
      cbn [mapM] in Evds. inversion Hn as [|? ? Hn1 Hn2]; subst.
      match type of Evds with bind ?m0 _ = _ => destruct m0 as [vd| |] eqn:Evd; cbn [bind] in Evds; try discriminate end.
      match type of Evds with bind ?m0 _ = _ => destruct m0 as [vt| |] eqn:Evt; cbn [bind] in Evds; try discriminate end.
      constructor; [|exact (IHn Hn2 vt eq_refl)].
      destruct m as [e'|d0|j x]; cbn [nruled]; try exact I.
      cbn [bind] in Evd. destruct (partial_deepex C DC tb fuel vi e' MError) as [dv_| |] eqn:Ed; cbn [bind] in Evd; try discriminate.
      exact (IH e' dv_ Hn1 Ed).
Qed.
End WithPreds.
End PartialRuled.
