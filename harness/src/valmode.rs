//! C16 / C17: the operators of the value type applied directly (function pointers of the operator table).
use crate::cases::json_str;
use crate::gen::Rng;
use crate::modes::Args;
use crate::term::g_str;
use exmex::{MakeOperators, Val, ValOpsFactory};
use std::io::Write as _;

type V = Val<i32, f64>;

fn g_float(f: f64) -> String {
    if f.is_nan() { return "nan".into() }
    if f.is_infinite() { return if f > 0.0 { "infinity".into() } else { "neg_infinity".into() } }
    let bits = f.to_bits();
    let sign = if bits >> 63 == 1 { "-" } else { "" };
    let exp = ((bits >> 52) & 0x7ff) as i64;
    let mant = bits & 0x000f_ffff_ffff_ffff;
    if exp == 0 && mant == 0 { return format!("({sign}0x0p0)") }
    if exp == 0 { return format!("({sign}0x0.{mant:013x}p-1022)") }
    format!("({sign}0x1.{mant:013x}p{})", exp - 1023)
}
fn g_fval(f: f64) -> String { format!("(FExact {})", g_float(f)) }
fn g_val(v: &V) -> String {
    match v {
        Val::Array(a) => format!("(VArr [{}])", a.iter().map(|x| g_fval(*x)).collect::<Vec<_>>().join("; ")),
        Val::Int(i) => format!("(VInt ({i})%Z)"),
        Val::Float(f) => format!("(VFloat {})", g_fval(*f)),
        Val::Bool(b) => format!("(VBool {b})"),
        Val::Error(_) => "VErr".into(),
        Val::None => "VNone".into(),
    }
}
fn pretty(v: &V) -> String { match v { Val::Error(_) => "Error".into(), x => format!("{x:?}") } }

// ---- independent reading of the documented rules (oracle); Skip = the documentation does not fix the outcome
#[derive(Clone, Debug)]
enum RV { I(i64), F(f64), B(bool), Arr, Nn, E, Skip }
fn to_rv(v: &V) -> RV { match v { Val::Int(i) => RV::I(*i as i64), Val::Float(f) => RV::F(*f), Val::Bool(b) => RV::B(*b), Val::Array(_) => RV::Arr, Val::None => RV::Nn, Val::Error(_) => RV::E } }
fn rng_i(z: i128) -> RV { if z >= i32::MIN as i128 && z <= i32::MAX as i128 { RV::I(z as i64) } else { RV::E } }
fn ref_bin(op: &str, a: &RV, b: &RV) -> RV {
    use RV::*;
    let num = |x: &RV| match x { I(i) => Some(*i as f64), F(f) => Some(*f), _ => Option::None };
    match op {
        "+" | "-" | "*" | "/" | "min" | "max" => match (a, b) {
            (Arr, _) | (_, Arr) => Skip,
            (E, _) | (_, E) => E,
            (I(x), I(y)) => { let (x, y) = (*x as i128, *y as i128); match op { "+" => rng_i(x + y), "-" => rng_i(x - y), "*" => rng_i(x * y), "/" => if y == 0 { E } else { rng_i(x / y) }, "min" => rng_i(x.min(y)), _ => rng_i(x.max(y)) } }
            (I(_), F(_)) | (F(_), I(_)) | (F(_), F(_)) => { let (x, y) = (num(a).unwrap(), num(b).unwrap()); F(match op { "+" => x + y, "-" => x - y, "*" => x * y, "/" => x / y, "min" => x.min(y), _ => x.max(y) }) }
            _ => E },
        "%" => match (a, b) { (I(x), I(y)) => if *y == 0 || (*x == i32::MIN as i64 && *y == -1) { E } else { I(x % y) }, _ => E },
        "|" | "&" | "XOR" => match (a, b) { (I(x), I(y)) => I(match op { "|" => (*x as i32 | *y as i32) as i64, "&" => (*x as i32 & *y as i32) as i64, _ => (*x as i32 ^ *y as i32) as i64 }), _ => E },
        "<<" | ">>" => match (a, b) { (I(x), I(y)) => if *y < 0 || *y >= 32 { E } else { I(if op == "<<" { ((*x as i32) << (*y as u32)) as i64 } else { ((*x as i32) >> (*y as u32)) as i64 }) }, _ => E },
        "^" => match (a, b) {
            (I(x), I(y)) => if *y < 0 { E } else { let mut acc: i128 = 1; let mut ok = true; for _ in 0..(*y).min(70) { acc *= *x as i128; if acc.abs() > (1i128 << 40) { ok = false; break } }
                if *y > 70 && !(*x == 0 || *x == 1 || *x == -1) { ok = false }
                if *x == 0 || *x == 1 { I(if *y == 0 { 1 } else { *x }) } else if *x == -1 { I(if y % 2 == 0 { 1 } else { -1 }) } else if ok { rng_i(acc) } else { E } },
            (F(_), F(_)) | (F(_), I(_)) => Skip, (E, _) | (_, E) => E, _ => E },
        "==" | "<" | "<=" | ">" | ">=" | "!=" => { let r = match (a, b) { (B(x), B(y)) => match op { "==" => x == y, "!=" => x != y, _ => false },
                _ => match (num(a), num(b)) { (Some(x), Some(y)) => match op { "==" => x == y, "!=" => x != y, "<" => x < y, "<=" => x <= y, ">" => x > y, _ => x >= y }, _ => op == "!=" } }; B(r) }
        "if" => { let c = match b { B(x) => Some(*x), I(i) => Some(*i != 0), F(f) => Some(*f != 0.0), _ => Option::None }; match c { Some(true) => a.clone(), Some(false) => Nn, Option::None => E } }
        "else" => match a { Nn => b.clone(), _ => a.clone() },
        _ => Skip }
}
fn ref_un(op: &str, a: &RV) -> RV { use RV::*; match op {
    "-" => match a { I(x) => rng_i(-(*x as i128)), F(f) => F(-f), Arr => Skip, _ => E },
    "abs" => match a { I(x) => rng_i((*x as i128).abs()), F(f) => F(f.abs()), _ => E },
    "signum" => match a { I(x) => I(x.signum()), F(f) => F(f.signum()), _ => E },
    "to_int" => match a { I(x) => I(*x), F(f) => if f.is_finite() && f.trunc() >= i32::MIN as f64 && f.trunc() <= i32::MAX as f64 { I(f.trunc() as i64) } else { E }, B(b) => I(*b as i64), _ => E },
    "to_float" => match a { I(x) => F(*x as f64), F(f) => F(*f), B(b) => F(*b as i64 as f64), _ => E },
    "fact" => match a { I(x) => if *x < 0 { E } else { let mut acc: i128 = 1; let mut ok = true; for k in 1..=*x { acc *= k as i128; if acc > i32::MAX as i128 { ok = false; break } } if ok { I(acc as i64) } else { E } }, _ => E },
    "sin" | "cos" | "tan" | "asin" | "acos" | "atan" | "sinh" | "cosh" | "tanh" | "asinh" | "acosh" | "atanh" | "floor" | "ceil" | "trunc" | "fract" | "exp" | "sqrt" | "cbrt" | "round" | "ln" | "log10" | "log2" | "log" =>
        match a { F(_) => Skip, _ => E },
    _ => Skip } }
fn same_rv(got: &RV, want: &RV) -> bool { use RV::*; match (got, want) { (_, Skip) => true, (I(x), I(y)) => x == y, (F(x), F(y)) => x.to_bits() == y.to_bits() || (x.is_nan() && y.is_nan()) || (*x == 0.0 && *y == 0.0), (B(x), B(y)) => x == y, (Arr, Arr) | (Nn, Nn) | (E, E) => true, _ => false } }

pub fn catalogue(r: &mut Rng, extra_random: usize) -> Vec<V> {
    let mut cat: Vec<V> = vec![];
    for i in [i32::MIN, i32::MIN + 1, -65536, -7, -2, -1, 0, 1, 2, 3, 5, 12, 13, 31, 32, 33, 46340, 46341, 65536, i32::MAX - 1, i32::MAX] { cat.push(Val::Int(i)); }
    for f in [f64::NAN, f64::INFINITY, f64::NEG_INFINITY, 0.0, -0.0, 1.0, -1.0, 0.5, 2.5, -2.5, 1e10, -1e10, 2147483647.0, 2147483647.5, 2147483648.0, -2147483648.0, -2147483648.5, -2147483649.0, 5e-324, 1e308, 0.1] { cat.push(Val::Float(f)); }
    cat.push(Val::Bool(true)); cat.push(Val::Bool(false)); cat.push(Val::None); cat.push(Val::Error(exmex::ExError::new("e")));
    for n in 0..6usize { cat.push(Val::Array((0..n).map(|k| k as f64 * 1.5 - 1.0).collect())); }
    cat.push(Val::Array([f64::NAN, 1e308, -0.0].into_iter().collect()));
    for _ in 0..extra_random {
        cat.push(match r.below(4) { 0 => Val::Int(r.next() as i32), 1 => Val::Int((r.next() % 200) as i32 - 100), 2 => Val::Float(f64::from_bits(r.next())), _ => Val::Float((r.next() % 2000) as f64 / 8.0 - 100.0) });
    }
    cat
}

pub fn run(a: &Args) {
    let mut r = Rng::new(a.seed ^ 0x16);
    let ops = ValOpsFactory::<i32, f64>::make();
    let cat = catalogue(&mut r, if a.thorough { 40 } else { 6 });
    struct C { g: String, note: String, family: &'static str, ok: Option<bool>, onote: String, answer: String }
    let mut cases: Vec<C> = vec![];
    let mut panics = 0;
    for op in &ops {
        let name = op.repr();
        if let Ok(b) = op.bin() {
            for x in &cat { for y in &cat {
                let (x2, y2, f) = (x.clone(), y.clone(), b.apply);
                let res = std::panic::catch_unwind(move || f(x2, y2)).ok();
                if res.is_none() { panics += 1 }
                let want = ref_bin(name, &to_rv(x), &to_rv(y));
                let (ok, onote) = match &res { None => (Some(false), "the operator panicked".to_string()),
                    Some(got) => { let s = same_rv(&to_rv(got), &want); (Some(s), if s { String::new() } else { format!("documented rules give {want:?}") }) } };
                cases.push(C { g: format!("VB {} {} {} {}", g_str(name), g_val(x), g_val(y), match &res { Some(v) => format!("(Some {})", g_val(v)), None => "None".into() }),
                    note: format!("{} {name} {}", pretty(x), pretty(y)), family: "binary-application", ok, onote, answer: res.as_ref().map(pretty).unwrap_or("PANIC".into()) });
            } }
        }
        if let Ok(u) = op.unary() {
            for x in &cat {
                let x2 = x.clone();
                let res = std::panic::catch_unwind(move || u(x2)).ok();
                if res.is_none() { panics += 1 }
                let want = ref_un(name, &to_rv(x));
                let (ok, onote) = match &res { None => (Some(false), "the operator panicked".to_string()),
                    Some(got) => { let s = same_rv(&to_rv(got), &want); (Some(s), if s { String::new() } else { format!("documented rules give {want:?}") }) } };
                cases.push(C { g: format!("VU {} {} {}", g_str(name), g_val(x), match &res { Some(v) => format!("(Some {})", g_val(v)), None => "None".into() }),
                    note: format!("{name}({})", pretty(x)), family: "unary-application", ok, onote, answer: res.as_ref().map(pretty).unwrap_or("PANIC".into()) });
            }
        }
    }
    // the same through parse-time folding and evaluation of parsed expressions (panics only; values are the operators')
    let lits = ["2147483647", "0", "1", "2", "0.5", "1e10", "10000000000.0", "true", "[1, 2, 3]", "2147483648.0", "31", "32", "33", "46341", "65536", "13"];
    for op in &ops {
        let name = op.repr();
        for x in lits { for y in lits {
            let texts = if op.has_bin() { vec![format!("{x} {name} {y}"), format!("{name}({x}, {y})"), format!("(0-{x}-1) {name} (0-{y})"), format!("(0-{x}-1) {name} (0-1)")] } else if op.has_unary() { vec![format!("{name}({x})"), format!("{name}(0-{x}-1)")] } else { vec![] };
            for t in texts {
                let t2 = t.clone();
                let res = std::panic::catch_unwind(move || { let e = exmex::parse_val::<i32, f64>(&t2); e.map(|e| { use exmex::Express; e.eval(&[]).map(|_| ()) }).is_ok() });
                if res.is_err() { panics += 1;
                    cases.push(C { g: format!("VU {} VNone None", g_str(name)), note: format!("parse_val({t:?}) / eval"), family: "parse-time-folding", ok: Some(false), onote: "panicked".into(), answer: "PANIC".into() }); }
            }
        } }
    }
    // "expressions over these operators obey the same precedence semantics as any other table": constant folding regroups
    // the literal operands of an operator flagged commutative, which is invisible only if the flagged operator is
    // associative.  Every flagged operator of the table over all triples of the catalogue: (a o b) o c against a o (b o c),
    // wherever no intermediate result is an error value (overflow); two float results are not compared (rounding), results of
    // different kinds or different integers / booleans are failures (defect F11: && and ||)
    let mut assoc_triples = 0u64;
    for op in &ops {
        let name = op.repr();
        let Ok(b) = op.bin() else { continue };
        if !b.is_commutative { continue }
        let f = b.apply;
        let is_err = |v: &V| matches!(v, Val::Error(_));
        let close = |x: &V, y: &V| -> bool { match (x, y) {
            (Val::Int(p), Val::Int(q)) => p == q, (Val::Bool(p), Val::Bool(q)) => p == q, (Val::None, Val::None) => true,
            // two floats (or two arrays of floats) may differ by rounding, cancellation and underflow: not compared
            (Val::Float(_), Val::Float(_)) => true, (Val::Array(_), Val::Array(_)) => true,
            (Val::Error(_), Val::Error(_)) => true, _ => false } };
        let mut reported = 0;
        for x in &cat { for y in &cat { for z in &cat {
            if is_err(x) || is_err(y) || is_err(z) { continue }
            let r = std::panic::catch_unwind(|| { let xy = f(x.clone(), y.clone()); let yz = f(y.clone(), z.clone()); if matches!(xy, Val::Error(_)) || matches!(yz, Val::Error(_)) { return None }
                let l = f(xy, z.clone()); let rr = f(x.clone(), yz); Some((l, rr)) });
            assoc_triples += 1;
            if let Ok(Some((l, rr))) = r { if is_err(&l) || is_err(&rr) { continue }
                if !close(&l, &rr) && reported < 8 { reported += 1;
                    cases.push(C { g: format!("VU {} VNone None", g_str(name)), note: format!("({} {name} {}) {name} {} = {}, but {} {name} ({} {name} {}) = {}", pretty(x), pretty(y), pretty(z), pretty(&l), pretty(x), pretty(y), pretty(z), pretty(&rr)),
                        family: "flagged-operators-are-associative", ok: Some(false), onote: format!("the operator {name} is flagged commutative (its literal operands are regrouped by constant folding) but is not associative on these operands"), answer: pretty(&l) }); } }
        } } }
    }
    println!("flagged_operator_triples={assoc_triples}");
    // the other instantiations of the value type (the model is Val<i32,f64>): every operator x a boundary catalogue of
    // the instantiation, applied directly and through parse-time folding, must not panic (results are not compared)
    let mut other_apps = 0u64;
    macro_rules! inst { ($I:ty, $F:ty, $label:expr) => {{
        let ops2 = ValOpsFactory::<$I, $F>::make();
        let bits = <$I>::BITS;
        let two_pow = (2.0 as $F).powi(bits as i32 - 1);
        let mut cat2: Vec<Val<$I, $F>> = vec![];
        for i in [<$I>::MIN, <$I>::MIN + 1, -1, 0, 1, 2, 3, 13, 21, 31, 32, 33, 63, 64, 65, 127, <$I>::MAX - 1, <$I>::MAX, <$I>::MAX / 2 + 1, (1 as $I) << (bits / 2 - 1), ((1 as $I) << (bits / 2)) - 1] { cat2.push(Val::Int(i)); }
        for f in [<$F>::NAN, <$F>::INFINITY, <$F>::NEG_INFINITY, 0.0, -0.0, 0.5, -2.5, 1.0, two_pow, -two_pow, two_pow * 2.0, -two_pow * 2.0, two_pow * (1.0 - <$F>::EPSILON), -two_pow * (1.0 + 2.0 * <$F>::EPSILON), two_pow * (1.0 + 2.0 * <$F>::EPSILON), <$F>::MAX, <$F>::MIN, <$F>::MIN_POSITIVE, <$I>::MAX as $F, <$I>::MIN as $F] { cat2.push(Val::Float(f)); }
        cat2.push(Val::Bool(true)); cat2.push(Val::Bool(false)); cat2.push(Val::None); cat2.push(Val::Error(exmex::ExError::new("e")));
        for n in 0..5usize { cat2.push(Val::Array((0..n).map(|k| k as $F * 1.5 - 1.0).collect())); }
        for op in &ops2 {
            let name = op.repr();
            if let Ok(b) = op.bin() { for x in &cat2 { for y in &cat2 { other_apps += 1;
                let (x2, y2, f) = (x.clone(), y.clone(), b.apply);
                if std::panic::catch_unwind(move || { let _ = f(x2, y2); }).is_err() { panics += 1;
                    cases.push(C { g: format!("VU {} VNone None", g_str(name)), note: format!("[{}] {x:?} {name} {y:?}", $label), family: "other-instantiations", ok: Some(false), onote: "the operator panicked".into(), answer: "PANIC".into() }); } } } }
            if let Ok(u) = op.unary() { for x in &cat2 { other_apps += 1;
                let x2 = x.clone();
                if std::panic::catch_unwind(move || { let _ = u(x2); }).is_err() { panics += 1;
                    cases.push(C { g: format!("VU {} VNone None", g_str(name)), note: format!("[{}] {name}({x:?})", $label), family: "other-instantiations", ok: Some(false), onote: "the operator panicked".into(), answer: "PANIC".into() }); } } }
        }
        // boundary literals folded while parsing
        let lits2: Vec<String> = vec![format!("{}", <$I>::MAX), format!("{:?}", two_pow), format!("{:?}", two_pow * 2.0), "0".into(), "1".into(), "63".into(), "64".into(), "0.5".into(), "[1, 2, 3]".into()];
        for op in &ops2 { let name = op.repr(); for x in &lits2 { for y in &lits2 {
            let texts = if op.has_bin() { vec![format!("{x} {name} {y}"), format!("(0-{x}-1) {name} (0-{y})")] } else if op.has_unary() { vec![format!("{name}({x})"), format!("{name}(0-{x})"), format!("{name}(0-{x}-1)")] } else { vec![] };
            for t in texts { other_apps += 1; let t2 = t.clone();
                if std::panic::catch_unwind(move || { let e = exmex::parse_val::<$I, $F>(&t2); let _ = e.map(|e| { use exmex::Express; e.eval(&[]).map(|_| ()) }); }).is_err() { panics += 1;
                    cases.push(C { g: format!("VU {} VNone None", g_str(name)), note: format!("[{}] parse_val({t:?}) / eval", $label), family: "other-instantiations", ok: Some(false), onote: "panicked".into(), answer: "PANIC".into() }); } }
            if !op.has_bin() { break } } } }
    }}; }
    inst!(i64, f64, "Val<i64,f64>"); inst!(i32, f32, "Val<i32,f32>"); inst!(i64, f32, "Val<i64,f32>"); inst!(i16, f32, "Val<i16,f32>"); inst!(i128, f64, "Val<i128,f64>");
    // the documented rules at the boundaries of a WIDER instantiation, Val<i64,f64> (values, not only panics)
    {
        use exmex::{parse_val, Express};
        let spot: Vec<(&str, Option<i64>, bool)> = vec![   // text, expected integer (None with error=true: an error value)
            ("2.0 ^ 4294967306", None, true), ("2.0 ^ 4294967296", None, true), ("2.0 ^ (0-4294967306)", None, true), ("2 ^ 62", Some(1i64 << 62), false), ("2 ^ 63", None, true), ("2 ^ 64", None, true),
            ("9223372036854775807 + 1", None, true), ("9223372036854775807 - 1 + 1", Some(i64::MAX), false), ("4611686018427387904 * 2", None, true), ("3037000500 * 3037000500", None, true), ("3037000499 * 3037000499", Some(3037000499i64 * 3037000499), false),
            ("to_int(9300000000000000000.0)", None, true), ("to_int(0-9300000000000000000.0)", None, true), ("to_int(4611686018427387904.0)", Some(1i64 << 62), false),
            ("fact(20)", Some(2432902008176640000), false), ("fact(21)", None, true), ("(0-9223372036854775807-1) / (0-1)", None, true), ("(0-9223372036854775807-1) % (0-1)", None, true), ("-(0-9223372036854775807-1)", None, true), ("abs(0-9223372036854775807-1)", None, true),
            ("1 << 62", Some(1i64 << 62), false), ("1 << 64", None, true), ("1 >> 64", None, true), ("(0-8) >> 1", Some(-4), false),
            ("1 << 4294967297", None, true), ("3 << 4294967296", None, true), ("1 >> 4294967297", None, true), ("8 >> 4294967296", None, true), ("1 << 9223372036854775807", None, true),
            // integers are ordered exactly, also where neighbouring integers have the same float image
            ("1 if 9007199254740992 < 9007199254740993 else 0", Some(1), false), ("1 if 9007199254740993 > 9007199254740992 else 0", Some(1), false), ("1 if 9223372036854775807 > 9223372036854775806 else 0", Some(1), false),
            ("1 if 9007199254740993 <= 9007199254740992 else 0", Some(0), false), ("1 if 9007199254740992 >= 9007199254740993 else 0", Some(0), false), ("1 if 9007199254740992 == 9007199254740993 else 0", Some(0), false),
            ("1 if 9007199254740992 != 9007199254740993 else 0", Some(1), false), ("1 if (0-9007199254740993) < (0-9007199254740992) else 0", Some(1), false),
            ("9007199254740993 max 9007199254740992", Some(9007199254740993), false), ("9007199254740993 min 9007199254740992", Some(9007199254740992), false), ("4294967296 * 4294967296", None, true), ("2147483648 * 2", Some(4294967296), false), ("2147483647 + 1", Some(2147483648), false) ];
        for (text, want, err) in spot {
            let got = std::panic::catch_unwind(|| parse_val::<i64, f64>(text).and_then(|e| e.eval(&[])));
            let (ok, onote) = match &got { Err(_) => (false, "panicked".to_string()),
                Ok(Ok(Val::Int(i))) => (want == Some(*i), format!("expected {}", if err { "an error value".to_string() } else { format!("{want:?}") })),
                Ok(Ok(Val::Error(_))) | Ok(Err(_)) => (err, format!("expected {want:?}")),
                Ok(Ok(other)) => (false, format!("{other:?}, expected {}", if err { "an error value".to_string() } else { format!("{want:?}") })) };
            other_apps += 1;
            if !ok { cases.push(C { g: "VU [] VNone None".to_string(), note: format!("[Val<i64,f64>] {text} = {:?}", got.as_ref().map(|r| r.as_ref().map(|v| format!("{v:?}")).map_err(|e| e.to_string())).unwrap_or(Ok("PANIC".into()))), family: "other-instantiations", ok: Some(false), onote, answer: "wrong".into() }); }
        }
    }
    {
        use exmex::{parse_val, Express};
        for (text, want) in [("fact(21)", Some(51090942171709440000i128)), ("fact(25)", Some(15511210043330985984000000)), ("fact(33)", Some(8683317618811886495518194401280000000)), ("fact(34)", None), ("9223372036854775807 + 1", Some(9223372036854775808)), ("2 ^ 100", Some(1i128 << 100)), ("2 ^ 127", None), ("18446744073709551616 * 18446744073709551616", None)] {
            let got = std::panic::catch_unwind(|| parse_val::<i128, f64>(text).and_then(|e| e.eval(&[])));
            let ok = match (&got, want) { (Ok(Ok(Val::Int(i))), Some(w)) => *i == w, (Ok(Ok(Val::Error(_))), None) | (Ok(Err(_)), None) => true, _ => false };
            other_apps += 1;
            if !ok { cases.push(C { g: "VU [] VNone None".to_string(), note: format!("[Val<i128,f64>] {text} = {:?}", got.as_ref().map(|r| r.as_ref().map(|v| format!("{v:?}")).map_err(|e| e.to_string())).unwrap_or(Ok("PANIC".into()))), family: "other-instantiations", ok: Some(false), onote: format!("expected {want:?} (None = an error value)"), answer: "wrong".into() }); }
        }
    }
    {
        use exmex::{parse_val, Express};
        for (text, want) in [("1 if 2147483647 > 2147483646 else 0", 1i32), ("1 if 16777216 < 16777217 else 0", 1), ("1 if 16777217 <= 16777216 else 0", 0), ("1 if 16777216 == 16777217 else 0", 0), ("16777217 max 16777216", 16777217), ("16777217 - 16777216", 1)] {
            let got = std::panic::catch_unwind(|| parse_val::<i32, f32>(text).and_then(|e| e.eval(&[])));
            let ok = matches!(&got, Ok(Ok(Val::Int(i))) if *i == want);
            other_apps += 1;
            if !ok { cases.push(C { g: "VU [] VNone None".to_string(), note: format!("[Val<i32,f32>] {text} = {:?}", got.as_ref().map(|r| r.as_ref().map(|v| format!("{v:?}")).map_err(|e| e.to_string())).unwrap_or(Ok("PANIC".into()))), family: "other-instantiations", ok: Some(false), onote: format!("expected Int({want})"), answer: "wrong".into() }); }
        }
    }
    println!("other_instantiations_applications={other_apps}");
    // write shards
    std::fs::create_dir_all(&a.out).unwrap();
    let shard = a.shard.max(1);
    let n_shards = (cases.len() + shard - 1) / shard;
    for k in 0..n_shards {
        let mut s = String::from("From Coq Require Import Floats ZArith.\nFrom Exmex.Model Require Import Base ValOps.\nFrom Exmex.Corr Require Import ValDriver.\nOpen Scope float_scope.\nDefinition cases : list vcase := [\n");
        let items: Vec<&str> = cases.iter().enumerate().filter(|(i, _)| i % n_shards == k).map(|(_, c)| c.g.as_str()).collect();
        s.push_str(&items.join(";\n"));
        s.push_str("].\nEval vm_compute in (vmismatches cases).\n");
        std::fs::write(format!("{}/cases_{k}.v", a.out), s).unwrap();
    }
    let mut f = std::io::BufWriter::new(std::fs::File::create(format!("{}/meta.json", a.out)).unwrap());
    writeln!(f, "{{\"shard_size\": {shard}, \"n_shards\": {n_shards}, \"tables\": [[]], \"cases\": [").unwrap();
    for (i, c) in cases.iter().enumerate() {
        writeln!(f, "{{\"tb\": 0, \"family\": {}, \"note\": {}, \"prog\": {}, \"size\": 2, \"nontrivial\": true, \"oracle_ok\": {}, \"oracle_note\": {}, \"answers\": [[\"result\", {}]]}}{}",
            json_str(c.family), json_str(&c.note), json_str(&c.note), match c.ok { Some(b) => b.to_string(), None => "null".into() }, json_str(&c.onote), json_str(&c.answer), if i + 1 < cases.len() { "," } else { "" }).unwrap();
    }
    writeln!(f, "]}}").unwrap();
    let bad = cases.iter().filter(|c| c.ok == Some(false)).count();
    println!("mode=val operators={} catalogue={} cases={} panics={panics} oracle_failures={bad}", ops.len(), cat.len(), cases.len());
}

// ---- C19: the default float operators against the std primitives (oracle) and, for the operations IEEE fixes,
// against Coq's binary64 (through the same driver as the value type)
pub fn run_c19(a: &Args) {
    use exmex::FloatOpsFactory;
    let mut r = Rng::new(a.seed ^ 0x19);
    let mut cat64: Vec<f64> = vec![f64::NAN, f64::INFINITY, f64::NEG_INFINITY, 0.0, -0.0, 1.0, -1.0, 0.5, -0.5, 2.0, 3.5, -3.5, 5e-324, 1e-310, 1e300, -1e300, 0.9999999, 1.0000001, 710.0, -745.0, 2.5, -2.5, 1e16, 0.1, std::f64::consts::PI];
    for _ in 0..(if a.thorough { 60 } else { 12 }) { cat64.push(if r.chance(1, 2) { f64::from_bits(r.next()) } else { (r.next() % 100000) as f64 / 1000.0 - 50.0 }); }
    let un64: Vec<(&str, fn(f64) -> f64)> = vec![("abs", f64::abs), ("signum", f64::signum), ("sin", f64::sin), ("cos", f64::cos), ("tan", f64::tan), ("asin", f64::asin), ("acos", f64::acos), ("atan", f64::atan), ("sinh", f64::sinh), ("cosh", f64::cosh), ("tanh", f64::tanh), ("asinh", f64::asinh), ("acosh", f64::acosh), ("atanh", f64::atanh), ("floor", f64::floor), ("round", f64::round), ("ceil", f64::ceil), ("trunc", f64::trunc), ("fract", f64::fract), ("exp", f64::exp), ("sqrt", f64::sqrt), ("cbrt", f64::cbrt), ("ln", f64::ln), ("log2", f64::log2), ("log10", f64::log10), ("log", f64::ln), ("-", |a| -a), ("+", |a| a)];
    let bi64: Vec<(&str, fn(f64, f64) -> f64)> = vec![("^", f64::powf), ("*", |a, b| a * b), ("/", |a, b| a / b), ("+", |a, b| a + b), ("-", |a, b| a - b), ("atan2", f64::atan2), ("min", f64::min), ("max", f64::max)];
    let un32: Vec<(&str, fn(f32) -> f32)> = vec![("abs", f32::abs), ("signum", f32::signum), ("sin", f32::sin), ("cos", f32::cos), ("tan", f32::tan), ("asin", f32::asin), ("acos", f32::acos), ("atan", f32::atan), ("sinh", f32::sinh), ("cosh", f32::cosh), ("tanh", f32::tanh), ("asinh", f32::asinh), ("acosh", f32::acosh), ("atanh", f32::atanh), ("floor", f32::floor), ("round", f32::round), ("ceil", f32::ceil), ("trunc", f32::trunc), ("fract", f32::fract), ("exp", f32::exp), ("sqrt", f32::sqrt), ("cbrt", f32::cbrt), ("ln", f32::ln), ("log2", f32::log2), ("log10", f32::log10), ("log", f32::ln), ("-", |a| -a), ("+", |a| a)];
    let bi32: Vec<(&str, fn(f32, f32) -> f32)> = vec![("^", f32::powf), ("*", |a, b| a * b), ("/", |a, b| a / b), ("+", |a, b| a + b), ("-", |a, b| a - b), ("atan2", f32::atan2), ("min", f32::min), ("max", f32::max)];
    let eq64 = |a: f64, b: f64, mm: bool| a.to_bits() == b.to_bits() || (a.is_nan() && b.is_nan()) || (mm && a == b);
    let eq32 = |a: f32, b: f32, mm: bool| a.to_bits() == b.to_bits() || (a.is_nan() && b.is_nan()) || (mm && a == b);
    struct C { g: Option<String>, note: String, family: &'static str, ok: bool, onote: String, answer: String }
    let mut cases: Vec<C> = vec![];
    let exact_bin = ["+", "-", "*", "/", "min", "max"]; let exact_un = ["-", "+", "abs", "sqrt", "signum"];
    let ops = FloatOpsFactory::<f64>::make();
    for op in &ops {
        let name = op.repr();
        if let Ok(u) = op.unary() { match un64.iter().find(|(n, _)| *n == name) {
            None => cases.push(C { g: None, note: format!("unary {name}"), family: "f64-unary", ok: false, onote: "no such documented operator".into(), answer: String::new() }),
            Some((_, f)) => for &x in &cat64 { let got = u(x); let ok = eq64(got, f(x), false);
                let g = if exact_un.contains(&name) { Some(format!("VU {} (VFloat {}) (Some (VFloat {}))", g_str(name), g_fval(x), g_fval(got))) } else { None };
                cases.push(C { g, note: format!("{name}({x:?})"), family: "f64-unary", ok, onote: if ok { String::new() } else { format!("std gives {:?}", f(x)) }, answer: format!("{got:?}") }); } } }
        if let Ok(b) = op.bin() { match bi64.iter().find(|(n, _)| *n == name) {
            None => cases.push(C { g: None, note: format!("binary {name}"), family: "f64-binary", ok: false, onote: "no such documented operator".into(), answer: String::new() }),
            Some((_, f)) => for &x in &cat64 { for &y in &cat64 { let got = (b.apply)(x, y); let ok = eq64(got, f(x, y), name.starts_with('m'));
                let g = if exact_bin.contains(&name) { Some(format!("VB {} (VFloat {}) (VFloat {}) (Some (VFloat {}))", g_str(name), g_fval(x), g_fval(y), g_fval(got))) } else { None };
                cases.push(C { g, note: format!("{x:?} {name} {y:?}"), family: "f64-binary", ok, onote: if ok { String::new() } else { format!("std gives {:?}", f(x, y)) }, answer: format!("{got:?}") }); } } } }
        if let Some(c) = op.constant() { let want = match name { "PI" | "π" => std::f64::consts::PI, "E" | "e" => std::f64::consts::E, "TAU" | "τ" => std::f64::consts::TAU, _ => f64::NAN };
            let ok = eq64(c, want, false); cases.push(C { g: None, note: format!("constant {name}"), family: "f64-constant", ok, onote: format!("{want:?}"), answer: format!("{c:?}") }); }
    }
    let ops32 = FloatOpsFactory::<f32>::make();
    let cat32: Vec<f32> = cat64.iter().map(|x| *x as f32).collect();
    for op in &ops32 {
        let name = op.repr();
        if let Ok(u) = op.unary() { if let Some((_, f)) = un32.iter().find(|(n, _)| *n == name) { for &x in &cat32 { let got = u(x); let ok = eq32(got, f(x), false);
            cases.push(C { g: None, note: format!("f32 {name}({x:?})"), family: "f32-unary", ok, onote: format!("std gives {:?}", f(x)), answer: format!("{got:?}") }); } } else { cases.push(C { g: None, note: format!("f32 unary {name}"), family: "f32-unary", ok: false, onote: "no such documented operator".into(), answer: String::new() }) } }
        if let Ok(b) = op.bin() { if let Some((_, f)) = bi32.iter().find(|(n, _)| *n == name) { for &x in &cat32 { for &y in &cat32 { let got = (b.apply)(x, y); let ok = eq32(got, f(x, y), name.starts_with('m'));
            cases.push(C { g: None, note: format!("f32 {x:?} {name} {y:?}"), family: "f32-binary", ok, onote: format!("std gives {:?}", f(x, y)), answer: format!("{got:?}") }); } } } else { cases.push(C { g: None, note: format!("f32 binary {name}"), family: "f32-binary", ok: false, onote: "no such documented operator".into(), answer: String::new() }) } }
        if let Some(c) = op.constant() { let want = match name { "PI" | "π" => std::f32::consts::PI, "E" | "e" => std::f32::consts::E, "TAU" | "τ" => std::f32::consts::TAU, _ => f32::NAN };
            cases.push(C { g: None, note: format!("f32 constant {name}"), family: "f32-constant", ok: eq32(c, want, false), onote: format!("{want:?}"), answer: format!("{c:?}") }); }
    }
    // through parsed expressions, infix and call form, argument order
    for (text, want) in [("7 - 2", 5.0f64), ("7 / 2", 3.5), ("2 ^ 3", 8.0), ("atan2(1, 2)", 1f64.atan2(2.0)), ("1 atan2 2", 1f64.atan2(2.0)), ("min(3, 2)", 2.0), ("max(3, 2)", 3.0), ("min(2, 3)", 2.0), ("log(E)", 1.0), ("ln(e)", 1.0), ("log2(8)", 3.0), ("log10(1000)", 1000f64.log10()),
                         ("-(3)", -3.0), ("+(3)", 3.0), ("PI", std::f64::consts::PI), ("π", std::f64::consts::PI), ("TAU", std::f64::consts::TAU), ("τ", std::f64::consts::TAU), ("e", std::f64::consts::E), ("floor(2.7)", 2.0), ("ceil(2.2)", 3.0), ("round(2.5)", 3.0), ("trunc(-2.7)", -2.0), ("fract(2.75)", 0.75), ("sinh(1)", 1f64.sinh()), ("cosh(1)", 1f64.cosh())] {
        let got = exmex::eval_str::<f64>(text);
        let ok = matches!(&got, Ok(g) if eq64(*g, want, false));
        cases.push(C { g: None, note: format!("eval_str({text:?})"), family: "parsed", ok, onote: format!("{want:?}"), answer: format!("{got:?}") });
    }
    // the constant constructors and from_num of DeepEx / Calculate
    {
        use exmex::prelude::*; use exmex::DeepEx;
        let items: Vec<(&str, Result<f64, String>, f64)> = vec![
            ("DeepEx::pi()", DeepEx::<f64>::pi().eval(&[]).map_err(|e| e.to_string()), std::f64::consts::PI),
            ("DeepEx::e()", DeepEx::<f64>::e().eval(&[]).map_err(|e| e.to_string()), std::f64::consts::E),
            ("DeepEx::tau()", DeepEx::<f64>::tau().eval(&[]).map_err(|e| e.to_string()), std::f64::consts::TAU),
            ("DeepEx::one()", DeepEx::<f64>::one().eval(&[]).map_err(|e| e.to_string()), 1.0),
            ("DeepEx::zero()", DeepEx::<f64>::zero().eval(&[]).map_err(|e| e.to_string()), 0.0),
            ("DeepEx::from_num(2.5)", DeepEx::<f64>::from_num(2.5).eval(&[]).map_err(|e| e.to_string()), 2.5),
            ("FlatEx::from_num(-0.0)", FlatEx::<f64>::from_num(-0.0).eval(&[]).map_err(|e| e.to_string()), -0.0),
        ];
        for (name, got, want) in items { let ok = matches!(&got, Ok(g) if eq64(*g, want, false)); cases.push(C { g: None, note: name.to_string(), family: "constructors", ok, onote: format!("{want:?}"), answer: format!("{got:?}") }); }
    }
    std::fs::create_dir_all(&a.out).unwrap();
    let with_g: Vec<usize> = (0..cases.len()).filter(|i| cases[*i].g.is_some()).collect();
    let shard = a.shard.max(1); let n_shards = ((with_g.len() + shard - 1) / shard).max(1);
    // meta lists the Coq-evaluated cases first (so that indices map), then the oracle-only ones
    let order: Vec<usize> = with_g.iter().copied().chain((0..cases.len()).filter(|i| cases[*i].g.is_none())).collect();
    for k in 0..n_shards {
        let mut s = String::from("From Coq Require Import Floats ZArith.\nFrom Exmex.Model Require Import Base ValOps.\nFrom Exmex.Corr Require Import ValDriver.\nOpen Scope float_scope.\nDefinition cases : list vcase := [\n");
        let items: Vec<&str> = with_g.iter().enumerate().filter(|(j, _)| j % n_shards == k).map(|(_, i)| cases[*i].g.as_deref().unwrap()).collect();
        s.push_str(&items.join(";\n"));
        s.push_str("].\nEval vm_compute in (vmismatches cases).\n");
        std::fs::write(format!("{}/cases_{k}.v", a.out), s).unwrap();
    }
    let mut f = std::io::BufWriter::new(std::fs::File::create(format!("{}/meta.json", a.out)).unwrap());
    writeln!(f, "{{\"shard_size\": {shard}, \"n_shards\": {n_shards}, \"tables\": [[]], \"cases\": [").unwrap();
    for (j, i) in order.iter().enumerate() { let c = &cases[*i];
        writeln!(f, "{{\"tb\": 0, \"family\": {}, \"note\": {}, \"prog\": {}, \"size\": 2, \"nontrivial\": true, \"oracle_ok\": {}, \"oracle_note\": {}, \"answers\": [[\"result\", {}]]}}{}",
            json_str(c.family), json_str(&c.note), json_str(&c.note), c.ok, json_str(&c.onote), json_str(&c.answer), if j + 1 < order.len() { "," } else { "" }).unwrap(); }
    writeln!(f, "]}}").unwrap();
    println!("mode=c19 f64_ops={} f32_ops={} cases={} evaluated_in_coq={} oracle_failures={}", ops.len(), ops32.len(), cases.len(), with_g.len(), cases.iter().filter(|c| !c.ok).count());
}

// ---- C20: Send + Sync (decided by rustc) and concurrent histories against the sequential results
fn assert_send_sync<T: Send + Sync>() {}
pub fn run_c20(a: &Args) {
    use exmex::prelude::*;
    use exmex::{DeepEx, FlatExVal};
    use std::sync::{Arc, Barrier};
    assert_send_sync::<FlatEx<f64>>(); assert_send_sync::<DeepEx<'static, f64>>(); assert_send_sync::<FlatExVal<i32, f64>>(); assert_send_sync::<FlatEx<f32>>();
    assert_send_sync::<crate::term::FE>(); assert_send_sync::<crate::term::DE>();
    let texts: Vec<String> = ["sin(x+3+2)*y", "x^2/4/2-y", "max(1, min(2,3))+x", "-(x+1)*(y-2)^2", "{α}+x*PI", "x/y/2*3+sin cos x", "1+2*3-4/5^2", "atan2(x, y)+log2(8)"].iter().map(|s| s.to_string()).collect();
    // long texts: more variable occurrences than any inline buffer holds (16, 32, 64), values that are not interchangeable
    let mut texts = texts;
    texts.push((0..20).map(|i| format!("v{i:02}*{}", i + 1)).collect::<Vec<_>>().join("+"));
    texts.push((0..18).map(|i| if i % 2 == 0 { "x".to_string() } else { "y".to_string() }).collect::<Vec<_>>().join("-") + "/y");
    texts.push((0..40).map(|i| format!("{{w{}}}/{}", (i * 7) % 23, i + 2)).collect::<Vec<_>>().join("-"));
    texts.push((0..70).map(|i| format!("u{:02}^2", 69 - i)).collect::<Vec<_>>().join("-"));
    let texts = texts;
    let n_threads = [2usize, 4, 8, 16];
    let rounds = a.n.max(1);
    let mut histories = 0u64; let mut bad: Vec<String> = vec![];
    // first use of the global regexes is forced to race: nothing has been parsed in this process so far
    for &nt in &n_threads { for round in 0..rounds {
        let barrier = Arc::new(Barrier::new(nt));
        let texts2 = Arc::new(texts.clone());
        let shared: Option<Arc<(FlatEx<f64>, DeepEx<'static, f64>)>> = if round == 0 && nt == 2 { None } else { Some(Arc::new((FlatEx::<f64>::parse(Box::leak(texts[0].clone().into_boxed_str())).unwrap(), DeepEx::<f64>::parse(Box::leak(texts[3].clone().into_boxed_str())).unwrap()))) };
        let handles: Vec<_> = (0..nt).map(|tid| { let (b, tx, sh) = (barrier.clone(), texts2.clone(), shared.clone()); std::thread::spawn(move || {
            b.wait();
            let mut out: Vec<(usize, u64)> = vec![];
            for k in 0..tx.len() { let i = (k + tid) % tx.len();
                let f = FlatEx::<f64>::parse(&tx[i]).unwrap(); let n = f.var_names().len();
                let vals: Vec<f64> = (0..n).map(|q| 0.5 + q as f64).collect();
                out.push((i, f.eval(&vals).unwrap().to_bits()));
                let mut hh = 0u64; for nm in f.var_names() { for b in nm.bytes() { hh = hh.wrapping_mul(1099511628211).wrapping_add(b as u64); } hh = hh.wrapping_mul(31); }
                out.push((300 + i, hh));
                let d = DeepEx::<f64>::parse(&tx[i]).unwrap(); out.push((200 + i, d.eval(&vals).unwrap().to_bits()));
                if let Some(sh) = &sh { out.push((100, sh.0.eval(&[0.5, 1.5]).unwrap().to_bits())); out.push((101, sh.1.eval(&[0.5, 1.5]).unwrap().to_bits())); }
            }
            out }) }).collect();
        for h in handles { match h.join() { Ok(out) => { histories += 1;
            for (i, bits) in out { let want = if i >= 300 { let f = FlatEx::<f64>::parse(&texts[i - 300]).unwrap(); let mut sorted: Vec<String> = f.var_names().to_vec().iter().map(|s| s.to_string()).collect(); sorted.sort(); sorted.dedup();
                    let mut hh = 0u64; for nm in &sorted { for b in nm.bytes() { hh = hh.wrapping_mul(1099511628211).wrapping_add(b as u64); } hh = hh.wrapping_mul(31); } hh }
                else if i >= 200 { let f = DeepEx::<f64>::parse(&texts[i - 200]).unwrap(); let n = f.var_names().len(); f.eval(&(0..n).map(|q| 0.5 + q as f64).collect::<Vec<_>>()).unwrap().to_bits() }
                else if i < 100 { let f = FlatEx::<f64>::parse(&texts[i]).unwrap(); let n = f.var_names().len(); f.eval(&(0..n).map(|q| 0.5 + q as f64).collect::<Vec<_>>()).unwrap().to_bits() }
                else if i == 100 { FlatEx::<f64>::parse(&texts[0]).unwrap().eval(&[0.5, 1.5]).unwrap().to_bits() } else { DeepEx::<f64>::parse(&texts[3]).unwrap().eval(&[0.5, 1.5]).unwrap().to_bits() };
                if bits != want { bad.push(format!("threads={nt} round={round} item={i}: {bits:x} vs sequential {want:x}")); } } }
            Err(_) => bad.push(format!("threads={nt} round={round}: a thread panicked")) } }
    } }
    // COLD processes: the very first parses of a process happen concurrently (first use of the global name patterns), on
    // texts with names from every range of the variable pattern; each child compares with hard-coded expectations
    {
        let exe = std::env::current_exe().unwrap();
        let runs = if a.thorough { 24 } else { 8 };
        for k in 0..runs {
            match std::process::Command::new(&exe).arg("c20cold").arg(format!("{}", 2 + (k % 4) * 4)).output() {
                Ok(o) => { histories += 1; if !o.status.success() { bad.push(format!("cold process {k}: concurrent first parses deviate from the expected result: {}", String::from_utf8_lossy(&o.stdout).lines().take(3).collect::<Vec<_>>().join(" | "))); } }
                Err(e) => bad.push(format!("cold process {k}: could not be started: {e}")),
            }
        }
    }
    // many concurrent parses of texts in which names of constants and operators are continued by non-ASCII letters
    // (`π` the constant beside `πr` the variable): every parse must give the variables and value of a sequential parse
    {
        let gtexts = ["2*π*r+πr", "sinφ+sin(φ)*π/2", "τ/τ0+expλ", "π*πr-τ0/τ", "cosα+cos(α)-PIα*PI", "Eε+E*ε"];
        let reference: Vec<(Vec<String>, u64)> = gtexts.iter().map(|t| { let f = FlatEx::<f64>::parse(t).unwrap(); let n = f.var_names().len(); (f.var_names().to_vec(), f.eval(&(0..n).map(|q| 0.7 + q as f64).collect::<Vec<_>>()).unwrap().to_bits()) }).collect();
        let reference = Arc::new(reference);
        let iters = if a.thorough { 1500 } else { 400 };
        for &nt in &[8usize, 16] {
            let barrier = Arc::new(Barrier::new(nt));
            let handles: Vec<_> = (0..nt).map(|tid| { let (b, rf) = (barrier.clone(), reference.clone()); std::thread::spawn(move || {
                b.wait();
                let mut bad: Vec<String> = vec![];
                for it in 0..iters { let i = (it + tid) % gtexts.len();
                    let got = if it % 2 == 0 { FlatEx::<f64>::parse(gtexts[i]).map(|f| { let n = f.var_names().len(); (f.var_names().to_vec(), f.eval(&(0..n).map(|q| 0.7 + q as f64).collect::<Vec<_>>()).map(|v| v.to_bits()).unwrap_or(0)) }) }
                              else { DeepEx::<f64>::parse(gtexts[i]).map(|f| { let n = f.var_names().len(); (f.var_names().to_vec(), f.eval(&(0..n).map(|q| 0.7 + q as f64).collect::<Vec<_>>()).map(|v| v.to_bits()).unwrap_or(0)) }) };
                    match got { Ok((names, bits)) => if names != rf[i].0 || (it % 2 == 0 && bits != rf[i].1) { if bad.len() < 3 { bad.push(format!("thread {tid} iteration {it} text {:?}: variables {names:?}, a sequential parse gives {:?}", gtexts[i], rf[i].0)); } },
                                Err(e) => if bad.len() < 3 { bad.push(format!("thread {tid} iteration {it} text {:?}: rejected ({e}), a sequential parse accepts it", gtexts[i])); } }
                }
                bad }) }).collect();
            for h in handles { match h.join() { Ok(b) => { histories += 1; bad.extend(b); } Err(_) => bad.push(format!("concurrent parses with {nt} threads: a thread panicked")) } }
        }
    }
    // already evaluated deep expressions change places (the same storage then holds another expression with the same number of
    // operators): evaluation depends on the expression alone, on this thread and on a long-lived worker thread
    {
        let mk = |t: &str| DeepEx::<f64>::parse(Box::leak(t.to_string().into_boxed_str())).unwrap();
        let pairs = [("x*y+z", "x+y*z"), ("x-y/z+x", "x/y-z*x"), ("x^y*z", "x*y^z")];
        for (ta, tbx) in pairs {
            let fresh = |t: &str| mk(t).eval(&[2.0, 3.0, 4.0]).unwrap().to_bits();
            let mut v = vec![mk(ta), mk(tbx)];
            let before = (v[0].eval(&[2.0, 3.0, 4.0]).unwrap().to_bits(), v[1].eval(&[2.0, 3.0, 4.0]).unwrap().to_bits());
            v.swap(0, 1);
            let after = (v[0].eval(&[2.0, 3.0, 4.0]).unwrap().to_bits(), v[1].eval(&[2.0, 3.0, 4.0]).unwrap().to_bits());
            histories += 1;
            if before != (fresh(ta), fresh(tbx)) || after != (fresh(tbx), fresh(ta)) { bad.push(format!("deep expressions {ta:?} and {tbx:?} evaluated, swapped in place and evaluated again: {:?} then {:?}", before, after)); }
            // a worker thread that lives across the replacement of the expression in a shared slot
            let slot = Arc::new(std::sync::Mutex::new(mk(ta)));
            let (txq, rxq) = std::sync::mpsc::channel::<()>(); let (txr, rxr) = std::sync::mpsc::channel::<u64>();
            let s2 = slot.clone();
            let worker = std::thread::spawn(move || { while rxq.recv().is_ok() { let r = s2.lock().unwrap().eval(&[2.0, 3.0, 4.0]).unwrap().to_bits(); if txr.send(r).is_err() { break } } });
            txq.send(()).unwrap(); let r1 = rxr.recv().unwrap();
            { let mut g = slot.lock().unwrap(); let repl = mk(tbx); *g = repl; }
            txq.send(()).unwrap(); let r2 = rxr.recv().unwrap();
            drop(txq); let _ = worker.join();
            histories += 1;
            if r1 != fresh(ta) || r2 != fresh(tbx) { bad.push(format!("a worker thread evaluated the slot holding {ta:?}, then {tbx:?} in its place: {r1:x} then {r2:x}, a sequential run gives {:x} then {:x}", fresh(ta), fresh(tbx))); }
        }
    }
    // concurrent parses of value-typed texts with array literals of different lengths (beyond and within the inline capacity)
    {
        use exmex::{parse_val, Express, Val};
        let atexts: Vec<(&'static str, usize)> = vec![("[1,2,3,4,5]", 5), ("[1,2,3,4,5,6,7]", 7), ("[1,2,3]", 3), ("[1.5,2,3,4,5,6,7,8,9]", 9), ("[0,1,2,3,4]+[1,1,1,1,1]", 5), ("[1,2]", 2)];
        let atexts = Arc::new(atexts);
        let iters = if a.thorough { 4000 } else { 1200 };
        let nt = 8;
        let barrier = Arc::new(Barrier::new(nt));
        let handles: Vec<_> = (0..nt).map(|tid| { let (b, at) = (barrier.clone(), atexts.clone()); std::thread::spawn(move || {
            b.wait();
            let mut bad: Vec<String> = vec![];
            for it in 0..iters { let (text, len) = at[(it + tid) % at.len()];
                match parse_val::<i32, f64>(text).and_then(|e| e.eval(&[])) { Ok(Val::Array(v)) => if v.len() != len && bad.len() < 3 { bad.push(format!("thread {tid}: {text} parsed concurrently has {} elements: {v:?}", v.len())); },
                    other => if bad.len() < 3 { bad.push(format!("thread {tid}: {text} parsed concurrently gives {other:?}")); } } }
            bad }) }).collect();
        for h in handles { match h.join() { Ok(b) => { histories += 1; bad.extend(b); } Err(_) => bad.push("concurrent array parses: a thread panicked".into()) } }
    }
    // histories across INSTANTIATIONS of the value type: an operator evaluated at Val<i32,_> first (where it overflows) and
    // at Val<i64,_> / Val<i128,_> afterwards must give the wider type's own result (no state shared between instantiations,
    // e.g. a table in a static of a generic function); literals folded at parse time and variables at evaluation time
    {
        use exmex::{parse_val, Express, Val};
        let fact = |k: u32| -> Option<i128> { (1..=k as i128).try_fold(1i128, |a, b| a.checked_mul(b)) };
        for k in 0u32..=36 {
            let want = fact(k);
            let w32 = want.and_then(|v| i32::try_from(v).ok()); let w64 = want.and_then(|v| i64::try_from(v).ok());
            let text = format!("fact({k})"); let leaked: &'static str = Box::leak(text.clone().into_boxed_str());
            // literal, folded while parsing; then through a variable
            let g32 = parse_val::<i32, f64>(leaked).and_then(|e| e.eval(&[])); let v32 = parse_val::<i32, f64>("fact(n)").and_then(|e| e.eval(&[Val::Int(k as i32)]));
            let g64 = parse_val::<i64, f64>(leaked).and_then(|e| e.eval(&[])); let v64 = parse_val::<i64, f64>("fact(n)").and_then(|e| e.eval(&[Val::Int(k as i64)]));
            let g128 = parse_val::<i128, f64>(leaked).and_then(|e| e.eval(&[])); let v128 = parse_val::<i128, f64>("fact(n)").and_then(|e| e.eval(&[Val::Int(k as i128)]));
            histories += 1;
            let chk = |name: &str, got: String, want: Option<String>, bad: &mut Vec<String>| { let is_err = got.contains("Error"); match want { Some(w) => if got != w { bad.push(format!("after the same operator on a narrower integer type: {name} fact({k}) = {got}, its own result is {w}")) }, None => if !is_err { bad.push(format!("{name} fact({k}) = {got}, expected an overflow error value")) } } };
            for (name, got, want) in [("i32 literal", format!("{g32:?}"), w32.map(|v| format!("Ok(Int({v}))"))), ("i32 variable", format!("{v32:?}"), w32.map(|v| format!("Ok(Int({v}))"))),
                                      ("i64 literal", format!("{g64:?}"), w64.map(|v| format!("Ok(Int({v}))"))), ("i64 variable", format!("{v64:?}"), w64.map(|v| format!("Ok(Int({v}))"))),
                                      ("i128 literal", format!("{g128:?}"), want.map(|v| format!("Ok(Int({v}))"))), ("i128 variable", format!("{v128:?}"), want.map(|v| format!("Ok(Int({v}))")))] { chk(name, got, want, &mut bad); }
        }
        // the same for arithmetic that overflows the narrow type only
        for (text, w64) in [("2147483647+1", 2147483648i64), ("65536*65536", 4294967296), ("2^40", 1099511627776), ("-2147483647-2", -2147483649), ("46341*46341", 2147488281)] {
            let n = parse_val::<i32, f64>(text).and_then(|e| e.eval(&[])); let wd = parse_val::<i64, f64>(text).and_then(|e| e.eval(&[]));
            histories += 1;
            if !format!("{n:?}").contains("Error") { bad.push(format!("i32 {text} = {n:?}, expected an overflow error value")); }
            if format!("{wd:?}") != format!("Ok(Int({w64}))") { bad.push(format!("after the i32 evaluation: i64 {text} = {wd:?}, expected {w64}")); }
        }
    }
    // histories that contain failed (panicking, caught) evaluations: later results must not depend on them.
    // integer data type whose division panics on a zero divisor, expressions below and above 64 operands
    {
        use exmex::{BinOp, MakeOperators, MatchLiteral, Operator};
        #[derive(Clone, Debug)] struct IntOps;
        impl MakeOperators<i64> for IntOps { fn make<'a>() -> Vec<Operator<'a, i64>> { vec![
            Operator::make_bin("+", BinOp { apply: |a, b| a.wrapping_add(b), prio: 0, is_commutative: true }),
            Operator::make_bin("*", BinOp { apply: |a, b| a.wrapping_mul(b), prio: 2, is_commutative: true }),
            Operator::make_bin("/", BinOp { apply: |a, b| a / b, prio: 3, is_commutative: false }) ] } }
        exmex::literal_matcher_from_pattern!(IntMatcher, r"^[0-9]+");
        type IE = FlatEx<i64, IntOps, IntMatcher>;
        for n in [5usize, 64, 65, 70, 130] {
            let text = { let mut t = String::from("v000/v001"); for i in 2..n { t.push_str(&format!("+v{i:03}*2")); } t };
            let e = Arc::new(IE::parse(&text).unwrap());
            let good: Vec<i64> = (0..n as i64).map(|i| i + 1).collect();
            let mut bad_vals = good.clone(); bad_vals[1] = 0;
            let want = e.eval(&good).unwrap();
            let handles: Vec<_> = (0..4).map(|_| { let (e, good, bad_vals) = (e.clone(), good.clone(), bad_vals.clone()); std::thread::spawn(move || {
                let mut res = vec![];
                for round in 0..3 {
                    let e2 = e.clone(); let b2 = bad_vals.clone();
                    let _ = std::panic::catch_unwind(std::panic::AssertUnwindSafe(move || e2.eval(&b2)));
                    let e3 = e.clone(); let g2 = good.clone();
                    res.push((round, std::panic::catch_unwind(std::panic::AssertUnwindSafe(move || e3.eval(&g2))).ok().and_then(|r| r.ok())));
                }
                res }) }).collect();
            for h in handles { histories += 1; for (round, got) in h.join().unwrap() { if got != Some(want) { bad.push(format!("{n} operands: after a failed evaluation on the same thread (round {round}) the result is {got:?}, sequentially {want}")); } } }
        }
    }
    // parsing does not depend on what was parsed before with ANOTHER operator factory over the same data type: factories
    // with the same number of operators whose names are prefixes of each other (`*` and `**`), after the default
    // factory has been used (above) and interleaved with it, sequentially and from several threads
    {
        use exmex::{BinOp, FloatOpsFactory, MakeOperators, Operator};
        #[derive(Clone, Debug)] struct PyOps;
        impl MakeOperators<f64> for PyOps { fn make<'a>() -> Vec<Operator<'a, f64>> {
            let mut v: Vec<Operator<'a, f64>> = vec![];
            for o in FloatOpsFactory::<f64>::make() {
                if o.repr() == "^" { continue }
                let is_mul = o.repr() == "*";
                v.push(o);
                if is_mul { v.push(Operator::make_bin("**", BinOp { apply: |a: f64, b: f64| a.powf(b), prio: 4, is_commutative: false })); }
            }
            v } }
        #[derive(Clone, Debug)] struct PyOpsRev;
        impl MakeOperators<f64> for PyOpsRev { fn make<'a>() -> Vec<Operator<'a, f64>> { let mut v = PyOps::make(); v.reverse(); v } }
        let n_default = FloatOpsFactory::<f64>::make().len();
        if PyOps::make().len() != n_default { bad.push("harness: PyOps does not have the operator count of the default factory".into()) }
        let check = |who: &str, got: Result<f64, String>, want: f64, bad: &mut Vec<String>| { match got { Ok(v) if v == want => (), other => bad.push(format!("{who}: {other:?}, expected {want} (parsing depends on an earlier parse with another operator factory)")) } };
        for round in 0..3 {
            let d = FlatEx::<f64>::parse("2*x^3").map_err(|e| e.to_string()).and_then(|f| f.eval(&[3.0]).map_err(|e| e.to_string()));
            check(&format!("default factory 2*x^3 round {round}"), d, 54.0, &mut bad);
            let p = FlatEx::<f64, PyOps>::parse("2*x**3").map_err(|e| e.to_string()).and_then(|f| f.eval(&[3.0]).map_err(|e| e.to_string()));
            check(&format!("factory with ** after the default factory, round {round}"), p, 54.0, &mut bad);
            let p = FlatEx::<f64, PyOpsRev>::parse("2*x**3*2").map_err(|e| e.to_string()).and_then(|f| f.eval(&[3.0]).map_err(|e| e.to_string()));
            check(&format!("reversed factory with **, round {round}"), p, 108.0, &mut bad);
            let p = DeepEx::<f64, PyOps>::parse("(2*x)**2").map_err(|e| e.to_string()).and_then(|f| f.eval(&[3.0]).map_err(|e| e.to_string()));
            check(&format!("deep, factory with **, round {round}"), p, 36.0, &mut bad);
            histories += 4;
        }
        let handles: Vec<_> = (0..8).map(|tid| std::thread::spawn(move || {
            let mut out = vec![];
            for k in 0..6 { if (k + tid) % 2 == 0 {
                    out.push(("default", FlatEx::<f64>::parse("2*x^3").map_err(|e| e.to_string()).and_then(|f| f.eval(&[3.0]).map_err(|e| e.to_string())), 54.0));
                } else {
                    out.push(("**", FlatEx::<f64, PyOps>::parse("2*x**3").map_err(|e| e.to_string()).and_then(|f| f.eval(&[3.0]).map_err(|e| e.to_string())), 54.0));
                } }
            out })).collect();
        for h in handles { histories += 1; for (who, got, want) in h.join().unwrap() { check(&format!("threads, {who}"), got, want, &mut bad) } }
    }
    // literal matchers with the SAME type name and different patterns (different modules): each parses by its own pattern,
    // whatever was used first, sequentially and from several threads
    {
        mod ints { use exmex::MatchLiteral; exmex::literal_matcher_from_pattern!(Matcher, r"^[0-9]+"); }
        mod decimals { use exmex::MatchLiteral; exmex::literal_matcher_from_pattern!(Matcher, r"^[0-9]+(\.[0-9]+)?"); }
        use exmex::FloatOpsFactory;
        let dec = |t: &str| FlatEx::<f64, FloatOpsFactory<f64>, decimals::Matcher>::parse(t).map_err(|e| e.to_string()).and_then(|f| f.eval(&vec![2.0; f.var_names().len()]).map_err(|e| e.to_string()));
        let int = |t: &str| FlatEx::<f64, FloatOpsFactory<f64>, ints::Matcher>::parse(t).map_err(|e| e.to_string()).and_then(|f| f.eval(&vec![2.0; f.var_names().len()]).map_err(|e| e.to_string()));
        for round in 0..3 {
            let a1 = int("1+x*3"); if a1 != Ok(7.0) { bad.push(format!("integer matcher, round {round}: 1+x*3 gives {a1:?}")) }
            let a2 = dec("1.5+x*0.25"); if a2 != Ok(2.0) { bad.push(format!("decimal matcher of the same type name after the integer matcher, round {round}: 1.5+x*0.25 gives {a2:?}, expected Ok(2.0)")) }
            let a3 = int("1.5+x"); if a3.is_ok() { bad.push(format!("integer matcher after the decimal matcher of the same type name, round {round}: 1.5+x is accepted ({a3:?})")) }
            histories += 3;
        }
        let handles: Vec<_> = (0..6).map(|tid| std::thread::spawn(move || {
            let mut out = vec![];
            for k in 0..4 { if (k + tid) % 2 == 0 {
                out.push(("decimal", FlatEx::<f64, FloatOpsFactory<f64>, decimals::Matcher>::parse("1.5+x*0.25").map_err(|e| e.to_string()).and_then(|f| f.eval(&[2.0]).map_err(|e| e.to_string())), Ok(2.0)));
            } else {
                out.push(("integer", FlatEx::<f64, FloatOpsFactory<f64>, ints::Matcher>::parse("1+x*3").map_err(|e| e.to_string()).and_then(|f| f.eval(&[2.0]).map_err(|e| e.to_string())), Ok(7.0)));
            } }
            out })).collect();
        for h in handles { histories += 1; for (who, got, want) in h.join().unwrap() { if got != want { bad.push(format!("threads, {who} matcher: {got:?}, expected {want:?}")) } } }
    }
    // histories that contain REJECTED parses (rejected by the tokenizer, by the precondition check, by the expression
    // builders; flat and deep; also nested): a later parse of an accepted text gives what a first parse gives
    {
        let rejected = ["2-*3", "*2", "((2-*3))", "1 2", "(1+2", "1+2)", "x y", "sin", "1+$", "((((1 2))))", "(((2-*3)+1)*x)", "max(1,", "3 4 *", "sin()", "((((((((((2-*3))))))))))"];
        let accepted = ["sin(1+(2*(x-3)))/y", "((((((((((x+1))))))))))*2", "max(1, min(2,3))+x", "-(x+1)*(y-2)^2"];
        let value = |t: &str| -> (Result<u64, String>, Result<u64, String>) {
            let run = |deep: bool| -> Result<u64, String> {
                if deep { let e = DeepEx::<f64>::parse(t).map_err(|e| e.to_string())?; let n = e.var_names().len(); e.eval(&(0..n).map(|q| 0.5 + q as f64).collect::<Vec<_>>()).map(|v| v.to_bits()).map_err(|e| e.to_string()) }
                else { let e = FlatEx::<f64>::parse(t).map_err(|e| e.to_string())?; let n = e.var_names().len(); e.eval(&(0..n).map(|q| 0.5 + q as f64).collect::<Vec<_>>()).map(|v| v.to_bits()).map_err(|e| e.to_string()) } };
            (run(false), run(true)) };
        let first: Vec<_> = accepted.iter().map(|t| value(t)).collect();
        for (t, v) in accepted.iter().zip(&first) { if v.0.is_err() || v.1.is_err() { bad.push(format!("harness: {t} is not accepted: {v:?}")) } }
        for round in 0..40 {
            for t in rejected { if FlatEx::<f64>::parse(t).is_ok() && DeepEx::<f64>::parse(t).is_ok() { bad.push(format!("harness: {t} is accepted")) } let _ = DeepEx::<f64>::parse(t); }
            for (t, want) in accepted.iter().zip(&first) { let got = value(t); if got != *want { bad.push(format!("after {} rounds of rejected parses, {t:?} gives {got:?}, at first {want:?}", round + 1)); } }
            histories += 1;
            if !bad.is_empty() { break }
        }
        // concurrent deep parses of deeply nested texts: each thread's result is the sequential one
        let nested: String = format!("{}x+1{}", "(".repeat(60), ")".repeat(60));
        let want = value(&nested);
        let barrier = Arc::new(Barrier::new(8));
        let handles: Vec<_> = (0..8).map(|_| { let (b, t) = (barrier.clone(), nested.clone()); std::thread::spawn(move || { b.wait(); (0..6).map(|_| {
            let e = DeepEx::<f64>::parse(&t).map_err(|e| e.to_string()); e.and_then(|e| e.eval(&[0.5]).map(|v| v.to_bits()).map_err(|e| e.to_string())) }).collect::<Vec<_>>() }) }).collect();
        for h in handles { histories += 1; match h.join() { Ok(rs) => for r in rs { if r != want.1 { bad.push(format!("concurrent deep parse of a text nested 60 deep: {r:?}, sequentially {:?}", want.1)); } }, Err(_) => bad.push("a thread parsing a nested text panicked".into()) } }
    }
    // histories on ONE expression: any sequence of eval / eval_vec / eval_iter / clone / compile gives, at every step, what a
    // freshly parsed (and equally compiled) expression gives; also through a shared Arc from several threads
    {
        let texts = ["1+2+y*x*x", "2*3*x+x*y+1+4", "x*x*x+1+2", "1+2*3+x", "sin(1)+x*x-y*y*y", "x+y", "-2*-x*x"];
        let fresh = |t: &str, compiled: bool, vals: &[f64]| -> Result<u64, String> { let mut f = FlatEx::<f64>::parse_wo_compile(t).map_err(|e| e.to_string())?; if compiled { f.compile(); } f.eval(vals).map(|v| v.to_bits()).map_err(|e| e.to_string()) };
        for t in texts {
            let n = FlatEx::<f64>::parse_wo_compile(t).map(|f| f.var_names().len()).unwrap_or(0);
            let vals: Vec<f64> = (0..n).map(|q| 3.0 + 2.0 * q as f64).collect();
            // all sequences of length 4 over the five operations
            for code in 0..5usize.pow(4) {
                let mut c = code; let ops: Vec<usize> = (0..4).map(|_| { let o = c % 5; c /= 5; o }).collect();
                let Ok(mut e) = FlatEx::<f64>::parse_wo_compile(t) else { bad.push(format!("harness: {t} does not parse")); break };
                let mut compiled = false; let mut trace = String::new();
                for o in &ops {
                    let want = fresh(t, compiled, &vals);
                    let got: Result<u64, String> = match o {
                        0 => { trace.push_str("eval;"); e.eval(&vals).map(|v| v.to_bits()).map_err(|x| x.to_string()) }
                        1 => { trace.push_str("eval_vec;"); e.eval_vec(vals.clone()).map(|v| v.to_bits()).map_err(|x| x.to_string()) }
                        2 => { trace.push_str("eval_iter;"); e.eval_iter(vals.iter().copied()).map(|v| v.to_bits()).map_err(|x| x.to_string()) }
                        3 => { trace.push_str("clone;"); e = e.clone(); e.eval_vec(vals.clone()).map(|v| v.to_bits()).map_err(|x| x.to_string()) }
                        _ => { trace.push_str("compile;"); e.compile(); compiled = true; fresh(t, true, &vals).and_then(|w| e.eval_vec(vals.clone()).map(|v| v.to_bits()).map_err(|x| x.to_string()).map(|g| if g == w { w } else { g })) }
                    };
                    let want = if *o == 4 { fresh(t, true, &vals) } else { want };
                    if got != want { bad.push(format!("history {trace} on {t:?} at {vals:?}: {:?}, a fresh expression gives {:?}", got.map(f64::from_bits), want.map(f64::from_bits))); break }
                }
                histories += 1;
                if bad.len() > 20 { break }
            }
            // a shared uncompiled expression evaluated by several threads, then cloned and compiled
            if let Ok(e) = FlatEx::<f64>::parse_wo_compile(t) {
                let sh = Arc::new(e);
                let hs: Vec<_> = (0..4).map(|k| { let (sh, vals) = (sh.clone(), vals.clone()); std::thread::spawn(move || if k % 2 == 0 { sh.eval_vec(vals).ok().map(|v| v.to_bits()) } else { sh.eval_iter(vals.into_iter()).ok().map(|v| v.to_bits()) }) }).collect();
                let want = fresh(t, false, &vals).ok();
                for h in hs { histories += 1; if h.join().ok().flatten() != want { bad.push(format!("shared uncompiled {t:?}: a thread's consuming evaluation differs from a fresh one")); } }
                let mut c = (*sh).clone(); c.compile();
                let got = c.eval_vec(vals.clone()).ok().map(|v| v.to_bits());
                if got != fresh(t, true, &vals).ok() { bad.push(format!("clone of a shared evaluated {t:?}, compiled: eval_vec gives {:?}, a fresh compiled expression {:?}", got.map(f64::from_bits), fresh(t, true, &vals).ok().map(f64::from_bits))); }
            }
        }
    }
    // evaluation never modifies the expression
    match (FlatEx::<f64>::parse("x*2+y"), DeepEx::<f64>::parse("x*2+y")) {
        (Ok(f), Ok(d)) => {
            let before = format!("{f:?}"); let _ = f.eval(&[1.0, 2.0]); let _ = f.eval(&[3.0, 4.0]);
            if format!("{f:?}") != before { bad.push("FlatEx changed by eval".into()) }
            let before = format!("{d:?}"); let _ = d.eval(&[1.0, 2.0]);
            if format!("{d:?}") != before { bad.push("DeepEx changed by eval".into()) }
        }
        (f, d) => bad.push(format!("x*2+y is rejected at the end of the histories: flat {:?}, deep {:?}", f.err().map(|e| e.to_string()), d.err().map(|e| e.to_string()))),
    }
    std::fs::create_dir_all(&a.out).unwrap();
    let mut f = std::io::BufWriter::new(std::fs::File::create(format!("{}/meta.json", a.out)).unwrap());
    writeln!(f, "{{\"shard_size\": 1, \"n_shards\": 0, \"tables\": [[]], \"cases\": [").unwrap();
    let items: Vec<String> = if bad.is_empty() { vec![format!("{{\"tb\": 0, \"family\": \"concurrent-histories\", \"note\": \"{} thread histories over {} texts, 2..16 threads behind a barrier, shared Arc<FlatEx>/DeepEx\", \"prog\": \"threads\", \"size\": {}, \"nontrivial\": true, \"oracle_ok\": true, \"oracle_note\": \"\", \"answers\": []}}", histories, texts.len(), histories),
        "{\"tb\": 0, \"family\": \"send-sync\", \"note\": \"FlatEx<f64|f32|Term>, DeepEx<f64|Term>, FlatExVal<i32,f64>: Send + Sync accepted by rustc\", \"prog\": \"assert_send_sync\", \"size\": 6, \"nontrivial\": true, \"oracle_ok\": true, \"oracle_note\": \"\", \"answers\": []}".to_string()] }
        else { bad.iter().map(|b| format!("{{\"tb\": 0, \"family\": \"concurrent-histories\", \"note\": {}, \"prog\": {}, \"size\": 2, \"nontrivial\": true, \"oracle_ok\": false, \"oracle_note\": {}, \"answers\": []}}", json_str(b), json_str(b), json_str(b))).collect() };
    writeln!(f, "{}\n]}}", items.join(",\n")).unwrap();
    println!("mode=c20 thread_histories={histories} disagreements={}", bad.len());
}


/// C18 on the REAL value type (oracle only, no model): parse_val(text).partial(i).eval(point) against central differences of
/// parse_val(text).eval around the point, for arithmetic, every differentiable elementary function of the value table and
/// piecewise expressions; points are floats, and integers where the expression accepts them.  A derivative that evaluates
/// to an error value where the function itself evaluates to numbers around the point is a failure.
pub fn run_c18v(a: &Args) {
    use exmex::{parse_val, Differentiate, Express, Val};
    type V = Val<i32, f64>;
    let mut r = Rng::new(a.seed ^ 0x1818);
    let num = |v: &V| -> Option<f64> { match v { Val::Float(f) => Some(*f), Val::Int(i) => Some(*i as f64), _ => None } };
    let funs = ["sin", "cos", "tan", "asin", "acos", "atan", "sinh", "cosh", "tanh", "exp", "ln", "log", "log2", "log10", "sqrt"];
    let mut texts: Vec<String> = vec!["x/2", "3*x/4", "x*x/8", "x/y", "x^2", "x^y", "2^x", "x*y-y/x", "-x*x", "1/(x*x+1)", "x/2 if x > 1 else 3*x/4", "(x*x) if x > y else (x/3)",
        "2*((x*y) if x < y else (x+y))+x", "(x/3) if x != 2 else (y/3)", "sin(x) if x >= y else cos(x)*y", "-(x*x if x > 1 else x)", "(x if x > 1 else x*x) * (y if y <= 1 else 2*y)",
        "log10(x*x+1) if x > 0.5 else log2(x+3)", "sqrt(x+2) if y != 0.5 else x^3"].iter().map(|s| s.to_string()).collect();
    for f in funs { texts.push(format!("{f}(x/3+0.2)")); texts.push(format!("y*{f}(0.3*x+0.1)+x")); texts.push(format!("{f}(0.4) * x + {f}(x/4+0.1) if x > 0.6 else {f}(0.2+x/5)")); }
    for _ in 0..a.n { let f1 = funs[r.below(funs.len())]; let f2 = funs[r.below(funs.len())]; let c = ["x > 0.7", "y <= 0.5", "x < y", "x + y > 1.3", "x != 2", "x == y"][r.below(6)];
        texts.push(format!("({f1}(x/4+0.15)*y) if {c} else ({f2}(0.1+y/5)+x/3)")); }
    // arithmetic inside the comparison operands, without parentheses (the comparison rules carry the VALUES of their operands)
    for t in ["x^2 if x - 1 > 0 else 3*x", "x*y if x - y < 0.2 else x/y", "x if 2*x - y >= x + 0.1 else y*x", "sin(x) if x * 2 > y / 2 else cos(x)", "x*x if y - x - 0.1 > 0 else 2*x",
        "x^2 if x + y > 1 else x", "x/y if x / y > 1.5 else y/x", "x*3 if x - 0.5 == y - 0.5 else x*5", "exp(x) if -x + 1 < y else ln(x+1)", "x^3 if 1 - x > y - 1 else x^2", "y*x if x * y - 0.3 != 0 else x",
        "x*x if x ^ 2 > y else y*y", "2*x if x - 1 > 0 else (3*x if y - x > 0.2 else 5*x)",
        // a piecewise expression as direct operand of the tightest operators of the value table (^ / %)
        "x^1 if x > 0 else 2*x", "(x*y)^1.0 if x > y else x + y", "3 * (sin(x)^1 if x > 0 else x) + x", "x^0 + x if x > 0.5 else 0^x + y",
        "(x if x > 0 else -x)^3", "(3*x if x > 1 else x^2)^3", "x^(y if y > 0.5 else 2)", "(x if x > y else y)^y", "(x*x if x > 0.6 else x)/(y if y > 0.5 else 2)", "2^(x if x > 0.6 else 2*x)", "((x if x > 0.5 else 2*x)^2)^2"] { texts.push(t.to_string()); }
    for _ in 0..a.n { let ops = ["+", "-", "*", "/"]; let cmp = [">", "<", ">=", "<=", "!="][r.below(5)];
        let (l1, l2, r1) = (["x", "y", "0.4", "2"][r.below(4)], ["x", "y", "0.7", "1"][r.below(4)], ["x", "y", "0.5", "1.2"][r.below(4)]);
        let f1 = funs[r.below(funs.len())];
        texts.push(format!("{f1}(x/4+0.15)*y if {l1} {} {l2} {cmp} {r1} else x/3+y*y", ops[r.below(4)]));
        texts.push(format!("x*y if {r1} {cmp} {l1} {} {l2} {} 0.1 else x+y*x", ops[r.below(4)], ops[r.below(2)])); }
    let pts: Vec<Vec<f64>> = vec![vec![0.3, 0.8], vec![0.9, 0.4], vec![1.3, 0.2], vec![0.55, 0.55001], vec![2.0, 3.0], vec![1.0, 2.0], vec![3.0, 1.0], vec![0.37, 0.453]];
    struct C { note: String, family: &'static str, ok: bool, onote: String, answer: String }
    let mut cases: Vec<C> = vec![];
    for text in &texts {
        let Ok(e) = parse_val::<i32, f64>(text) else { cases.push(C { note: text.clone(), family: "val-derivative", ok: false, onote: "the text does not parse".into(), answer: String::new() }); continue };
        let nv = e.var_names().len();
        type DV<'a> = exmex::DeepEx<'a, V, exmex::ValOpsFactory<i32, f64>, exmex::ValMatcher>;
        for (idx, route) in (0..nv).flat_map(|i| [(i, "flat"), (i, "deep"), (i, "flat-to-deep")]) {
            // the derivative through FlatExVal::partial, through DeepEx::<Val>::parse(..).partial and through to_deepex().partial
            let dd: Result<Box<dyn Fn(&[V]) -> exmex::ExResult<V>>, String> = match route {
                "flat" => e.clone().partial(idx).map(|d| Box::new(move |v: &[V]| d.eval(v)) as Box<dyn Fn(&[V]) -> exmex::ExResult<V>>).map_err(|er| er.to_string()),
                "deep" => { let leaked: &'static str = Box::leak(text.clone().into_boxed_str());
                    std::panic::catch_unwind(|| DV::parse(leaked).and_then(|d| d.partial(idx))).unwrap_or_else(|_| Err(exmex::ExError::new("PANIC")))
                        .map(|d| Box::new(move |v: &[V]| d.eval(v)) as Box<dyn Fn(&[V]) -> exmex::ExResult<V>>).map_err(|er| er.to_string()) }
                _ => e.clone().to_deepex().and_then(|d| d.partial(idx)).map(|d| Box::new(move |v: &[V]| d.eval(v)) as Box<dyn Fn(&[V]) -> exmex::ExResult<V>>).map_err(|er| er.to_string()),
            };
            let text = &format!("[{route}] {text}");
            struct Ev(Box<dyn Fn(&[V]) -> exmex::ExResult<V>>); impl Ev { fn eval(&self, v: &[V]) -> exmex::ExResult<V> { (self.0)(v) } }
            let d = match dd.map(Ev) { Ok(d) => d, Err(er) => { cases.push(C { note: format!("d/dv{idx} {text}"), family: "val-derivative", ok: false, onote: format!("partial failed: {er}"), answer: String::new() }); continue } };
            for pt in &pts {
                for ints in [false] {
                    // integer points only where every coordinate is integral
                    if ints && pt.iter().any(|c| c.fract() != 0.0) { continue }
                    let mk = |p: &[f64]| -> Vec<V> { p[..nv].iter().map(|c| if ints { Val::Int(*c as i32) } else { Val::Float(*c) }).collect() };
                    let fl = |p: &[f64]| -> Vec<V> { p[..nv].iter().map(|c| Val::Float(*c)).collect() };
                    let h = 1e-6;
                    let (mut lo, mut hi) = (pt.clone(), pt.clone()); lo[idx] -= h; hi[idx] += h;
                    let (f0, flo, fhi) = (e.eval(&mk(pt)), e.eval(&fl(&lo)), e.eval(&fl(&hi)));
                    let (Ok(f0), Ok(flo), Ok(fhi)) = (f0, flo, fhi) else { continue };
                    let (Some(_), Some(vlo), Some(vhi)) = (num(&f0), num(&flo), num(&fhi)) else { continue };
                    // skip branch boundaries: a condition changes between the two sides
                    let (lo2, hi2) = ({ let mut q = pt.clone(); q[idx] -= 50.0 * h; q }, { let mut q = pt.clone(); q[idx] += 50.0 * h; q });
                    let (Ok(a2), Ok(b2)) = (e.eval(&fl(&lo2)), e.eval(&fl(&hi2))) else { continue };
                    let (Some(a2), Some(b2)) = (num(&a2), num(&b2)) else { continue };
                    let want = (vhi - vlo) / (2.0 * h); let want2 = (b2 - a2) / (100.0 * h);
                    if !want.is_finite() || (want - want2).abs() > 1e-3 * (1.0 + want.abs()) { continue }
                    // the point itself lies on the branch of its neighbours, and the one-sided slopes agree (no kink, no isolated point)
                    let v0 = num(&f0).unwrap();
                    let (left, right) = ((v0 - vlo) / h, (vhi - v0) / h);
                    if (left - right).abs() > 1e-3 * (1.0 + want.abs()) { continue }
                    let got = d.eval(&mk(pt));
                    let (ok, onote) = match &got { Ok(v) => match num(v) { Some(g) => ((g - want).abs() <= 2e-3 * (1.0 + want.abs()), format!("central differences give {want}")), None => (false, format!("the derivative evaluates to {v:?}, central differences give {want}")) }, Err(er) => (false, format!("the derivative fails to evaluate ({er}), central differences give {want}")) };
                    cases.push(C { note: format!("d/dv{idx} {text} at {:?}{}", &pt[..nv], if ints { " (integers)" } else { "" }), family: "val-derivative", ok, onote: if ok { String::new() } else { onote }, answer: format!("{got:?}") });
                }
            }
        }
    }
    // conditions over operators WITHOUT a derivative rule (% >> << on an integer variable n), differentiated by x with
    // MissingOpMode::PerOperand (the relaxed entry points), flat and deep: the condition must stay what it is
    {
        use exmex::MissingOpMode;
        type DV<'a> = exmex::DeepEx<'a, V, exmex::ValOpsFactory<i32, f64>, exmex::ValMatcher>;
        let ctexts = ["x*x if n % 2 == 0 else 3*x", "sin(x) if n >> 2 > 0 else x^3", "x^2 if 1 << n > 8 else x/2", "x*3 if n % 3 != 1 else x*x*x", "exp(x) if 7 % n < 3 else x", "x if n - 7 % 2 > 0 else x*x"];
        for text in ctexts {
            let Ok(e) = parse_val::<i32, f64>(text) else { cases.push(C { note: text.to_string(), family: "val-derivative-relaxed", ok: false, onote: "the text does not parse".into(), answer: String::new() }); continue };
            let names: Vec<String> = e.var_names().to_vec(); let (ni, xi) = (names.iter().position(|v| v == "n").unwrap(), names.iter().position(|v| v == "x").unwrap());
            for route in ["flat", "deep"] {
                let leaked: &'static str = Box::leak(text.to_string().into_boxed_str());
                let d: Result<Box<dyn Fn(&[V]) -> exmex::ExResult<V>>, String> = if route == "flat" { e.clone().partial_relaxed(xi, MissingOpMode::PerOperand).map(|d| Box::new(move |v: &[V]| d.eval(v)) as Box<dyn Fn(&[V]) -> exmex::ExResult<V>>).map_err(|er| er.to_string()) }
                    else { DV::parse(leaked).and_then(|d| d.partial_relaxed(xi, MissingOpMode::PerOperand)).map(|d| Box::new(move |v: &[V]| d.eval(v)) as Box<dyn Fn(&[V]) -> exmex::ExResult<V>>).map_err(|er| er.to_string()) };
                let d = match d { Ok(d) => d, Err(er) => { cases.push(C { note: format!("[{route}, per operand] d/dx {text}"), family: "val-derivative-relaxed", ok: false, onote: format!("partial_relaxed failed: {er}"), answer: String::new() }); continue } };
                for n in [1i32, 2, 3, 4, 5, 6, 9, 12] { for x0 in [0.5f64, 1.7, 3.0] {
                    let mk = |xv: f64| { let mut v = vec![Val::Float(0.0); 2]; v[ni] = Val::Int(n); v[xi] = Val::Float(xv); v };
                    let h = 1e-6;
                    let (Ok(lo), Ok(hi)) = (e.eval(&mk(x0 - h)), e.eval(&mk(x0 + h))) else { continue };
                    let (Some(lo), Some(hi)) = (num(&lo), num(&hi)) else { continue };
                    let want = (hi - lo) / (2.0 * h);
                    let got = d(&mk(x0));
                    let (ok, onote) = match &got { Ok(v) => match num(v) { Some(g) => ((g - want).abs() <= 2e-3 * (1.0 + want.abs()), format!("central differences give {want}")), None => (false, format!("the derivative evaluates to {v:?}, central differences give {want}")) }, Err(er) => (false, format!("evaluation failed: {er}")) };
                    cases.push(C { note: format!("[{route}, per operand] d/dx {text} at n={n}, x={x0}"), family: "val-derivative-relaxed", ok, onote: if ok { String::new() } else { onote }, answer: format!("{got:?}") });
                } }
            }
        }
    }
    std::fs::create_dir_all(&a.out).unwrap();
    let mut f = std::io::BufWriter::new(std::fs::File::create(format!("{}/meta.json", a.out)).unwrap());
    writeln!(f, "{{\"shard_size\": 1, \"n_shards\": 0, \"tables\": [[]], \"cases\": [").unwrap();
    let items: Vec<String> = cases.iter().map(|c| format!("{{\"tb\": 0, \"family\": {}, \"note\": {}, \"prog\": {}, \"size\": 3, \"nontrivial\": true, \"oracle_ok\": {}, \"oracle_note\": {}, \"answers\": [[\"eval\", {}]]}}",
        json_str(c.family), json_str(&c.note), json_str(&format!("parse_val({})", c.note)), c.ok, json_str(&c.onote), json_str(&c.answer))).collect();
    writeln!(f, "{}\n]}}", items.join(",\n")).unwrap();
    println!("mode=c18v cases={} oracle_failures={}", cases.len(), cases.iter().filter(|c| !c.ok).count());
}


/// C07 on the f64 entry points (oracle only): every entry point that takes a text -- eval_str, exmex::parse, FlatEx::parse,
/// FlatEx::parse_wo_compile, DeepEx::parse -- accepts the same texts; a variable-free text accepted by all evaluates to the
/// same value through all of them.  Texts: spellings that Rust's own number parser accepts but the expression grammar
/// does not (exponents, inf, nan, underscores, signs), malformed texts of the C07 kinds, and well-formed controls.
pub fn run_c07e(a: &Args) {
    use exmex::prelude::*;
    use exmex::DeepEx;
    let mut r = Rng::new(a.seed ^ 0x07e);
    let mut texts: Vec<String> = ["1e5", "1E5", "2.5e3", ".5e1", "7e0", "1e+5", "1e-5", "2.5E-3", "1e", "e1", "inf", "-inf", "+inf", "infinity", "NaN", "nan", "-nan", "+1", "-1", "+.5", "1_000", "0x10", "1.", ".1", "1.5.", "..", "1..2",
        "١٢", "1 ", " 1", "1e5+1", "(1e5)", "1e5x", "2e", "0e0", "1e400", "-1e5", "1f64", "1.0f32", "", " ", "()", "1+", "(1", "1)", "1 2", "1 2 *", "* 1 2", "1+*2", "sin", "sin()", "2 sin(1)", "1,2", "max(1,2", "max(1,2))", "max(1))+((2,3)",
        "1+2*3", "-(2)", "sin(0.5)*2", "max(1, 2)", "2^3^2", "PI", "e", "1.5", "007", "5.", ".5"].iter().map(|s| s.to_string()).collect();
    for _ in 0..a.n { let m = 1 + r.below(9); let d = r.below(40); let sign = ["", "+", "-"][r.below(3)]; let e = ["e", "E"][r.below(2)];
        texts.push(format!("{m}{e}{sign}{d}")); texts.push(format!("{m}.{d}{e}{d}")); texts.push(format!("{m}{e}{sign}{d}*2")); texts.push(format!("2+{m}{e}{d}")); }
    struct C { note: String, ok: bool, onote: String, answer: String }
    let mut cases: Vec<C> = vec![];
    for t in &texts {
        let g = |name: &str, r: Result<Option<f64>, String>| (name.to_string(), r);
        let val = |f: exmex::ExResult<FlatEx<f64>>| -> Result<Option<f64>, String> { f.map_err(|e| e.to_string()).map(|f| if f.var_names().is_empty() { f.eval(&[]).ok() } else { None }) };
        let outcomes = vec![
            g("FlatEx::parse", std::panic::catch_unwind(|| val(FlatEx::<f64>::parse(t))).unwrap_or(Err("PANIC".into()))),
            g("exmex::parse", std::panic::catch_unwind(|| val(exmex::parse::<f64>(t))).unwrap_or(Err("PANIC".into()))),
            g("parse_wo_compile", std::panic::catch_unwind(|| val(FlatEx::<f64>::parse_wo_compile(t))).unwrap_or(Err("PANIC".into()))),
            g("DeepEx::parse", std::panic::catch_unwind(|| DeepEx::<f64>::parse(t).map_err(|e| e.to_string()).map(|d| if d.var_names().is_empty() { d.eval(&[]).ok() } else { None })).unwrap_or(Err("PANIC".into()))),
        ];
        let es = std::panic::catch_unwind(|| exmex::eval_str::<f64>(t).map_err(|e| e.to_string())).unwrap_or(Err("PANIC".into()));
        let accepted: Vec<bool> = outcomes.iter().map(|(_, r)| r.is_ok()).collect();
        let mut ok = accepted.iter().all(|x| *x == accepted[0]); let mut onote = String::new();
        if !ok { onote = format!("the entry points disagree on acceptance: {:?}", outcomes.iter().map(|(n, r)| format!("{n}: {}", if r.is_ok() { "accepted" } else { "rejected" })).collect::<Vec<_>>()); }
        if ok { match (&outcomes[0].1, &es) {
            (Err(_), Ok(v)) => { ok = false; onote = format!("every parser rejects the text but eval_str evaluates it to {v}"); }
            (Ok(Some(v)), Ok(w)) => { if v.to_bits() != w.to_bits() && !(v.is_nan() && w.is_nan()) { ok = false; onote = format!("FlatEx::parse evaluates to {v}, eval_str to {w}"); } }
            (Ok(Some(v)), Err(e)) => { ok = false; onote = format!("FlatEx::parse evaluates to {v}, eval_str fails: {e}"); }
            _ => () } }
        if ok { let vals: Vec<f64> = outcomes.iter().filter_map(|(_, r)| r.as_ref().ok().and_then(|o| *o)).collect();
            if vals.windows(2).any(|w| (w[0] - w[1]).abs() > 1e-9 * (1.0 + w[0].abs()) && !(w[0].is_nan() && w[1].is_nan())) { ok = false; onote = format!("the entry points evaluate the text differently: {vals:?}"); } }
        cases.push(C { note: format!("{t:?}"), ok, onote, answer: format!("{:?} eval_str={es:?}", outcomes.iter().map(|(n, r)| format!("{n}={r:?}")).collect::<Vec<_>>()) });
    }
    std::fs::create_dir_all(&a.out).unwrap();
    let mut f = std::io::BufWriter::new(std::fs::File::create(format!("{}/meta.json", a.out)).unwrap());
    writeln!(f, "{{\"shard_size\": 1, \"n_shards\": 0, \"tables\": [[]], \"cases\": [").unwrap();
    let items: Vec<String> = cases.iter().map(|c| format!("{{\"tb\": 0, \"family\": \"f64-entry-points\", \"note\": {}, \"prog\": {}, \"size\": 2, \"nontrivial\": true, \"oracle_ok\": {}, \"oracle_note\": {}, \"answers\": [[\"outcomes\", {}]]}}",
        json_str(&c.note), json_str(&format!("all f64 text entry points on {}", c.note)), c.ok, json_str(&c.onote), json_str(&c.answer))).collect();
    writeln!(f, "{}\n]}}", items.join(",\n")).unwrap();
    println!("mode=c07e cases={} oracle_failures={}", cases.len(), cases.iter().filter(|c| !c.ok).count());
}


/// C09 on the f64 API (oracle only): the differentiation entry points are wrappers of each other and must agree --
/// partial(i), partial_nth(i, n), partial_iter(seq) and their relaxed variants with MissingOpMode::Error: the n-th derivative
/// is n single ones, an iterated derivative the sequential ones in that order, order zero the identity, an index that is
/// not smaller than the number of variables an error for every variant; flat and deep.
pub fn run_c09w(a: &Args) {
    use exmex::prelude::*;
    use exmex::{DeepEx, Differentiate, MissingOpMode};
    let mut r = Rng::new(a.seed ^ 0x09e);
    let mut texts: Vec<String> = ["x*y^2", "(a+b)*c^3", "x^2*y^3*z", "sin(x)*y+exp(x*y)", "x/y-ln(x+2)", "x", "2*3", "1.5", "sin(0.3)+2^2", "x*x*x*x", "exp(x+2*y)", "a*b*c*d", "sqrt(x*x+y*y+1)"].iter().map(|s| s.to_string()).collect();
    for _ in 0..a.n { let f = ["sin", "cos", "exp", "tanh", "atan"][r.below(5)]; let g = ["x*y", "x+y*z", "x*x-y", "y/(x*x+1)"][r.below(4)]; texts.push(format!("{f}({g})*x+{}*y", 1 + r.below(5))); }
    struct C { note: String, ok: bool, onote: String }
    let mut cases: Vec<C> = vec![];
    fn sigf(e: &exmex::ExResult<FlatEx<f64>>, pts: &[Vec<f64>]) -> String {
        match e { Err(_) => "Err".to_string(), Ok(e) => { let n = e.var_names().len(); format!("{:?} {:?}", e.var_names(), pts.iter().map(|p| e.eval(&p[..n]).map(|v| (v * 1e9).round() / 1e9).map_err(|_| ())).collect::<Vec<_>>()) } }
    }
    fn sigd<'a>(e: &exmex::ExResult<DeepEx<'a, f64>>, pts: &[Vec<f64>]) -> String {
        match e { Err(_) => "Err".to_string(), Ok(e) => { let n = e.var_names().len(); format!("{:?} {:?}", e.var_names(), pts.iter().map(|p| e.eval(&p[..n]).map(|v| (v * 1e9).round() / 1e9).map_err(|_| ())).collect::<Vec<_>>()) } }
    }
    let pts: Vec<Vec<f64>> = vec![vec![0.3, 0.8, 1.1, 0.6], vec![1.3, 0.4, 0.7, 2.1]];
    let texts: Vec<&'static str> = texts.into_iter().map(|t| &*Box::leak(t.into_boxed_str())).collect();
    for t in texts.iter().copied() {
        let Ok(f0) = FlatEx::<f64>::parse(t) else { cases.push(C { note: t.to_string(), ok: false, onote: "does not parse".into() }); continue };
        let Ok(d0) = DeepEx::<f64>::parse(t) else { cases.push(C { note: t.to_string(), ok: false, onote: "does not parse (deep)".into() }); continue };
        let nv = f0.var_names().len();
        for idx in 0..nv + 2 { for n in 0..3usize {
            let seq: Vec<usize> = vec![idx; n];
            let singles = |mut e: exmex::ExResult<FlatEx<f64>>| { for _ in 0..n { e = e.and_then(|x| x.partial(idx)); } e };
            let want = if n == 0 && idx >= nv { sigf(&FlatEx::<f64>::parse(t).and_then(|e| e.partial_iter(std::iter::once(idx)).and(FlatEx::<f64>::parse(t))), &pts) } else { sigf(&singles(Ok(f0.clone())), &pts) };
            // an out-of-range index is an error whatever the order... except order zero, where nothing is differentiated
            let want = if idx >= nv && n > 0 { "Err".to_string() } else if n == 0 { sigf(&Ok::<_, exmex::ExError>(f0.clone()), &pts) } else { want };
            let variants: Vec<(&str, String)> = vec![
                ("flat partial_nth", sigf(&f0.clone().partial_nth(idx, n), &pts)),
                ("flat partial_iter", sigf(&f0.clone().partial_iter(seq.iter().copied()), &pts)),
                ("flat partial_nth_relaxed", sigf(&f0.clone().partial_nth_relaxed(idx, n, MissingOpMode::Error), &pts)),
                ("flat partial_iter_relaxed", sigf(&f0.clone().partial_iter_relaxed(seq.iter().copied(), MissingOpMode::Error), &pts)),
                ("deep partial_nth", sigd(&d0.clone().partial_nth(idx, n), &pts)),
                ("deep partial_iter", sigd(&d0.clone().partial_iter(seq.iter().copied()), &pts)),
                ("deep partial_nth_relaxed", sigd(&d0.clone().partial_nth_relaxed(idx, n, MissingOpMode::Error), &pts)),
            ];
            let mut vs = variants;
            if n == 1 { vs.push(("flat partial", sigf(&f0.clone().partial(idx), &pts))); vs.push(("flat partial_relaxed", sigf(&f0.clone().partial_relaxed(idx, MissingOpMode::Error), &pts)));
                        vs.push(("deep partial", sigd(&d0.clone().partial(idx), &pts))); vs.push(("deep partial_relaxed", sigd(&d0.clone().partial_relaxed(idx, MissingOpMode::Error), &pts))); }
            let badv: Vec<String> = vs.iter().filter(|(_, s)| *s != want).map(|(n2, s)| format!("{n2}: {s}")).collect();
            cases.push(C { note: format!("{t:?} index {idx} order {n}"), ok: badv.is_empty(), onote: if badv.is_empty() { String::new() } else { format!("{n} single derivatives give {want}; but {}", badv.join("; ")) } });
        } }
        // mixed sequences: partial_iter = the sequential single derivatives in that order
        if nv >= 2 { for seq in [vec![0usize, 1], vec![1, 0], vec![1, 1, 0], vec![0, nv - 1, 0]] {
            let mut e: exmex::ExResult<FlatEx<f64>> = Ok(f0.clone()); for i in &seq { e = e.and_then(|x| x.partial(*i)); }
            let want = sigf(&e, &pts);
            let vs = vec![("flat partial_iter", sigf(&f0.clone().partial_iter(seq.iter().copied()), &pts)), ("deep partial_iter", sigd(&d0.clone().partial_iter(seq.iter().copied()), &pts)), ("flat partial_iter_relaxed", sigf(&f0.clone().partial_iter_relaxed(seq.iter().copied(), MissingOpMode::Error), &pts))];
            let badv: Vec<String> = vs.iter().filter(|(_, s)| *s != want).map(|(n2, s)| format!("{n2}: {s}")).collect();
            cases.push(C { note: format!("{t:?} sequence {seq:?}"), ok: badv.is_empty(), onote: if badv.is_empty() { String::new() } else { format!("the single derivatives in that order give {want}; but {}", badv.join("; ")) } });
        } }
    }
    std::fs::create_dir_all(&a.out).unwrap();
    let mut f = std::io::BufWriter::new(std::fs::File::create(format!("{}/meta.json", a.out)).unwrap());
    writeln!(f, "{{\"shard_size\": 1, \"n_shards\": 0, \"tables\": [[]], \"cases\": [").unwrap();
    let items: Vec<String> = cases.iter().map(|c| format!("{{\"tb\": 0, \"family\": \"differentiation-entry-points\", \"note\": {}, \"prog\": {}, \"size\": 3, \"nontrivial\": true, \"oracle_ok\": {}, \"oracle_note\": {}, \"answers\": []}}",
        json_str(&c.note), json_str(&format!("partial / partial_nth / partial_iter (relaxed) on {}", c.note)), c.ok, json_str(&c.onote))).collect();
    writeln!(f, "{}\n]}}", items.join(",\n")).unwrap();
    println!("mode=c09w cases={} oracle_failures={}", cases.len(), cases.iter().filter(|c| !c.ok).count());
}

/// regenerates coq/Gen/Tables.v from the implementation's own operator tables and derivative rule names
pub fn dump_tables(path: &str) {
    use crate::term::{float_table, val_table, g_table};
    let rules = exmex::verif_hooks::verif_partial_rule_names();
    let mut s = String::from("(* GENERATED on every run by `harness tables` from FloatOpsFactory::<f64>::make(), ValOpsFactory::<i32,f64>::make() and\n   make_partial_derivative_ops (hook verif_partial_rule_names).  Do not edit. *)\nFrom Exmex.Model Require Import Base.\n");
    s.push_str(&format!("Definition float_table : optable :=\n {}.\n", g_table(&float_table())));
    s.push_str(&format!("Definition val_table : optable :=\n {}.\n", g_table(&val_table())));
    let items: Vec<String> = rules.iter().map(|(n, b, u)| format!("({}, {b}, {u})", g_str(n))).collect();
    s.push_str(&format!("Definition partial_rule_names : list (str * bool * bool) :=\n [{}].\n", items.join(";\n  ")));
    let old = std::fs::read_to_string(path).unwrap_or_default();
    if old != s { std::fs::write(path, s).unwrap(); println!("tables: rewritten {path}"); } else { println!("tables: unchanged"); }
}

/// C06 "never hangs" on the value-typed entry points (oracle only): every operator of the value table over i64/f64 applied
/// to huge operands -- as literals folded at parse time (parse_val, FlatEx/DeepEx over Val) and as variable values at
/// evaluation time -- returns (a value, an error value or an error) within a generous time budget.  Each probe runs in its
/// own thread; a probe that does not return is reported and its thread abandoned (the process exits at the end).
pub fn run_c06t(a: &Args) {
    use exmex::{parse_val, Express, Val, MakeOperators};
    use std::sync::mpsc; use std::time::Duration;
    type V = Val<i64, f64>;
    type DV<'a> = exmex::DeepEx<'a, V, exmex::ValOpsFactory<i64, f64>, exmex::ValMatcher>;
    let budget = Duration::from_secs(if a.thorough { 40 } else { 25 });
    let ops = exmex::ValOpsFactory::<i64, f64>::make();
    let lits = ["9223372036854775807", "4611686018427387904", "2147483648", "1000000000000", "99999999999999999999", "179769313486231570000000000000000000000.0", "0.000000000000000000001"];
    let rights = ["2", "63", "64", "9223372036854775807", "0.5", "-1", "1000000000"];
    let mut probes: Vec<(String, Option<Vec<V>>)> = vec![];
    for o in &ops {
        let name = o.repr();
        if o.constant().is_some() { continue }
        if o.has_unary() { for l in lits { probes.push((format!("{name}({l})"), None)); probes.push((format!("1+{name} {l}*2"), None)); } }
        if o.has_bin() { for l in lits { for rr in rights { probes.push((format!("{l} {name} {rr}"), None)); probes.push((format!("{name}({l}, {rr})"), None)); } } }
        let vals: Vec<V> = vec![Val::Int(i64::MAX), Val::Int(i64::MIN), Val::Int(1 << 40), Val::Float(1e300), Val::Float(f64::INFINITY), Val::Float(f64::NAN), Val::Float(-1e19)];
        if o.has_unary() { for v in &vals { probes.push((format!("{name}(x)"), Some(vec![v.clone()]))); } }
        if o.has_bin() { for v in &vals { for w in [Val::Int(i64::MAX), Val::Int(63), Val::Int(-1), Val::Float(0.5), Val::Float(1e300)] { probes.push((format!("x {name} y"), Some(vec![v.clone(), w.clone()]))); } } }
    }
    let _ = a.n;
    struct C { note: String, ok: bool, onote: String }
    let mut cases: Vec<C> = vec![]; let mut hung = 0;
    for (text, vals) in probes {
        let note = match &vals { None => format!("{text:?} (literals)"), Some(v) => format!("{text:?} at {v:?}") };
        if hung >= 4 { continue }
        let (tx, rx) = mpsc::channel::<Result<(), String>>();
        let (t2, v2) = (text.clone(), vals.clone());
        std::thread::Builder::new().stack_size(64 << 20).spawn(move || {
            let r = std::panic::catch_unwind(|| {
                let leaked: &'static str = Box::leak(t2.clone().into_boxed_str());
                if let Ok(e) = parse_val::<i64, f64>(leaked) { match &v2 { Some(v) if v.len() == e.var_names().len() => { let _ = e.eval(v); let _ = e.clone().eval_vec(v.clone()); } None if e.var_names().is_empty() => { let _ = e.eval(&[]); } _ => () } }
                if let Ok(d) = DV::parse(leaked) { match &v2 { Some(v) if v.len() == d.var_names().len() => { let _ = d.eval(v); } None if d.var_names().is_empty() => { let _ = d.eval(&[]); } _ => () } }
                if let Ok(f) = exmex::FlatEx::<V, exmex::ValOpsFactory<i64, f64>, exmex::ValMatcher>::parse_wo_compile(leaked) { match &v2 { Some(v) if v.len() == f.var_names().len() => { let _ = f.eval(v); } None if f.var_names().is_empty() => { let _ = f.eval(&[]); } _ => () } }
            });
            let _ = tx.send(r.map_err(|_| "panicked".to_string()));
        }).unwrap();
        match rx.recv_timeout(budget) {
            Ok(Ok(())) => cases.push(C { note, ok: true, onote: String::new() }),
            Ok(Err(m)) => cases.push(C { note, ok: false, onote: m }),
            Err(_) => { hung += 1; cases.push(C { note, ok: false, onote: format!("parsing and evaluating did not return within {} s (hangs)", budget.as_secs()) }); }
        }
    }
    // sessions of statement lines (assignments, re-assignments, queries; right-hand sides with variables are kept as
    // expressions and evaluated when used): every query against a small reference that substitutes definitions into the text
    {
        use exmex::{line_2_statement_val, StatementsVal};
        let mut r = Rng::new(a.seed ^ 0x57a7);
        let mut sessions: Vec<Vec<String>> = vec![
            vec!["x = 1", "y = 2", "x = 5", "x + y"], vec!["x = 1", "y = 2", "z = 3", "x = 5", "y", "x - y", "z * x"], vec!["a = 2", "b = a * 3", "a = 4", "b", "a + b"],
            vec!["a = 1", "b = 2", "c = 3", "d = 4", "b = 20", "a", "b", "c", "d", "a = 10", "d - a"], vec!["p = 2", "q = p ^ 2", "r = q + p", "p = 3", "r", "q = 1", "r"]].into_iter().map(|v| v.into_iter().map(String::from).collect()).collect();
        for _ in 0..(if a.thorough { 200 } else { 40 }) { let names = ["a", "b", "c", "d", "e"]; let mut defined: Vec<&str> = vec![]; let mut lines = vec![];
            for _ in 0..4 + r.below(10) { let kind = r.below(4);
                let expr = |r: &mut Rng, defined: &Vec<&str>| -> String { if defined.is_empty() || r.chance(1, 3) { format!("{}", 1 + r.below(9)) } else { let u = defined[r.below(defined.len())]; let w = defined[r.below(defined.len())]; format!("{u} {} {w} + {}", ["+", "-", "*"][r.below(3)], r.below(5)) } };
                if kind < 3 || defined.is_empty() { let v = names[r.below(5)]; let e = expr(&mut r, &defined.iter().copied().filter(|d| *d != v).collect()); lines.push(format!("{v} = {e}")); if !defined.contains(&v) { defined.push(v); } }
                else { lines.push(expr(&mut r, &defined)); } }
            sessions.push(lines); }
        for lines in sessions {
            let res = std::panic::catch_unwind(|| -> Result<(), String> {
                let mut st = StatementsVal::<i32, f64>::default();
                let mut defs: Vec<(String, String)> = vec![];   // reference: name -> definition text (latest)
                fn expand(t: &str, defs: &[(String, String)], depth: usize) -> String { if depth > 12 { return "(0/0)".into() } let mut out = String::new();
                    for c in t.chars() { if let Some((_, d)) = defs.iter().find(|(n, _)| n.len() == 1 && n.starts_with(c)) { out.push('('); out.push_str(&expand(d, defs, depth + 1)); out.push(')'); } else { out.push(c); } } out }
                for line in &lines {
                    let leaked: &'static str = Box::leak(line.clone().into_boxed_str());
                    let stm = line_2_statement_val::<i32, f64>(leaked).map_err(|e| format!("line {line:?} rejected: {e}"))?;
                    match stm.var { Some(v) => { let rhs_text = line.split('=').nth(1).unwrap().trim().to_string();
                            // a right-hand side without variables is stored as its value, one with variables as the expression
                            let stored = if rhs_text.chars().any(|c| c.is_ascii_lowercase()) { rhs_text } else { format!("{}", exmex::eval_str::<f64>(&rhs_text).map_err(|e| e.to_string())?) };
                            defs.retain(|(n, _)| n != v); defs.push((v.to_string(), stored)); st = st.insert(v, stm.rhs); }
                        None => { // an error is a legitimate answer (definitions are substituted one level deep only); a value must be the right one
                            let got = match stm.rhs.eval(&st) { Err(_) => continue, Ok(Val::Int(i)) => i as f64, Ok(Val::Float(f)) => f, Ok(other) => return Err(format!("query {line:?} gives {other:?}")) };
                            let want = exmex::eval_str::<f64>(&expand(line, &defs, 0)).map_err(|e| format!("reference failed on {line:?}: {e}"))?;
                            if !(got == want || (got - want).abs() <= 1e-9 * (1.0 + want.abs()) || (got.is_nan() && want.is_nan())) { return Err(format!("query {line:?} gives {got}, the definitions give {want}")) } } }
                }
                Ok(()) });
            let (ok, onote) = match res { Ok(Ok(())) => (true, String::new()), Ok(Err(m)) => (false, m), Err(_) => (false, "a statement call panicked".into()) };
            cases.push(C { note: format!("statement session {:?}", lines), ok, onote });
        }
    }
    std::fs::create_dir_all(&a.out).unwrap();
    {
        let mut f = std::io::BufWriter::new(std::fs::File::create(format!("{}/meta.json", a.out)).unwrap());
        writeln!(f, "{{\"shard_size\": 1, \"n_shards\": 0, \"tables\": [[]], \"cases\": [").unwrap();
        let items: Vec<String> = cases.iter().map(|c| format!("{{\"tb\": 0, \"family\": \"value-operators-on-huge-operands-return\", \"note\": {}, \"prog\": {}, \"size\": 2, \"nontrivial\": true, \"oracle_ok\": {}, \"oracle_note\": {}, \"answers\": [[\"returned\", {}]]}}",
            json_str(&c.note), json_str(&format!("parse_val / DeepEx / parse_wo_compile over Val<i64,f64> on {}", c.note)), c.ok, json_str(&c.onote), json_str(if c.ok { "yes" } else { "no" }))).collect();
        writeln!(f, "{}\n]}}", items.join(",\n")).unwrap();
    }
    println!("mode=c06t cases={} oracle_failures={}", cases.len(), cases.iter().filter(|c| !c.ok).count());
    std::process::exit(0);
}

/// C15 on a HANDLE-SIZED data type (oracle only): a value type that is three machine words (a Vec of words) with a counting
/// Clone and custom operators.  eval_vec / eval_iter must give the value of eval, clone variable i exactly
/// (occurrences - 1) times -- so not at all when it occurs once -- and never show an operator a moved-out placeholder.
pub mod small_type {
    use std::sync::atomic::{AtomicUsize, Ordering};
    pub static CLONES: AtomicUsize = AtomicUsize::new(0);
    #[derive(Debug, Default, PartialEq)]
    pub struct W(pub Vec<u32>);
    impl Clone for W { fn clone(&self) -> Self { CLONES.fetch_add(1, Ordering::SeqCst); W(self.0.clone()) } }
    impl std::str::FromStr for W { type Err = std::num::ParseIntError; fn from_str(s: &str) -> Result<Self, Self::Err> { s.parse::<u32>().map(|n| W(vec![n])) } }
    #[derive(Clone, Debug)] pub struct WOps;
    impl exmex::MakeOperators<W> for WOps { fn make<'a>() -> Vec<exmex::Operator<'a, W>> { use exmex::{BinOp, Operator}; vec![
        Operator::make_bin("+", BinOp { apply: |mut a, b| { a.0.extend(b.0); a }, prio: 0, is_commutative: false }),
        Operator::make_bin("*", BinOp { apply: |a, b| W(a.0.iter().flat_map(|x| b.0.iter().map(move |y| x.wrapping_mul(31).wrapping_add(*y))).collect()), prio: 2, is_commutative: false }),
        Operator::make_bin_unary("-", BinOp { apply: |mut a, b| { a.0.push(0); a.0.extend(b.0.into_iter().rev()); a }, prio: 1, is_commutative: false }, |mut a| { a.0.reverse(); a.0.push(7); a }),
        Operator::make_unary("dup", |mut a| { let c = a.0.clone(); a.0.extend(c); a }) ] } }
    exmex::literal_matcher_from_pattern!(WMatcher, r"^[0-9]+");
    pub use exmex::MatchLiteral;
}
pub fn run_c15s(a: &Args) {
    use exmex::prelude::*;
    use small_type::*;
    use std::sync::atomic::Ordering;
    type FW = FlatEx<W, WOps, WMatcher>;
    assert!(std::mem::size_of::<W>() <= 3 * std::mem::size_of::<usize>());
    let mut r = Rng::new(a.seed ^ 0x155);
    let mut texts: Vec<String> = ["x", "x+y", "x+y+x", "x*x", "x*y-z", "-x+dup(y)", "x+1", "2*x+x", "x-y*z+2", "dup(x)*dup(-x)", "a+b+c+d+e+f+g+h+i+j+k+l+m+n+o+p+q", "x*y+y*x+z", "1+2*3", "x+x+x+x+x"].iter().map(|s| s.to_string()).collect();
    for _ in 0..a.n { let names = ["x", "y", "z", "w"]; let m = 1 + r.below(7); let mut t = String::new();
        for k in 0..m { if k > 0 { t.push_str(["+", "*", "-"][r.below(3)]); } if r.chance(1, 5) { t.push_str("dup("); t.push_str(names[r.below(4)]); t.push(')'); } else if r.chance(1, 6) { t.push_str(&format!("{}", r.below(9))); } else { if r.chance(1, 5) { t.push('-'); } t.push_str(names[r.below(4)]); } }
        texts.push(t); }
    struct C { note: String, ok: bool, onote: String }
    let mut cases: Vec<C> = vec![];
    for t in &texts {
        for wo in [false, true] {
            let leaked: &'static str = Box::leak(t.clone().into_boxed_str());
            let e = match if wo { FW::parse_wo_compile(leaked) } else { FW::parse(leaked) } { Ok(e) => e, Err(er) => { cases.push(C { note: format!("{t}"), ok: false, onote: format!("does not parse: {er}") }); continue } };
            let names: Vec<String> = e.var_names().to_vec(); let n = names.len();
            let vals: Vec<W> = (0..n).map(|k| W(vec![100 + k as u32, 200 + k as u32])).collect();
            let c_before = CLONES.load(Ordering::SeqCst);
            let want = e.eval(&vals);
            let clones_borrowing = CLONES.load(Ordering::SeqCst) - c_before;
            // occurrences of each variable among the nodes of the expression as it is (folded or not)
            let printed = e.unparse().to_string();
            let _ = printed;
            let occ: Vec<usize> = { let toks: Vec<&str> = t.split(|c: char| !c.is_alphanumeric()).filter(|w| !w.is_empty()).collect(); names.iter().map(|nm| toks.iter().filter(|w| **w == nm.as_str()).count()).collect() };
            // the borrowing evaluation clones every operand: every variable occurrence and every literal node
            let n_literals = clones_borrowing.saturating_sub(occ.iter().sum::<usize>());
            let allowed: usize = occ.iter().map(|o| o.saturating_sub(1)).sum::<usize>() + n_literals;
            for route in ["eval_vec", "eval_iter"] {
                let owned: Vec<W> = { let before = CLONES.load(Ordering::SeqCst); let v = vals.clone(); let _ = before; v };
                let c0 = CLONES.load(Ordering::SeqCst);
                let got = if route == "eval_vec" { e.eval_vec(owned) } else { e.eval_iter(owned.into_iter()) };
                let clones = CLONES.load(Ordering::SeqCst) - c0;
                let (mut ok, mut onote) = (true, String::new());
                match (&got, &want) { (Ok(g), Ok(w)) => if g != w { ok = false; onote = format!("{route} gives {g:?}, eval gives {w:?}"); }, (Err(_), Err(_)) => (), _ => { ok = false; onote = format!("{route} gives {got:?}, eval gives {want:?}"); } }
                if ok && got.is_ok() && clones != allowed { ok = false; onote = format!("{route} cloned {clones} times, the occurrences {occ:?} and {n_literals} literal nodes allow exactly {allowed}"); }
                cases.push(C { note: format!("{route} of {}{t} with {n} variables", if wo { "uncompiled " } else { "" }), ok, onote });
            }
        }
    }
    std::fs::create_dir_all(&a.out).unwrap();
    let mut f = std::io::BufWriter::new(std::fs::File::create(format!("{}/meta.json", a.out)).unwrap());
    writeln!(f, "{{\"shard_size\": 1, \"n_shards\": 0, \"tables\": [[]], \"cases\": [").unwrap();
    let items: Vec<String> = cases.iter().map(|c| format!("{{\"tb\": 0, \"family\": \"handle-sized-counting-type\", \"note\": {}, \"prog\": {}, \"size\": 3, \"nontrivial\": true, \"oracle_ok\": {}, \"oracle_note\": {}, \"answers\": [[\"ok\", {}]]}}",
        json_str(&c.note), json_str(&c.note), c.ok, json_str(&c.onote), json_str(if c.ok { "yes" } else { "no" }))).collect();
    writeln!(f, "{}\n]}}", items.join(",\n")).unwrap();
    println!("mode=c15s cases={} oracle_failures={}", cases.len(), cases.iter().filter(|c| !c.ok).count());
}

/// child of mode c20: `nt` threads released together parse, as the FIRST parses of this process, texts with names from
/// every range of the variable pattern; exit code 1 and one line per deviation from the hard-coded expectation
pub fn run_c20cold(nt: usize) {
    use exmex::prelude::*;
    use exmex::DeepEx;
    use std::sync::{Arc, Barrier};
    let cases: Vec<(&'static str, Vec<&'static str>)> = vec![("Δt*2+Ω", vec!["Δt", "Ω"]), ("Ωmega-Δ*x_1", vec!["x_1", "Δ", "Ωmega"]), ("αβ+Γδ*_z9", vec!["_z9", "Γδ", "αβ"]), ("Zx+zX-A_Ω", vec!["A_Ω", "Zx", "zX"]), ("sinΦ+sin(Φ)", vec!["sinΦ", "Φ"]), ("x+1", vec!["x"])];
    let cases = Arc::new(cases);
    let barrier = Arc::new(Barrier::new(nt));
    let handles: Vec<_> = (0..nt).map(|tid| { let (b, cs) = (barrier.clone(), cases.clone()); std::thread::spawn(move || {
        b.wait();
        let mut bad: Vec<String> = vec![];
        for k in 0..cs.len() { let (text, want) = &cs[(k + tid) % cs.len()];
            let got: Result<Vec<String>, String> = if (k + tid) % 2 == 0 { FlatEx::<f64>::parse(text).map(|f| f.var_names().to_vec()).map_err(|e| e.to_string()) } else { DeepEx::<f64>::parse(text).map(|f| f.var_names().to_vec()).map_err(|e| e.to_string()) };
            let mut w: Vec<String> = want.iter().map(|s| s.to_string()).collect(); w.sort();
            match got { Ok(v) => if v != w { bad.push(format!("{text:?}: variables {v:?}, expected {w:?}")); }, Err(e) => bad.push(format!("{text:?}: rejected ({e}), expected the variables {w:?}")) } }
        bad }) }).collect();
    let mut all: Vec<String> = vec![];
    for h in handles { match h.join() { Ok(b) => all.extend(b), Err(_) => all.push("a thread panicked".into()) } }
    for l in &all { println!("{l}"); }
    std::process::exit(if all.is_empty() { 0 } else { 1 });
}
