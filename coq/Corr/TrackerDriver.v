(* Corr/TrackerDriver.v — correspondence for the machine-word trackers: the harness runs operation histories on
   `impl NumberTracker for usize` (nwords = 0) and `impl NumberTracker for [usize]` and records every answer
   (None = the call panicked); `tmismatches` replays the histories on Model/Tracker.v. *)
From Coq Require Import List NArith Arith.
Import ListNotations.
From Exmex.Model Require Import Base Tracker.

Inductive top := TIgn (j : nat) | TPrev (i : nat) (r : option nat) | TNext (i : nat) (r : option nat).
Inductive tcase := TCase (nwords : nat) (ops : list top).

Definition opt_eqb (a b : option nat) : bool :=
  match a, b with Some x, Some y => Nat.eqb x y | None, None => true | _, _ => false end.
Fixpoint replay {T} (tr : tracker T) (t : T) (ops : list top) : bool :=
  match ops with
  | [] => true
  | TIgn j :: tl => match t_ign tr t j with Some t' => replay tr t' tl | None => false end   (* recorded only when it did not panic *)
  | TPrev i r :: tl => opt_eqb (t_prev tr t i) r && replay tr t tl
  | TNext i r :: tl => opt_eqb (t_next tr t i) r && replay tr t tl
  end.
(* the word tracker never panics in get_previous/get_next; the slice tracker panics on an out-of-range segment *)
Definition tcheck (c : tcase) : bool :=
  match c with
  | TCase O ops => replay word_tracker 0%N ops
  | TCase n ops => replay slice_tracker (repeat 0%N n) ops
  end.
Definition tmismatches (cs : list tcase) : list N :=
  map (fun ic => (N.of_nat (fst ic) * 1000)%N) (filter (fun ic => negb (tcheck (snd ic))) (combine (seq 0 (length cs)) cs)).
