(* Proofs/PartialCorrect.v — DeepEx::partial (partial.rs) computes the mathematical partial derivative.
   For every deep expression over the real carrier that is in compile normal form and index-consistent with its
   sorted variable list, every variable index and every assignment: if partial_deepex succeeds, the result has the
   variable list of the expression, and wherever every operator application of the expression lies in the interior of
   its domain (the condition component of the dual denotation) the real denotation of the expression, as a function of
   the chosen variable, is differentiable and the denotation of the result is its derivative. *)
From Coq Require Import Reals Lra List NArith ZArith Lia Bool Sorted.
From Coquelicot Require Import Coquelicot.
Import ListNotations.
From Exmex.Model Require Import Base EvalBinary Lexer Flat Deep Convert Calc Partial.
From Exmex.Gen Require Import Tables.
From Exmex.Spec Require Import RefSem.
From Exmex.Proofs Require Import Vars DeepVars ChainMachine SortDesc EvalBinaryCorrect Pev PevFold PevRel LevelRun RemoveLoop DeepSem DeepCompile DeepSubs C11Main
  DeepOps NormalForm Hereditary RuleAnalysis RealCarrier CalcSem Dual.
Open Scope nat_scope.

Local Notation tb := float_table.
Local Notation tfl := (tflagged tb).

Section PartialCorrect.
Variable all : list str.
Hypothesis all_sorted : StronglySorted str_lt all.

Definition Wv (a : deepex R) : Prop := W a /\ incl (dvars a) all.

(* ---- the calculator operations on expressions over names of `all` ---- *)
Lemma const_Wv (d : R) : Wv (DE [DNum d] [] [] []).
Proof. split; [apply const_W|intros y []]. Qed.
Lemma union_Wv a b : Wv a -> Wv b -> incl (sort_strs (dvars a ++ dvars b)) all.
Proof. intros [_ Ia] [_ Ib]. apply union_incl; assumption. Qed.

Local Open Scope R_scope.
Lemma add_v a b r : Wv a -> Wv b -> d_add Rc RDC tb a b = Ok r -> Wv r /\ forall rho, ddenR rho r = ddenR rho a + ddenR rho b.
Proof. intros Ha Hb H. destruct (d_add_sem a b r (proj1 Ha) (proj1 Hb) H) as (Wr & Vr & Dr). split; [split; [exact Wr|rewrite Vr; apply union_Wv; assumption]|exact Dr]. Qed.
Lemma sub_v a b r : Wv a -> Wv b -> d_sub Rc tb a b = Ok r -> Wv r /\ forall rho, ddenR rho r = ddenR rho a - ddenR rho b.
Proof. intros Ha Hb H. destruct (d_sub_sem a b r (proj1 Ha) (proj1 Hb) H) as (Wr & Vr & Dr). split; [split; [exact Wr|rewrite Vr; apply union_Wv; assumption]|exact Dr]. Qed.
Lemma mul_v a b r : Wv a -> Wv b -> d_mul Rc RDC tb a b = Ok r -> Wv r /\ forall rho, ddenR rho r = ddenR rho a * ddenR rho b.
Proof. intros Ha Hb H. destruct (d_mul_sem a b r (proj1 Ha) (proj1 Hb) H) as (Wr & Vr & Dr). split; [split; [exact Wr|rewrite Vr; apply union_Wv; assumption]|exact Dr]. Qed.
Lemma div_v a b r : Wv a -> Wv b -> d_div Rc RDC tb a b = Ok r -> Wv r /\ forall rho, ddenR rho r = ddenR rho a / ddenR rho b.
Proof. intros Ha Hb H. destruct (d_div_sem a b r (proj1 Ha) (proj1 Hb) H) as (Wr & Vr & Dr). split; [split; [exact Wr|rewrite Vr; apply union_Wv; assumption]|exact Dr]. Qed.
Lemma pow_v a b r : Wv a -> Wv b -> d_pow Rc RDC tb a b = Ok r ->
  Wv r /\ ((forall rho, ddenR rho r = powR (ddenR rho a) (ddenR rho b)) \/ ((forall rho, ddenR rho a = 0) /\ (forall rho, ddenR rho r = 0))).
Proof. intros Ha Hb H. destruct (d_pow_sem a b r (proj1 Ha) (proj1 Hb) H) as (Wr & Vr & Dr). split; [split; [exact Wr|rewrite Vr; apply union_Wv; assumption]|exact Dr]. Qed.
Lemma neg_v a r : Wv a -> d_neg Rc tb a = Ok r -> Wv r /\ forall rho, ddenR rho r = - ddenR rho a.
Proof. intros Ha H. destruct (d_neg_sem a r (proj1 Ha) H) as (Wr & Vr & Dr). split; [split; [exact Wr|rewrite Vr; exact (proj2 Ha)]|exact Dr]. Qed.
Lemma num_v d r : from_num Rc d = Ok r -> Wv r /\ forall rho, ddenR rho r = d.
Proof. intros H. rewrite from_num_eq in H. inversion H; subst r. split; [apply const_Wv|reflexivity]. Qed.
Lemma one_v r : d_one Rc RDC = Ok r -> Wv r /\ forall rho, ddenR rho r = 1.
Proof. exact (num_v 1 r). Qed.
Lemma zero_v r : d_zero Rc RDC = Ok r -> Wv r /\ forall rho, ddenR rho r = 0.
Proof. exact (num_v 0 r). Qed.
Lemma sq_v a r : Wv a -> sq Rc RDC tb a = Ok r -> Wv r /\ forall rho, ddenR rho r = powR (ddenR rho a) 2.
Proof.
  intros Ha H. unfold sq in H. destruct (from_num Rc (dc_two RDC)) as [two| |] eqn:E2; cbn [bind] in H; try discriminate.
  destruct (num_v _ _ E2) as [W2 D2]. destruct (pow_v a two r Ha W2 H) as [Wr [Dr|[Da Dr]]]; (split; [exact Wr|]); intros rho.
  - rewrite Dr, D2. reflexivity.
  - rewrite Dr, Da, powR_2. ring.
Qed.
Lemma un_v name k c a r : find_op name tb 0 = Some k -> has_un tb k = true -> ucode_of k = c -> Wv a ->
  un Rc tb name a = Ok r -> Wv r /\ forall rho, ddenR rho r = rfun c (ddenR rho a).
Proof.
  intros Hf Hu Hc Ha H. unfold un in H. destruct (op_un_sem name k a r Hf Hu (proj1 Ha) H) as (Wr & Vr & Dr).
  split; [split; [exact Wr|rewrite Vr; exact (proj2 Ha)]|]. intros rho. rewrite Dr. cbn [unf Rc]. rewrite Hc. reflexivity.
Qed.
Lemma ln_v a r : Wv a -> un Rc tb n_ln a = Ok r -> Wv r /\ forall rho, ddenR rho r = ln (ddenR rho a).
Proof. apply (un_v n_ln 30 CLn); vm_compute; reflexivity. Qed.
Lemma cos_v a r : Wv a -> un Rc tb n_cos a = Ok r -> Wv r /\ forall rho, ddenR rho r = cos (ddenR rho a).
Proof. apply (un_v n_cos 11 CCos); vm_compute; reflexivity. Qed.
Lemma sin_v a r : Wv a -> un Rc tb n_sin a = Ok r -> Wv r /\ forall rho, ddenR rho r = sin (ddenR rho a).
Proof. apply (un_v n_sin 10 CSin); vm_compute; reflexivity. Qed.
Lemma sqrt_v a r : Wv a -> un Rc tb n_sqrt a = Ok r -> Wv r /\ forall rho, ddenR rho r = sqrt (ddenR rho a).
Proof. apply (un_v n_sqrt 28 CSqrt); vm_compute; reflexivity. Qed.
Lemma cosh_v a r : Wv a -> un Rc tb n_cosh a = Ok r -> Wv r /\ forall rho, ddenR rho r = cosh (ddenR rho a).
Proof. apply (un_v n_cosh 17 CCosh); vm_compute; reflexivity. Qed.
Lemma sinh_v a r : Wv a -> un Rc tb n_sinh a = Ok r -> Wv r /\ forall rho, ddenR rho r = sinh (ddenR rho a).
Proof. apply (un_v n_sinh 16 CSinh); vm_compute; reflexivity. Qed.
Lemma tanh_v a r : Wv a -> un Rc tb n_tanh a = Ok r -> Wv r /\ forall rho, ddenR rho r = tanh (ddenR rho a).
Proof. apply (un_v n_tanh 18 CTanh); vm_compute; reflexivity. Qed.
Lemma wlu_v (e x : deepex R) k us : Wv e -> duop e = k :: us -> wlu e = Ok x ->
  Wv x /\ duop x = us /\ dnodes x = dnodes e /\ dbops x = dbops e /\ forall rho, ddenR rho e = rfun (ucode_of k) (ddenR rho x).
Proof.
  intros He Hu H. destruct (wlu_sem e x k us (proj1 He) Hu H) as (Wx & Vx & Ux & Dx).
  split; [split; [exact Wx|rewrite Vx; exact (proj2 He)]|]. split; [exact Ux|].
  destruct e as [n b u v]. cbn [duop] in Hu. subst u. cbn [wlu] in H. inversion H; subst x. cbn [dnodes dbops]. split; [reflexivity|]. split; [reflexivity|]. exact Dx.
Qed.

(* one step of a rule: name the result of the next operation and record what it is *)
Ltac sem_of E :=
  match type of E with
  | d_add _ _ _ _ _ = Ok _ => apply add_v in E; [|assumption|assumption]
  | d_sub _ _ _ _ = Ok _ => apply sub_v in E; [|assumption|assumption]
  | d_mul _ _ _ _ _ = Ok _ => apply mul_v in E; [|assumption|assumption]
  | d_div _ _ _ _ _ = Ok _ => apply div_v in E; [|assumption|assumption]
  | d_neg _ _ _ = Ok _ => apply neg_v in E; [|assumption]
  | d_one _ _ = Ok _ => apply one_v in E
  | d_zero _ _ = Ok _ => apply zero_v in E
  | from_num _ _ = Ok _ => apply num_v in E
  | sq _ _ _ _ = Ok _ => apply sq_v in E; [|assumption]
  | un _ _ n_ln _ = Ok _ => apply ln_v in E; [|assumption]
  | un _ _ n_cos _ = Ok _ => apply cos_v in E; [|assumption]
  | un _ _ n_sin _ = Ok _ => apply sin_v in E; [|assumption]
  | un _ _ n_sqrt _ = Ok _ => apply sqrt_v in E; [|assumption]
  | un _ _ n_cosh _ = Ok _ => apply cosh_v in E; [|assumption]
  | un _ _ n_sinh _ = Ok _ => apply sinh_v in E; [|assumption]
  | un _ _ n_tanh _ = Ok _ => apply tanh_v in E; [|assumption]
  end.
Ltac step H :=
  match type of H with
  | bind ?m _ = Ok _ =>
      let E := fresh "E" in let Wn := fresh "Wn" in let Dn := fresh "Dn" in
      destruct m eqn:E; cbn [bind] in H; [|discriminate H|discriminate H]; sem_of E; destruct E as [Wn Dn]
  end.
Ltac last_step H := let Wn := fresh "Wn" in let Dn := fresh "Dn" in sem_of H; destruct H as [Wn Dn].

(* ---- the chain-rule factor of the outermost unary operator ---- *)
Theorem urule_sem r (f x fac : deepex R) k us : Wv f -> duop f = k :: us -> wlu f = Ok x -> ucode_of k = ucode_rule r ->
  apply_urule Rc RDC tb r f = Ok fac -> Wv fac /\ forall rho, ddenR rho fac = rder (ucode_rule r) (ddenR rho x).
Proof.
  intros Wf Hu Hx Hc H. destruct (wlu_v f x k us Wf Hu Hx) as (Wx & _ & _ & _ & Df). rewrite Hc in Df.
  destruct r; cbn [apply_urule ucode_rule rder] in *; rewrite ?Hx in H; cbn [bind] in H.
  all: repeat step H.
  all: try (last_step H).
  all: try (inversion H; subst fac).
  all: split; [assumption|]; intros rho; cbn [rfun] in Df;
       repeat match goal with D : forall rho, ddenR rho _ = _ |- _ => rewrite (D rho); clear D end; cbn [dc_two dc_ten RDC]; try reflexivity.
Qed.

(* ---- along the line through rho0 in the direction of xi ---- *)
Variable rho0 : str -> R.
Variable xi : str.
Local Notation T0 := (t0 rho0 xi).
Local Notation ln_ t := (line rho0 xi t).
Lemma F_t0 e : ddenR (ln_ T0) e = ddenR rho0 e.
Proof. apply (ddenN_ext_all Rc). intros x. apply line_t0. Qed.

(* a (value, derivative) pair of expressions and the dual number it stands for *)
Definition Rel (vd : valder (D:=R)) (s : dual) : Prop :=
  Wv (vd_val vd) /\ Wv (vd_der vd) /\ sound T0 s /\
  (dk s -> (forall t, ddenR (ln_ t) (vd_val vd) = dv s t) /\ ddenR rho0 (vd_der vd) = dd s).
Lemma Rel_deq vd s s' : deq s s' -> Rel vd s -> Rel vd s'.
Proof.
  intros Hq (W1 & W2 & Hs & Hk). split; [exact W1|]. split; [exact W2|]. split; [exact (sound_deq T0 s s' Hq Hs)|].
  destruct Hq as (Q1 & Q2 & Q3). intros K'. destruct (Hk (proj2 Q3 K')) as [V D]. split; [intros t; rewrite V; apply Q1|rewrite D; exact Q2].
Qed.

Lemma zero_fun_der s : sound T0 s -> dk s -> (forall t, dv s t = 0) -> dd s = 0.
Proof.
  intros Hs Hk Hz. specialize (Hs Hk).
  rewrite <- (is_derive_unique (dv s) T0 (dd s) Hs). rewrite (Derive_ext (dv s) (fun _ => 0) T0 Hz). apply Derive_const.
Qed.

Theorem brule_sim br name a b c sa sb : Rel a sa -> Rel b sb -> bcode_rule br <> BcOther ->
  apply_brule Rc RDC tb br name a b = Ok c -> Rel c (bdual T0 (bcode_rule br) sa sb).
Proof.
  intros (Wa & Wa' & Sa & Ka) (Wb & Wb' & Sb & Kb) Hne H.
  assert (Hsound : sound T0 (bdual T0 (bcode_rule br) sa sb)) by (apply bdual_sound; assumption).
  destruct br; cbn [bcode_rule] in *; try (exfalso; apply Hne; reflexivity); cbn [apply_brule] in H.
  - (* power *)
    destruct (d_one Rc RDC) as [o| |] eqn:Eo; cbn [bind] in H; try discriminate. apply one_v in Eo. destruct Eo as [Wo Do].
    destruct (d_pow Rc RDC tb (vd_val a) (vd_val b)) as [val| |] eqn:Ev; cbn [bind] in H; try discriminate.
    apply pow_v in Ev; [|assumption|assumption]. destruct Ev as [Wval Dval].
    destruct (d_sub Rc tb (vd_val b) o) as [gm| |] eqn:Eg; cbn [bind] in H; try discriminate.
    apply sub_v in Eg; [|assumption|assumption]. destruct Eg as [Wgm Dgm].
    destruct (d_pow Rc RDC tb (vd_val a) gm) as [p| |] eqn:Ep; cbn [bind] in H; try discriminate.
    apply pow_v in Ep; [|assumption|assumption]. destruct Ep as [Wp Dp].
    repeat step H. inversion H; subst c. clear H.
    split; [exact Wval|]. split; [assumption|]. split; [exact Hsound|].
    intros (Ksa & Ksb & Hdom). destruct (Ka Ksa) as [Va Da]. destruct (Kb Ksb) as [Vb Db]. cbn [vd_val vd_der bdual dv dd].
    assert (Va0 : ddenR rho0 (vd_val a) = dv sa T0) by (rewrite <- F_t0; apply Va).
    assert (Vb0 : ddenR rho0 (vd_val b) = dv sb T0) by (rewrite <- F_t0; apply Vb).
    assert (Hval : forall t, ddenR (ln_ t) val = powR (dv sa t) (dv sb t)).
    { intros t. destruct Dval as [Dv|[Dz Dv]]; [rewrite Dv, Va, Vb; reflexivity|].
      rewrite Dv, <- Va, Dz. destruct Hdom as [Hp|(n & Hn & Hz)]; [rewrite <- Va0, Dz in Hp; lra|].
      rewrite Hn, powR_INR. destruct Hz as [Hz|Hz]; [exfalso; apply Hz; rewrite <- Va0; apply Dz|].
      symmetry. apply pow_i. lia. }
    split; [exact Hval|].
    assert (Hval0 : ddenR rho0 val = powR (dv sa T0) (dv sb T0)) by (rewrite <- F_t0; apply Hval).
    repeat match goal with D : forall rho, ddenR rho _ = _ |- _ => rewrite (D rho0); clear D end.
    rewrite Hval0, Va0, Vb0, Da, Db.
    destruct Dp as [Dp|[Dz Dp]].
    + rewrite Dp, Va0. repeat match goal with D : forall rho, ddenR rho _ = _ |- _ => rewrite (D rho0); clear D end. rewrite Vb0. ring.
    + rewrite Dp. assert (Hz : dd sa = 0) by (apply (zero_fun_der sa Sa Ksa); intros t; rewrite <- Va; apply Dz). rewrite Hz. ring.
  - (* sum *)
    repeat step H. inversion H; subst c. clear H. split; [assumption|]. split; [assumption|]. split; [exact Hsound|].
    intros (Ksa & Ksb). destruct (Ka Ksa) as [Va Da]. destruct (Kb Ksb) as [Vb Db]. cbn [vd_val vd_der bdual dv dd].
    split; [intros t|]; repeat match goal with D : forall rho, ddenR rho _ = _ |- _ => rewrite (D _); clear D end; rewrite ?Va, ?Vb, ?Da, ?Db; reflexivity.
  - (* difference *)
    repeat step H. inversion H; subst c. clear H. split; [assumption|]. split; [assumption|]. split; [exact Hsound|].
    intros (Ksa & Ksb). destruct (Ka Ksa) as [Va Da]. destruct (Kb Ksb) as [Vb Db]. cbn [vd_val vd_der bdual dv dd].
    split; [intros t|]; repeat match goal with D : forall rho, ddenR rho _ = _ |- _ => rewrite (D _); clear D end; rewrite ?Va, ?Vb, ?Da, ?Db; reflexivity.
  - (* product *)
    repeat step H. inversion H; subst c. clear H. split; [assumption|]. split; [assumption|]. split; [exact Hsound|].
    intros (Ksa & Ksb). destruct (Ka Ksa) as [Va Da]. destruct (Kb Ksb) as [Vb Db]. cbn [vd_val vd_der bdual dv dd].
    assert (Va0 : ddenR rho0 (vd_val a) = dv sa T0) by (rewrite <- F_t0; apply Va).
    assert (Vb0 : ddenR rho0 (vd_val b) = dv sb T0) by (rewrite <- F_t0; apply Vb).
    split; [intros t|]; repeat match goal with D : forall rho, ddenR rho _ = _ |- _ => rewrite (D _); clear D end; rewrite ?Va, ?Vb, ?Va0, ?Vb0, ?Da, ?Db; reflexivity.
  - (* quotient *)
    repeat step H. inversion H; subst c. clear H. split; [assumption|]. split; [assumption|]. split; [exact Hsound|].
    intros (Ksa & Ksb & _). destruct (Ka Ksa) as [Va Da]. destruct (Kb Ksb) as [Vb Db]. cbn [vd_val vd_der bdual dv dd].
    assert (Va0 : ddenR rho0 (vd_val a) = dv sa T0) by (rewrite <- F_t0; apply Va).
    assert (Vb0 : ddenR rho0 (vd_val b) = dv sb T0) by (rewrite <- F_t0; apply Vb).
    split; [intros t|]; repeat match goal with D : forall rho, ddenR rho _ = _ |- _ => rewrite (D _); clear D end; rewrite ?Va, ?Vb, ?Va0, ?Vb0, ?Da, ?Db; reflexivity.
Qed.

(* ---- the unary operators of a level: product of the chain-rule factors ---- *)
Fixpoint prodf (us : list nat) (y : R) : R :=
  match us with [] => 1 | u :: us' => rder (ucode_of u) (apply_un Rc us' y) * prodf us' y end.
Fixpoint condf (us : list nat) (y : R) : Prop :=
  match us with [] => True | u :: us' => ucond (ucode_of u) (apply_un Rc us' y) /\ condf us' y end.
Local Notation DcT := (Dc T0).
Lemma dd_apply_un us s : dd (apply_un DcT us s) = dd s * prodf us (dv s T0).
Proof.
  induction us as [|u us IH]; [cbn; ring|].
  change (apply_un DcT (u :: us) s) with (udual T0 (ucode_of u) (apply_un DcT us s)). cbn [udual dd prodf].
  rewrite IH, (dv_apply_un rho0 xi). ring.
Qed.
Lemma dk_apply_un us s : dk (apply_un DcT us s) <-> dk s /\ condf us (dv s T0).
Proof.
  induction us as [|u us IH]; [cbn; tauto|].
  change (apply_un DcT (u :: us) s) with (udual T0 (ucode_of u) (apply_un DcT us s)). cbn [udual dk condf].
  rewrite IH, (dv_apply_un rho0 xi). tauto.
Qed.

Definition strip (e : deepex R) : deepex R := DE (dnodes e) (dbops e) [] (dvars e).
Lemma dden_strip e rho : ddenR rho e = apply_un Rc (duop e) (ddenR rho (strip e)).
Proof. destruct e as [n b u v]. unfold strip. cbn [dnodes dbops dvars duop]. rewrite !dden_unfold. reflexivity. Qed.

Lemma outer_factors_sem : forall n (e : deepex R) facs, Wv e -> length (duop e) = n -> outer_factors Rc RDC tb e n = Ok facs ->
  Forall Wv facs /\ forall rho, fold_right Rmult 1 (map (fun a => ddenR rho a) facs) = prodf (duop e) (ddenR rho (strip e)).
Proof.
  induction n as [|n IH]; intros e facs We Hl H.
  - cbn in H. inversion H; subst. destruct (duop e); [|discriminate]. split; [constructor|reflexivity].
  - cbn [outer_factors] in H. destruct (duop e) as [|k us] eqn:Eu; [discriminate|].
    destruct (find_rule (repr_of tb k)) as [[b [ur|]]|] eqn:Er; try discriminate.
    destruct (apply_urule Rc RDC tb ur e) as [fac| |] eqn:Ef; cbn [bind] in H; try discriminate.
    destruct (wlu e) as [e'| |] eqn:Ew; cbn [bind] in H; try discriminate.
    destruct (outer_factors Rc RDC tb e' n) as [rest| |] eqn:Eo; cbn [bind] in H; try discriminate.
    inversion H; subst facs.
    destruct (wlu_v e e' k us We Eu Ew) as (We' & Hu' & Hn' & Hb' & _).
    destruct (urule_sem ur e e' fac k us We Eu Ew (urule_code k b ur Er) Ef) as [Wfac Dfac].
    destruct (IH e' rest We' ltac:(rewrite Hu'; cbn in Hl; lia) Eo) as [Wrest Drest].
    split; [constructor; assumption|]. intros rho. cbn [map fold_right prodf]. rewrite Drest, Dfac, Hu'.
    rewrite <- (urule_code k b ur Er).
    assert (Es : strip e' = strip e).
    { unfold strip. rewrite Hn', Hb'. f_equal. destruct e as [n0 b0 u0 v0]. cbn [duop] in Eu. subst u0. cbn [wlu] in Ew. inversion Ew. reflexivity. }
    rewrite (dden_strip e' rho), Hu', Es. reflexivity.
Qed.
Lemma fold_err (facs : list (deepex R)) (r : res (deepex R)) : (forall o, r <> Ok o) ->
  forall o, fold_left (fun acc fac => do a <- acc; d_mul Rc RDC tb fac a) facs r <> Ok o.
Proof.
  revert r. induction facs as [|f tl IH]; intros r Hr o; [apply Hr|]. cbn [fold_left]. apply IH.
  intros o'. destruct r as [d0| |]; cbn [bind]; [exfalso; exact (Hr d0 eq_refl)|discriminate|discriminate].
Qed.
Lemma fold_mul_sem : forall (facs : list (deepex R)) acc o, Forall Wv facs -> Wv acc ->
  fold_left (fun acc fac => do a <- acc; d_mul Rc RDC tb fac a) facs (Ok acc) = Ok o ->
  Wv o /\ forall rho, ddenR rho o = fold_right Rmult 1 (map (fun a => ddenR rho a) facs) * ddenR rho acc.
Proof.
  induction facs as [|f tl IH]; intros acc o HF Wacc H.
  - cbn in H. inversion H; subst. split; [exact Wacc|intros rho; cbn; ring].
  - cbn [fold_left bind] in H. inversion HF as [|? ? Wf Wtl]; subst.
    destruct (d_mul Rc RDC tb f acc) as [m| |] eqn:Em.
    + destruct (mul_v f acc m Wf Wacc Em) as [Wm Dm]. destruct (IH m o Wtl Wm H) as [Wo Do].
      split; [exact Wo|]. intros rho. rewrite Do, Dm. cbn [map fold_right]. ring.
    + exfalso. refine (fold_err tl _ _ o H). intros o' Ho'. discriminate.
    + exfalso. refine (fold_err tl _ _ o H). intros o' Ho'. discriminate.
Qed.
Theorem outer_sem (e o : deepex R) : Wv e -> derivative_outer Rc RDC tb e = Ok o ->
  Wv o /\ forall rho, ddenR rho o = prodf (duop e) (ddenR rho (strip e)).
Proof.
  intros We H. unfold derivative_outer in H.
  destruct (outer_factors Rc RDC tb e (length (duop e))) as [facs| |] eqn:Ef; cbn [bind] in H; try discriminate.
  destruct (outer_factors_sem _ e facs We eq_refl Ef) as [Wf Df].
  destruct (d_one Rc RDC) as [one| |] eqn:E1; cbn [bind] in H; try discriminate. apply one_v in E1. destruct E1 as [W1 D1].
  destruct (fold_mul_sem facs one o Wf W1 H) as [Wo Do]. split; [exact Wo|]. intros rho. rewrite Do, Df, D1. ring.
Qed.

(* ---- the reduction loop and the recursion ---- *)
Variable gall : list str.      (* the list the variable indices refer to (the variable list of the outermost expression) *)
Variable vi : nat.
Hypothesis var_link : forall j x, index_of x gall 0 = Some j -> Nat.eqb j vi = str_eqb x xi.
Local Notation ddualT := (ddual rho0 xi).
Local Notation ndualT := (ndual rho0 xi).

Definition opA (bops : list dbop) (b : nat) (n1 n2 : valder (D:=R)) : res (valder (D:=R)) :=
  match nth_error bops b with
  | Some o =>
      match find_rule (repr_of tb (bidx o)) with
      | Some (Some br, _) => apply_brule Rc RDC tb br (repr_of tb (bidx o)) n1 n2
      | Some (None, _) => Err E_NORULE
      | None => Err E_NORULE
      end
  | None => Panic 327
  end.
Lemma inner_loop_rloop bops : forall sigma i ni nodes,
  inner_loop Rc RDC tb sigma i ni nodes bops MError = rloop (opA bops) sigma i ni nodes.
Proof.
  induction sigma as [|b stl IH]; intros i ni nodes; [reflexivity|]. cbn [inner_loop rloop].
  destruct (nth_error ni i) as [p|]; [|reflexivity].
  destruct (nth_error nodes p) as [n1|]; [|reflexivity]. destruct (nth_error nodes (S p)) as [n2|]; [|reflexivity].
  unfold opA. destruct (nth_error bops b) as [o|]; [|reflexivity].
  destruct (find_rule (repr_of tb (bidx o))) as [[[br|] u]|]; cbn [bind]; try reflexivity.
  destruct (apply_brule Rc RDC tb br (repr_of tb (bidx o)) n1 n2); cbn [bind]; try reflexivity. apply IH.
Qed.
Lemma opA_sim bops k a b c sa sb : Rel a sa -> Rel b sb -> opA bops k a b = Ok c -> Rel c (bop_at DcT bops k sa sb).
Proof.
  intros Ra Rb H. unfold opA in H. unfold bop_at. destruct (nth_error bops k) as [o|]; [|discriminate].
  destruct (find_rule (repr_of tb (bidx o))) as [[[br|] u]|] eqn:Er; try discriminate.
  destruct (brule_code _ br u Er) as [Hc Hne]. cbn [binf Dc]. rewrite Hc. exact (brule_sim br _ a b c sa sb Ra Rb Hne H).
Qed.

Lemma union_v r e r' e2 : Wv r -> Wv e -> var_names_union r e = Ok (r', e2) ->
  Wv r' /\ dvars r' = sort_strs (dvars r ++ dvars e) /\ forall rho, ddenR rho r' = ddenR rho r.
Proof.
  intros Wr We H. destruct (union_sem r e r' e2 (proj1 Wr) (proj1 We) H) as (W1 & _ & V1 & _ & D1 & _).
  split; [split; [exact W1|rewrite V1; apply union_Wv; assumption]|]. split; [exact V1|exact D1].
Qed.
Lemma inner_union r e inner : Wv r -> Wv e -> dvars e = all ->
  (do ' (r', _) <- var_names_union r e; Ok r') = Ok inner -> Wv inner /\ dvars inner = all /\ forall rho, ddenR rho inner = ddenR rho r.
Proof.
  intros Wr We Hv H. destruct (var_names_union r e) as [[r' e2]| |] eqn:Eu; cbn [bind] in H; try discriminate. inversion H; subst r'.
  destruct (union_v r e inner e2 Wr We Eu) as (Wi & Vi & Di). split; [exact Wi|]. split; [|exact Di].
  rewrite Vi, Hv. exact (proj1 (union_absorb _ _ all_sorted (proj2 Wr))).
Qed.
(* inner derivative times the factors of the unary operators *)
Lemma finish e inner d (lvl : dual) : Wv e -> dvars e = all -> Wv inner -> dvars inner = all ->
  (forall t, dv lvl t = ddenR (ln_ t) (strip e)) ->
  (dk lvl -> ddenR rho0 inner = dd lvl) ->
  (do outer <- derivative_outer Rc RDC tb e; d_mul Rc RDC tb inner outer) = Ok d ->
  (Wv d /\ dconsistent tfl all d) /\ dvars d = all /\ (dk (apply_un DcT (duop e) lvl) -> ddenR rho0 d = dd (apply_un DcT (duop e) lvl)).
Proof.
  intros We Ve Wi Vi Hlv Hin H.
  destruct (derivative_outer Rc RDC tb e) as [outer| |] eqn:Eo; cbn [bind] in H; try discriminate.
  destruct (outer_sem e outer We Eo) as [Wo Do].
  destruct (d_mul_sem inner outer d (proj1 Wi) (proj1 Wo) H) as (Wd & Vd & Dd).
  assert (Hvd : dvars d = all) by (rewrite Vd, Vi; exact (proj2 (union_absorb _ _ all_sorted (proj2 Wo)))).
  pose proof (d_mul_cons inner outer d (proj1 Wi) (proj1 Wo) H) as Cd. rewrite Hvd in Cd.
  split; [split; [split; [exact Wd|rewrite Hvd; apply incl_refl]|exact Cd]|]. split; [exact Hvd|].
  intros Hk. apply dk_apply_un in Hk. destruct Hk as [Kl _]. rewrite dd_apply_un, Dd, Do, (Hin Kl), Hlv, F_t0. reflexivity.
Qed.

Lemma map_snd_chain (x : dual) (rest : list dual) d0 :
  map snd (chain_from dual (EvalBinaryCorrect.vals_of dual d0 (x :: rest)) 0%nat (length rest)) = rest.
Proof.
  unfold chain_from, EvalBinaryCorrect.vals_of. rewrite map_map. cbn [snd nth].
  assert (E : forall (l : list dual) lo, map (fun j => nth (j - lo)%nat l d0) (seq lo (length l)) = l).
  { induction l as [|a l IH]; intros lo; [reflexivity|]. cbn [length seq map]. rewrite Nat.sub_diag. cbn [nth]. f_equal.
    rewrite <- (IH (S lo)) at 2. apply map_ext_in. intros j Hj. apply in_seq in Hj. replace (j - lo)%nat with (S (j - S lo))%nat by lia. reflexivity. }
  rewrite <- (E rest 0%nat) at 2. apply map_ext. intros j. rewrite Nat.sub_0_r. reflexivity.
Qed.

(* a literal or variable node wrapped into an expression of its own *)
Lemma leaf_rel fuel' (n : dnode R) v d :
  match n with DExpr _ => False | DVar j x => index_of x gall 0 = Some j /\ In x all | DNum _ => True end ->
  new_deepex Rc [n] [] [] = Ok v -> partial_deepex Rc RDC tb fuel' vi v MError = Ok d ->
  Rel {| vd_val := v; vd_der := d |} (ndualT n).
Proof.
  intros Hn Hv H. destruct fuel' as [|f]; [discriminate|].
  destruct n as [e'|d0|j x]; [contradiction| |].
  - assert (Ev : v = DE [DNum d0] [] [] []) by (cbn in Hv; inversion Hv; reflexivity). subst v. clear Hv.
    cbn [partial_deepex dnodes] in H.
    destruct (d_zero Rc RDC) as [z| |] eqn:Ez; cbn [bind] in H; try discriminate. apply zero_v in Ez. destruct Ez as [Wz Dz].
    pose proof (const_Wv d0) as Wc.
    destruct (var_names_union z (DE [DNum d0] [] [] [])) as [[r' e2]| |] eqn:Eu; cbn [bind] in H; try discriminate.
    destruct (union_v z _ r' e2 Wz Wc Eu) as (Wr & _ & Dr).
    destruct (derivative_outer Rc RDC tb (DE [DNum d0] [] [] [])) as [outer| |] eqn:Eo; cbn [bind] in H; try discriminate.
    destruct (outer_sem _ outer Wc Eo) as [Wo Do]. destruct (mul_v r' outer d Wr Wo H) as [Wd Dd].
    split; [exact Wc|]. split; [exact Wd|]. split; [apply cdual_sound|]. intros _. cbn [vd_val vd_der ndual cdual dv dd].
    split; [intros t; reflexivity|]. rewrite Dd, Dr, Dz. ring.
  - assert (Ev : v = DE [DVar j x] [] [] [x]) by (cbn in Hv; inversion Hv; reflexivity). subst v. clear Hv.
    assert (Wc : Wv (DE [DVar j x] [] [] [x])).
    { split; [split|].
      - unfold dclosed. rewrite dwf_unfold. split; [reflexivity|]. split; [exact I|]. split; [intros o []|]. constructor; [left; reflexivity|constructor].
      - rewrite nf_unfold. split; [intros d0 Hd; discriminate|constructor; [exact I|constructor]].
      - intros y [<-|[]]. exact (proj2 Hn). }
    cbn [partial_deepex dnodes] in H.
    assert (Hr : exists r, (if Nat.eqb j vi then d_one Rc RDC else d_zero Rc RDC) = Ok r /\ Wv r /\ forall rho, ddenR rho r = if str_eqb x xi then 1 else 0).
    { rewrite <- (var_link j x (proj1 Hn)). destruct (Nat.eqb j vi); eexists; (split; [reflexivity|]); [exact (one_v _ eq_refl)|exact (zero_v _ eq_refl)]. }
    destruct Hr as (r & Er & Wr0 & Dr0). rewrite Er in H. cbn [bind] in H.
    destruct (var_names_union r (DE [DVar j x] [] [] [x])) as [[r' e2]| |] eqn:Eu; cbn [bind] in H; try discriminate.
    destruct (union_v r _ r' e2 Wr0 Wc Eu) as (Wr & _ & Dr).
    destruct (derivative_outer Rc RDC tb (DE [DVar j x] [] [] [x])) as [outer| |] eqn:Eo; cbn [bind] in H; try discriminate.
    destruct (outer_sem _ outer Wc Eo) as [Wo Do]. destruct (mul_v r' outer d Wr Wo H) as [Wd Dd].
    split; [exact Wc|]. split; [exact Wd|]. split; [apply vdual_sound|]. intros _. cbn [vd_val vd_der ndual vdual dv dd].
    split; [intros t; reflexivity|]. rewrite Dd, Dr, Dr0, Do. cbn [duop prodf]. ring.
Qed.

End PartialCorrect.

(* ---- the recursion, for expressions as the constructors build them ---- *)
Lemma Wv_mono all all' a : incl all all' -> Wv all a -> Wv all' a.
Proof. intros Hi [Wa Ia]. split; [exact Wa|exact (incl_tran Ia Hi)]. Qed.
Lemma Rel_mono all all' rho0 xi vd s : incl all all' -> Rel all rho0 xi vd s -> Rel all' rho0 xi vd s.
Proof. intros Hi (W1 & W2 & R3). split; [exact (Wv_mono _ _ _ Hi W1)|]. split; [exact (Wv_mono _ _ _ Hi W2)|exact R3]. Qed.

Section Recursion.
Variable gall : list str.
(* every variable list sorted and within gall; every variable node indexed in gall *)
Definition okl (v : list str) : Prop := StronglySorted str_lt v /\ incl v gall.
Definition Ix (e : deepex R) : Prop := dwf tfl (indexed gall) okl e.
Variable rho0 : str -> R.
Variable xi : str.
Variable vi : nat.
Hypothesis var_link : forall j x, index_of x gall 0 = Some j -> Nat.eqb j vi = str_eqb x xi.
Local Notation ddualT := (ddual rho0 xi).
Local Notation ndualT := (ndual rho0 xi).
Local Notation T0 := (t0 rho0 xi).
Local Notation DcT := (Dc T0).
Local Notation ln_ t := (line rho0 xi t).
Local Open Scope R_scope.

Definition goal_of (e d : deepex R) : Prop :=
  (Wv (dvars e) d /\ dconsistent tfl (dvars e) d) /\ dvars d = dvars e /\ (dk (ddualT e) -> ddenR rho0 d = dd (ddualT e)).

Lemma W_of (e : deepex R) : Ix e -> hc e -> nf e -> W e.
Proof. intros Hi Hh Hn. split; [exact (hc_closed tfl (indexed gall) okl e (dvars e) Hi Hh (incl_refl _))|exact Hn]. Qed.

Lemma vds_rel fuel' (all : list str)
  (IH : forall e d : deepex R, Ix e -> hc e -> nf e -> partial_deepex Rc RDC tb fuel' vi e MError = Ok d -> goal_of e d) :
  forall (nodes : list (dnode R)) vds, Forall (nwf tfl (indexed gall) okl) nodes -> Forall (nhc all) nodes -> Forall nnf nodes ->
  mapM (fun n => do v <- match n with DExpr e' => Ok e' | _ => new_deepex Rc [n] [] [] end;
                 do d <- partial_deepex Rc RDC tb fuel' vi v MError; Ok {| vd_val := v; vd_der := d |}) nodes = Ok vds ->
  Forall2 (Rel all rho0 xi) vds (map ndualT nodes).
Proof.
  induction nodes as [|m ms IHn]; intros vds Hnodes Hhc Hch Evds; [cbn in Evds; inversion Evds; constructor|].
  cbn [mapM] in Evds. inversion Hnodes as [|? ? Hn1 Hn2]; subst. inversion Hhc as [|? ? Hh1 Hh2]; subst. inversion Hch as [|? ? Hc1 Hc2]; subst.
  match type of Evds with bind ?m0 _ = _ => destruct m0 as [vd| |] eqn:Evd; cbn [bind] in Evds; try discriminate end.
  match type of Evds with bind ?m0 _ = _ => destruct m0 as [vt| |] eqn:Evt; cbn [bind] in Evds; try discriminate end.
  inversion Evds; subst vds. cbn [map]. constructor; [|exact (IHn vt Hn2 Hh2 Hc2 eq_refl)].
  match type of Evd with bind ?m0 _ = _ => destruct m0 as [v| |] eqn:Ev; cbn [bind] in Evd; try discriminate end.
  destruct (partial_deepex Rc RDC tb fuel' vi v MError) as [dv_| |] eqn:Ed; cbn [bind] in Evd; try discriminate. inversion Evd; subst vd.
  destruct m as [e'|d0|j x]; cbn [nwf nnf nhc] in *.
  - inversion Ev; subst v. destruct Hh1 as [Hi1 Hh1]. destruct (IH e' dv_ Hn1 Hh1 (proj1 Hc1) Ed) as ([Wd _] & _ & Dd).
    assert (We' : Wv all e') by (split; [exact (W_of e' Hn1 Hh1 (proj1 Hc1))|exact Hi1]).
    split; [exact We'|]. split; [exact (Wv_mono _ _ _ Hi1 Wd)|]. split; [apply ddual_sound|]. intros Hk. cbn [vd_val vd_der ndual].
    split; [intros t; symmetry; apply ddual_dv|exact (Dd Hk)].
  - exact (leaf_rel all rho0 xi gall vi var_link fuel' (DNum d0) v dv_ I Ev Ed).
  - exact (leaf_rel all rho0 xi gall vi var_link fuel' (DVar j x) v dv_ (conj Hn1 Hh1) Ev Ed).
Qed.

Theorem partial_ok : forall fuel (e d : deepex R), Ix e -> hc e -> nf e ->
  partial_deepex Rc RDC tb fuel vi e MError = Ok d -> goal_of e d.
Proof.
  induction fuel as [|fuel' IH]; intros e d Hc Hh Hnf H; [discriminate|].
  pose proof (W_of e Hc Hh Hnf) as We0.
  destruct e as [nodes bops uop vars]. unfold goal_of. cbn [dvars] in *.
  assert (We : Wv vars (DE nodes bops uop vars)) by (split; [exact We0|apply incl_refl]).
  unfold Ix in Hc. rewrite dwf_unfold in Hc. destruct Hc as (Hlen & [Hsorted _] & Hops & Hnodes).
  rewrite hc_unfold in Hh.
  pose proof Hnf as Hnf0. rewrite nf_unfold in Hnf. destruct Hnf as [_ Hch].
  rewrite ddual_unfold. set (lvl := level_val DcT (map ndualT nodes) bops).
  assert (Hlv : forall t, dv lvl t = ddenR (ln_ t) (strip (DE nodes bops uop vars))).
  { intros t. pose proof (ddual_dv rho0 xi (strip (DE nodes bops uop vars)) t) as Hd. unfold strip in *. cbn [dnodes dbops dvars] in *.
    rewrite ddual_unfold in Hd. exact Hd. }
  cbn [partial_deepex] in H.
  match type of H with bind ?m _ = _ => destruct m as [inner| |] eqn:Einner; cbn [bind] in H; try discriminate end.
  refine (finish vars Hsorted rho0 xi (DE nodes bops uop vars) inner d lvl We eq_refl _ _ Hlv _ H); cbn [dnodes dbops] in Einner.
  all: destruct nodes as [|n [|n2 tl]]; [cbn in Hlen; discriminate| |].
  (* one node *)
  1,3,5: destruct bops; [|cbn in Hlen; lia];
    match type of Einner with bind ?m _ = _ => destruct m as [r| |] eqn:Er; cbn [bind] in Einner; try discriminate end;
    assert (Hr : Wv vars r /\ (dk (ndualT n) -> ddenR rho0 r = dd (ndualT n)));
    [ inversion Hnodes as [|? ? Hn1 _]; subst; inversion Hch as [|? ? Hc1 _]; subst; inversion Hh as [|? ? Hh1 _]; subst;
      destruct n as [e'|d0|j x]; cbn [nwf nnf nhc] in *;
      [ destruct Hh1 as [Hi1 Hh1]; destruct (IH e' r Hn1 Hh1 (proj1 Hc1) Er) as ([Wr _] & _ & Dr); split; [exact (Wv_mono _ _ _ Hi1 Wr)|exact Dr]
      | apply (zero_v vars) in Er; destruct Er as [Wr Dr]; split; [exact Wr|intros _; rewrite Dr; reflexivity]
      | rewrite (var_link j x Hn1) in Er; cbn [ndual vdual dd]; destruct (str_eqb x xi);
        [apply (one_v vars) in Er|apply (zero_v vars) in Er]; destruct Er as [Wr Dr]; (split; [exact Wr|intros _; rewrite Dr; reflexivity]) ]
    | destruct Hr as [Wr Dr]; destruct (inner_union vars Hsorted r _ inner Wr We eq_refl Einner) as (Wi & Vi & Di);
      first [exact Wi|exact Vi|(intros Hk; rewrite Di; apply Dr; exact Hk)] ].
  (* several nodes *)
  all: set (nodes := n :: n2 :: tl) in *.
  all: match type of Einner with bind ?m _ = _ => destruct m as [vds| |] eqn:Evds; cbn [bind] in Einner; try discriminate end.
  all: match type of Einner with bind ?m _ = _ => destruct m as [final| |] eqn:Efinal; cbn [bind] in Einner; try discriminate end.
  all: assert (Hrel : Forall2 (Rel vars rho0 xi) vds (map ndualT nodes)) by exact (vds_rel fuel' vars IH nodes vds Hnodes Hh Hch Evds).
  all: rewrite inner_loop_rloop in Efinal.
  all: assert (Hlr : length (map ndualT (n2 :: tl)) = length (map to_fop bops)) by (rewrite !map_length; cbn in Hlen; cbn; lia).
  all: assert (Hassoc : forall o, In o (map to_fop bops) -> fcomm o = true ->
        forall a b c, deq (binf DcT (fidx o) (binf DcT (fidx o) a b) c) (binf DcT (fidx o) a (binf DcT (fidx o) b c)));
    [ intros o Ho Hcm; apply in_map_iff in Ho; destruct Ho as (o' & <- & Ho'); cbn [to_fop fidx fcomm] in *;
      exact (DeepOps.flagged_assoc DcT tb deq (Dc_assoc T0) o' (Hops o' Ho') Hcm) |].
  all: destruct (run_level_is_pv DcT deq deq_refl deq_sym deq_trans (Dc_bin T0) (Dc_un T0) (map to_fop bops) Hassoc
                  (dkey nodes bops) (dkey_cases nodes bops) (dkey_ok nodes bops) (bop_at DcT bops) (fun i a b => bop_at_op_at bops DcT i a b)
                  (ndualT n) (map ndualT (n2 :: tl)) Hlr) as (v & Hrun & Hdeq).
  all: rewrite map_length in Hrun.
  all: destruct (sort_desc_spec (dkey nodes bops) (length bops)) as (_ & NDs & Hin).
  all: assert (Hsim : exists sx' sl', ChainMachine.run (bop_at DcT bops) (prioritized_indices bops nodes) (ndualT n)
                   (chain_from dual (EvalBinaryCorrect.vals_of dual (dflt DcT) (ndualT n :: map ndualT (n2 :: tl))) 0%nat (length bops)) = Some (sx', sl') /\
                 Forall2 (Rel vars rho0 xi) final (sx' :: map snd sl'));
    [ apply (rloop_sim (opA bops) (bop_at DcT bops) (Rel vars rho0 xi) (opA_sim vars rho0 xi bops) (prioritized_indices bops nodes) 0%nat (prioritized_indices bops nodes) vds);
      [ replace (length bops) with (length (map ndualT (n2 :: tl))) by (rewrite Hlr, map_length; reflexivity); rewrite map_snd_chain; exact Hrel
      | rewrite chain_from_ids; apply seq_NoDup
      | exact NDs
      | apply (pos_ok_init (prioritized_indices bops nodes) _ (length bops)); [apply chain_from_ids|intros j Hj; apply Hin; exact Hj]
      | exact Efinal ]
    |].
  all: destruct Hsim as (sx' & sl' & Hrun' & Hfin); unfold prioritized_indices in Hrun'; rewrite Hrun in Hrun'; inversion Hrun'; subst sx' sl'.
  all: inversion Hfin as [|vd s0 ft st Hvd Hft]; subst; inversion Hft; subst.
  all: assert (Hvd' : Rel vars rho0 xi vd lvl) by (apply (Rel_deq vars rho0 xi vd v lvl); [exact Hdeq|exact Hvd]).
  all: destruct Hvd' as (_ & Wder & _ & Kder).
  all: destruct (inner_union vars Hsorted (vd_der vd) _ inner Wder We eq_refl Einner) as (Wi & Vi & Di).
  all: first [exact Wi|exact Vi|(intros Hk; rewrite Di; exact (proj2 (Kder Hk)))].
Qed.
End Recursion.
