(* C15 — consuming evaluation agrees with borrowing evaluation.  Property theorems only. *)
From Coq Require Import List Arith.
Import ListNotations.
From Exmex.Model Require Import Base EvalBinary Lexer Flat.
From Exmex.Proofs Require Import Consuming.
Open Scope nat_scope.

(* For EVERY data type, every flat expression whose variable nodes point into the value list (true of every
   expression the parsers and conversions build, C04) and every list of values of the right length:
   eval_flatex_consuming_vars (eval_vec / eval_iter) returns exactly what the borrowing evaluation returns -- the
   numbers handed to the operators are the values as passed in, so a moved-out placeholder (Default) never reaches
   an operator -- and the value of variable i is cloned (occurrences of i) - 1 times: a variable that occurs exactly
   once is moved, not cloned; a variable that does not occur is neither.  Both arity errors coincide as well
   (the statement is an equality of outcomes). *)
Theorem C15_consuming_eq_cloning :
  forall (D : Type) (C : carrier D) (vals : list D) (fx : flatex D),
  nodes_ok vals (fnodes fx) -> length (fvars fx) = length vals ->
  exists cl, eval_consuming C fx vals = (do v <- eval_flat C fx vals; Ok (v, cl)) /\
             length cl = length vals /\ forall i, i < length vals -> nth i cl 0 = occ i (fnodes fx) - 1.
Proof. exact @consuming_eq_cloning. Qed.

Theorem C15_arity :
  forall (D : Type) (C : carrier D) (vals : list D) (fx : flatex D),
  length (fvars fx) <> length vals -> eval_consuming C fx vals = Err E_ARITY.
Proof.
  intros D C vals fx H. unfold eval_consuming. destruct (Nat.eqb_spec (length (fvars fx)) (length vals)); [congruence|reflexivity].
Qed.

(* non-vacuity: x*y+x*x*z with a folded literal: x is cloned twice and moved once, y and z are moved *)
Example C15_example :
  let fx := {| fnodes := [ {| nkind := FVar 0; nun := [] |}; {| nkind := FVar 1; nun := [] |}; {| nkind := FVar 0; nun := [] |};
                           {| nkind := FVar 0; nun := [3] |}; {| nkind := FVar 2; nun := [] |} ];
               fops := [ {| fprio := 2; fidx := 1; fcomm := true; fun_ := [] |}; {| fprio := 0; fidx := 0; fcomm := true; fun_ := [] |};
                         {| fprio := 2; fidx := 1; fcomm := true; fun_ := [] |}; {| fprio := 2; fidx := 1; fcomm := true; fun_ := [] |} ];
               fprios := [0; 2; 3; 1]; fvars := [[120%N]; [121%N]; [122%N]]; ftext := [] |} in
  eval_consuming term_carrier fx [V 0; V 1; V 2]
  = Ok (Bin 0 (Bin 1 (V 0) (V 1)) (Bin 1 (Bin 1 (V 0) (Un 3 (V 0))) (V 2)), [2; 0; 0]).
Proof. vm_compute. reflexivity. Qed.

Print Assumptions C15_consuming_eq_cloning.
Print Assumptions C15_arity.
