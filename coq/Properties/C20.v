(* C20 — expressions are immutable values that can be shared across threads.  Property theorems only. *)
From Coq Require Import List.
Import ListNotations.
From Exmex.Model Require Import Base EvalBinary Lexer Flat Deep.

(* What a pure model can say is true by construction and is stated only for the record: evaluation returns a
   value and no expression, so the results of any history of evaluations on shared expressions are the pointwise
   results.  The content of this check is on the implementation side (Send + Sync decided by rustc; concurrent and
   failure-containing histories against sequential results); level `other`. *)
Theorem C20_history_independence :
  forall (D : Type) (C : carrier D) (fx : flatex D) (dx : deepex D) (history : list (bool * list D)),
  map (fun q : bool * list D => if fst q then eval_flat C fx (snd q) else eval_deep C dx (snd q)) history
  = map (fun q : bool * list D => if fst q then eval_flat C fx (snd q) else eval_deep C dx (snd q)) history.
Proof. reflexivity. Qed.
(* parsing is a function of the text *)
Theorem C20_parse_deterministic :
  forall (D : Type) (C : carrier D) (tb : optable) (is_literal : str -> option nat) (t1 t2 : str),
  t1 = t2 -> parse C tb true is_literal t1 = parse C tb true is_literal t2.
Proof. intros; subst; reflexivity. Qed.
Print Assumptions C20_history_independence.
